//! Compile-fail witnesses (type-level remainder of C06, C10, C11, C13).  Each `compile_fail,E0xxx` test is paired
//! with a compiling twin that differs only by the offending line, so a witness cannot pass because of an unrelated
//! error.  Run with `cargo +nightly test --doc --offline` (error codes are only honoured on nightly).
#![allow(unused)]

use core::ptr::NonNull;
use virtio_drivers::transport::{DeviceStatus, DeviceType, InterruptStatus, Transport};
use virtio_drivers::{BufferDirection, Hal, PhysAddr};
use zerocopy::{FromBytes, Immutable, IntoBytes};

/// A HAL that is never called (the witnesses only need to type-check and monomorphise).
pub struct DummyHal;

unsafe impl Hal for DummyHal {
    fn dma_alloc(_pages: usize, _direction: BufferDirection, _access_platform: bool) -> (PhysAddr, NonNull<u8>) {
        (0, NonNull::dangling())
    }
    unsafe fn dma_dealloc(_paddr: PhysAddr, _vaddr: NonNull<u8>, _pages: usize, _access_platform: bool) -> i32 {
        0
    }
    unsafe fn mmio_phys_to_virt(_paddr: PhysAddr, _size: usize) -> NonNull<u8> {
        NonNull::dangling()
    }
    unsafe fn share(_buffer: NonNull<[u8]>, _direction: BufferDirection, _access_platform: bool) -> PhysAddr {
        0
    }
    unsafe fn unshare(_paddr: PhysAddr, _buffer: NonNull<[u8]>, _direction: BufferDirection, _access_platform: bool) {}
}

/// A transport that is never called.
pub struct DummyTransport;

impl Transport for DummyTransport {
    fn device_type(&self) -> DeviceType {
        DeviceType::Block
    }
    fn read_device_features(&mut self) -> u64 {
        0
    }
    fn write_driver_features(&mut self, _driver_features: u64) {}
    fn max_queue_size(&mut self, _queue: u16) -> u32 {
        0
    }
    fn notify(&mut self, _queue: u16) {}
    fn get_status(&self) -> DeviceStatus {
        DeviceStatus::empty()
    }
    fn set_status(&mut self, _status: DeviceStatus) {}
    fn set_guest_page_size(&mut self, _guest_page_size: u32) {}
    fn requires_legacy_layout(&self) -> bool {
        false
    }
    fn queue_set(&mut self, _queue: u16, _size: u32, _descriptors: PhysAddr, _driver_area: PhysAddr, _device_area: PhysAddr) {}
    fn queue_unset(&mut self, _queue: u16) {}
    fn queue_used(&mut self, _queue: u16) -> bool {
        false
    }
    fn ack_interrupt(&mut self) -> InterruptStatus {
        InterruptStatus::empty()
    }
    fn read_config_generation(&self) -> u32 {
        0
    }
    fn read_config_space<T: FromBytes + IntoBytes>(&self, _offset: usize) -> virtio_drivers::Result<T> {
        Err(virtio_drivers::Error::ConfigSpaceMissing)
    }
    fn write_config_space<T: IntoBytes + Immutable>(&mut self, _offset: usize, _value: T) -> virtio_drivers::Result<()> {
        Err(virtio_drivers::Error::ConfigSpaceMissing)
    }
}

/// C06.L5 - queue sizes that are not a power of two do not compile.
///
/// ```compile_fail,E0080
/// use virtio_drivers::queue::VirtQueue;
/// use witness::{DummyHal, DummyTransport};
/// let mut t = DummyTransport;
/// let _ = VirtQueue::<DummyHal, 3>::new(&mut t, 0, false, false, false);
/// ```
///
/// Twin (a power of two compiles):
/// ```
/// use virtio_drivers::queue::VirtQueue;
/// use witness::{DummyHal, DummyTransport};
/// let mut t = DummyTransport;
/// let _ = VirtQueue::<DummyHal, 4>::new(&mut t, 0, false, false, false);
/// ```
pub struct C06L5NotPowerOfTwo;

/// C06.L5 - queue sizes above 65535 do not compile (65536 is a power of two, so only the range check rejects it).
///
/// ```compile_fail,E0080
/// use virtio_drivers::queue::VirtQueue;
/// use witness::{DummyHal, DummyTransport};
/// let mut t = DummyTransport;
/// let _ = VirtQueue::<DummyHal, 65536>::new(&mut t, 0, false, false, false);
/// ```
///
/// Twin (the largest admissible size compiles):
/// ```
/// use virtio_drivers::queue::VirtQueue;
/// use witness::{DummyHal, DummyTransport};
/// fn f(t: &mut DummyTransport) {
///     let _ = VirtQueue::<DummyHal, 32768>::new(t, 0, false, false, false);
/// }
/// ```
pub struct C06L5TooLarge;

/// C13.G4 - `read_config!` on a write-only configuration field does not type-check.
///
/// ```compile_fail,E0277
/// use virtio_drivers::config::{read_config, ReadOnly, WriteOnly};
/// use virtio_drivers::transport::Transport;
/// #[repr(C)]
/// struct Cfg { ro: ReadOnly<u32>, wo: WriteOnly<u32> }
/// fn f<T: Transport>(t: T) -> virtio_drivers::Result<u32> {
///     read_config!(t, Cfg, wo)
/// }
/// ```
///
/// Twin:
/// ```
/// use virtio_drivers::config::{read_config, ReadOnly, WriteOnly};
/// use virtio_drivers::transport::Transport;
/// #[repr(C)]
/// struct Cfg { ro: ReadOnly<u32>, wo: WriteOnly<u32> }
/// fn f<T: Transport>(t: T) -> virtio_drivers::Result<u32> {
///     read_config!(t, Cfg, ro)
/// }
/// ```
pub struct C13G4ReadWriteOnly;

/// C13.G4 - `write_config!` on a read-only configuration field does not type-check.
///
/// ```compile_fail,E0277
/// use virtio_drivers::config::{write_config, ReadOnly, WriteOnly};
/// use virtio_drivers::transport::Transport;
/// #[repr(C)]
/// struct Cfg { ro: ReadOnly<u32>, wo: WriteOnly<u32> }
/// fn f<T: Transport>(mut t: T) -> virtio_drivers::Result<()> {
///     write_config!(t, Cfg, ro, 1u32)
/// }
/// ```
///
/// Twin:
/// ```
/// use virtio_drivers::config::{write_config, ReadOnly, WriteOnly};
/// use virtio_drivers::transport::Transport;
/// #[repr(C)]
/// struct Cfg { ro: ReadOnly<u32>, wo: WriteOnly<u32> }
/// fn f<T: Transport>(mut t: T) -> virtio_drivers::Result<()> {
///     write_config!(t, Cfg, wo, 1u32)
/// }
/// ```
pub struct C13G4WriteReadOnly;

/// C10.M1 - the MMIO register block's fields are private: code outside the transport module cannot touch registers.
///
/// ```compile_fail,E0616
/// use virtio_drivers::transport::mmio::VirtIOHeader;
/// fn f(h: &VirtIOHeader) {
///     let _ = &h.queue_ready;
/// }
/// ```
///
/// Twin:
/// ```
/// use virtio_drivers::transport::mmio::VirtIOHeader;
/// fn f(h: &VirtIOHeader) {
///     let _ = &h;
/// }
/// ```
pub struct C10M1PrivateRegisters;

/// C11 - the PCI common configuration structure is not nameable outside the crate.
///
/// ```compile_fail,E0603
/// use virtio_drivers::transport::pci::CommonCfg;
/// ```
///
/// Twin:
/// ```
/// use virtio_drivers::transport::pci::PciTransport;
/// ```
pub struct C11PrivateCommonCfg;
