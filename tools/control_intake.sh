#!/bin/bash
# usage: control_intake.sh <dir with OUT/r*.diff> <ID>  : stores behaviour-preserving edits as quiet controls (all 20 checks)
D=$1; ID=$2
for f in $D/OUT/r*.diff; do
  k=$(basename $f .diff)
  [ -s $f ] || continue
  cp $f ${VERIF_HOME:-/verif}/controls/quiet/$ID-$k.diff
  python3 - "$D/OUT/$k.txt" "${VERIF_HOME:-/verif}/controls/quiet/$ID-$k.json" <<'PY'
import sys, json
try:
    what = open(sys.argv[1]).read().strip()
except Exception:
    what = ''
json.dump({'checks': ['C%02d' % i for i in range(1, 21)], 'what': what, 'origin': 'behaviour-preserving refactoring written by a sub-agent that saw only the source (57 tests pass with it)'}, open(sys.argv[2], 'w'), indent=1)
PY
done
ls ${VERIF_HOME:-/verif}/controls/quiet | wc -l
