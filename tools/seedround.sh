#!/bin/bash
# usage: seedround.sh <round dir, e.g. /tmp/wt10>
# Prepares a round of seeded-change generation: one scratch worktree of /repo per property under <round dir>/<id>, the property
# text plus the list of changes already explored (summaries of seeded/<id>*/meta.json) in <round dir>/<id>.property.txt, and the
# sub-agent prompt in <round dir>/PROMPT.txt.  Sub-agents get nothing from /verif but these texts.
RD=$1; VH=${VERIF_HOME:-/verif}
mkdir -p $RD
sed "s#@RD@#$RD#g" $VH/tools/seed_prompt.txt > $RD/PROMPT.txt
python3 - "$RD" "$VH" <<'E'
import json, sys, glob, os
rd, vh = sys.argv[1], sys.argv[2]
for l in open(vh + '/properties.jsonl'):
    p = json.loads(l)
    i = p['id']
    out = ['Property %s: %s' % (i, p['title']), '', p['statement'], '', 'Quantifier: ' + p['quantifier']['text'], '',
           'Anchors: ' + json.dumps(p['anchors']), '', 'Changes already explored (pick a different one, in a different function):']
    for m in sorted(glob.glob('%s/seeded/%s*/meta.json' % (vh, i))):
        try:
            mj = json.load(open(m))
            out.append('- %s (%s)' % (mj.get('summary', '?'), ', '.join(mj.get('functions', [])[:3]) if isinstance(mj.get('functions'), list) else ''))
        except Exception as e:
            pass
    open('%s/%s.property.txt' % (rd, i), 'w').write('\n'.join(out) + '\n')
E
for i in $(seq -w 1 20); do git -C /repo worktree add -q --detach $RD/C$i HEAD; done
ls $RD | head -50
