#!/usr/bin/env python3
"""Regenerates /verif/MANIFEST.json from the rule modules present in vqlint/rules (claims) and
properties.jsonl (everything else is listed under not_applicable with the reason)."""
import importlib, json, os, sys
HERE = os.path.dirname(os.path.dirname(os.path.abspath(__file__)))
sys.path.insert(0, HERE)
props = [json.loads(l) for l in open(os.path.join(HERE, 'properties.jsonl'))]
checks, na = [], []
for p in props:
    pid = p['id']
    path = os.path.join(HERE, 'vqlint', 'rules', pid + '.py')
    if os.path.exists(path):
        m = importlib.import_module('vqlint.rules.' + pid)
        checks.append({
            'property_id': pid,
            'quick_cmd': './check %s --tier quick' % pid,
            'thorough_cmd': './check %s --tier thorough' % pid,
            'evidence_file': '/verif/evidence/%s.json' % pid,
            'replay_cmd_template': './check %s --explain {path}' % pid,
            'engine': 'vqfacts+vqlint',
            'level_claimed': {
                'category': 'other',
                'text': getattr(m, 'LEVEL_TEXT', 'Static discharge of the listed structural obligations over the polymorphic, '
                        'type-checked MIR of the crate; the decided clauses hold for every instantiation, input and history '
                        'because they do not depend on them. Decided clauses (not the whole behaviour): ' + (m.__doc__ or '').strip().split('\n\n', 1)[-1][:1500]),
                'design_ref': 'DESIGN.md section 5, ' + pid,
            },
            'level_note': getattr(m, 'LEVEL_NOTE', 'Trusted: rustc nightly front end/MIR/layouts (assumed to agree with the stable compiler on this '
                          'source), Hal/ConfigurationAccess contracts, safe-mmio accessors, transcription of the spec tables; '
                          'unwind paths and #[cfg(test)] code are not analysed. ' + '; '.join(getattr(m, 'ASSUMPTIONS', []))),
            'technique': getattr(m, 'TECHNIQUE', 'static analysis: custom rustc MIR fact extractor + repo-specific dataflow/typestate/table rules'),
        })
    else:
        na.append({'property_id': pid, 'reason': 'static rule set not yet implemented in this revision (see DESIGN.md Appendix C); no other technique is substituted'})
man = {
    'version': 1,
    'setup_cmd': 'cd /verif/vqfacts && cargo build --release --offline',
    'hooks': {'guard': 'virtio_drivers_verif', 'enable': 'none needed: static analysis observes the unmodified crate (cargo +nightly check with RUSTC_WORKSPACE_WRAPPER=vqfacts)',
              'baseline_off_cmd': 'cd /repo && cargo test --workspace --no-fail-fast --offline', 'source_commits': [], 'add_only': True},
    'engines': [
        {'name': 'vqfacts', 'path': 'vqfacts/', 'serves_properties': [c['property_id'] for c in checks], 'kind_free_text': 'rustc_private driver: MIR with resolved callees, ADT layouts, evaluated constants -> JSON facts'},
        {'name': 'vqlint', 'path': 'vqlint/', 'serves_properties': [c['property_id'] for c in checks], 'kind_free_text': 'Python rule engine: inlined super-graph, symbolic value recovery, path queries, typestate, spec tables'},
    ],
    'checks': checks,
    'notes': 'All checks are static analysis (no code of /repo is executed). Exit 2 + UNDECIDED means the tree does not build or an anchor was lost. See DESIGN.md.',
    'not_applicable': na,
}
json.dump(man, open(os.path.join(HERE, 'MANIFEST.json'), 'w'), indent=1)
print('claimed', [c['property_id'] for c in checks])
