#!/bin/bash
# usage: controltest.sh [name-glob] [jobs] : applies every behaviour-preserving edit in controls/quiet/*.diff to a scratch
# worktree of /repo and requires the named checks to stay silent (exit 0, no VIOLATION / UNDECIDED).
PAT=${1:-*}; J=${2:-4}
mkdir -p /tmp/st
one() {
  d=$1; n=$(basename $d .diff)
  checks=$(python3 -c "import json;print(' '.join(json.load(open('${VERIF_HOME:-/verif}/controls/quiet/$n.json'))['checks']))")
  [ -n "${CHECKS:-}" ] && checks="$CHECKS"
  WT=/tmp/st/ctl.$n.$$
  git -C /repo worktree add -q --detach $WT HEAD || exit 9
  if ! git -C $WT apply $d 2>/dev/null; then echo "CONTROL $n: patch does not apply (skipped)"; git -C /repo worktree remove --force $WT; return; fi
  bad=""
  for c in $checks; do
    out=$(cd ${VERIF_HOME:-/verif} && VERIF_REPO=$WT VERIF_EVIDENCE_DIR=/tmp/st/ev.ctl.$n.$$ VERIF_FACTS_KEEP=24 ./check $c --tier ${TIER:-quick} 2>&1); r=$?
    if [ $r -ne 0 ]; then bad="$bad $c"; echo "CONTROL $n: check $c NOT silent (exit $r)"; echo "$out" | grep -E "VIOLATION|UNDECIDED|key=|^  [a-z]" | head -4; fi
  done
  [ -z "$bad" ] && echo "CONTROL $n: silent (${checks// /,})" | cut -c1-60
  git -C /repo worktree remove --force $WT; rm -rf /tmp/st/ev.ctl.$n.$$
}
export -f one
ls ${VERIF_HOME:-/verif}/controls/quiet/$PAT.diff | xargs -P $J -I{} bash -c 'one {}'
