#!/bin/bash
# usage: controltest.sh  : applies every behaviour-preserving edit in controls/quiet/*.diff to a scratch worktree of
# /repo and requires the named checks to stay silent (exit 0, no VIOLATION / UNDECIDED).
rc=0
mkdir -p /tmp/st
for d in /verif/controls/quiet/*.diff; do
  n=$(basename $d .diff)
  checks=$(python3 -c "import json;print(' '.join(json.load(open('/verif/controls/quiet/$n.json'))['checks']))")
  WT=/tmp/st/ctl.$n.$$
  git -C /repo worktree add -q --detach $WT HEAD || exit 9
  if ! git -C $WT apply $d; then echo "CONTROL $n: patch does not apply (skipped)"; git -C /repo worktree remove --force $WT; continue; fi
  for c in $checks; do
    out=$(cd /verif && VERIF_REPO=$WT VERIF_EVIDENCE_DIR=/tmp/st/ev.ctl.$$ ./check $c --tier ${TIER:-quick} 2>&1); r=$?
    if [ $r -ne 0 ]; then echo "CONTROL $n: check $c NOT silent (exit $r)"; echo "$out" | grep -E "VIOLATION|UNDECIDED|key=" | head -5; rc=1; else echo "CONTROL $n: $c silent"; fi
  done
  git -C /repo worktree remove --force $WT
done
rm -rf /tmp/st/ev.ctl.$$
exit $rc
