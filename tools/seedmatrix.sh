#!/bin/bash
# usage: seedmatrix.sh [jobs]  : runs every seeded change against its own property's check (quick tier), prints one
# line per seed and rewrites seeded/MATRIX.md (seed, property, what was changed, which rule instances reported it)
J=${1:-6}
OUT=$(mktemp -d)
cd /verif/seeded && ls -d */ | tr -d / | xargs -P $J -I{} sh -c "LINES_MAX=40 /verif/tools/seedtest.sh {} > $OUT/{}.log 2>&1; tail -1 $OUT/{}.log"
python3 - "$OUT" <<'PY'
import sys, os, json, re, glob
out = sys.argv[1]
rows = []
for d in sorted(glob.glob('/verif/seeded/C*')):
    sid = os.path.basename(d)
    try:
        meta = json.load(open(os.path.join(d, 'meta.json')))
    except Exception:
        meta = {}
    log = open(os.path.join(out, sid + '.log')).read() if os.path.exists(os.path.join(out, sid + '.log')) else ''
    rules = sorted(set(re.findall(r'rule=(C\d+\.\w+)', log)))
    keys = re.findall(r'key=(\S.*)', log)
    verdict = 'DETECTED' if 'DETECTED' in log else 'MISSED'
    rows.append((sid, meta.get('property', sid[:3]), (meta.get('summary') or '').replace('|', '/').replace('\n', ' ')[:260], verdict, ', '.join(rules), '; '.join(k.strip()[:110] for k in keys[:3])))
with open('/verif/seeded/MATRIX.md', 'w') as f:
    f.write('# Seeded changes vs. the property\'s own check (quick tier)\n\nRegenerate with `tools/seedmatrix.sh`. Each change compiles, passes the 57 repository tests, and fails its demo test.\n\n')
    f.write('| seed | property | change | verdict | rules reporting | violation keys |\n|---|---|---|---|---|---|\n')
    for r in rows:
        f.write('| %s | %s | %s | %s | %s | %s |\n' % r)
print('%d seeds, %d detected' % (len(rows), sum(1 for r in rows if r[3] == 'DETECTED')))
PY
rm -rf $OUT
