#!/bin/bash
# usage: seedmatrix.sh [jobs]  : runs every seeded change against its own property's check; prints one line per seed
J=${1:-6}
cd /verif/seeded && ls -d */ | tr -d / | xargs -P $J -I{} sh -c '/verif/tools/seedtest.sh {} 2>&1 | tail -1'
