#!/usr/bin/env python3
"""Debug helper: load the most recently written def facts file and run a snippet with F bound.
usage: tools/dbg.py 'python code'   (VERIF_REPO=<tree>, after ./check Cxx on that tree)"""
import glob, os, sys
HERE = os.path.dirname(os.path.dirname(os.path.abspath(__file__)))
sys.path.insert(0, HERE)
from vqlint.core import *
from vqlint.paths import *
from vqlint.rules.common import *
from importlib.machinery import SourceFileLoader
_chk = SourceFileLoader('vqcheck', os.path.join(HERE, 'check')).load_module()
_p = os.path.join(HERE, '.work/facts/%s-%s.json' % (os.environ.get('CFG', 'def'), _chk.repo_hash()))
if not os.path.exists(_p):
    _p = max(glob.glob(os.path.join(HERE, '.work/facts/%s-*.json' % os.environ.get('CFG', 'def'))), key=os.path.getmtime)
F = Facts(_p)
exec(sys.argv[1])
