#!/bin/bash
# runs every claimed check (quick tier by default) in parallel and prints one line each
cd /verif
ids=$(python3 -c "import json;print(' '.join(c['property_id'] for c in json.load(open('MANIFEST.json'))['checks']))")
# warm the fact cache once
./check ${ids%% *} --facts-only >/dev/null 2>&1
for i in $ids; do ( out=$(./check $i --tier ${TIER:-quick} 2>&1); echo "$i exit=$? $(echo "$out" | tail -1)" ) & done; wait
