#!/bin/bash
# usage: seedtest.sh <seed-id> [check ids...]   (default: the seed's own property)
# Applies ${VERIF_HOME:-/verif}/seeded/<seed-id>/patch.diff to a scratch worktree of /repo (never /repo itself), runs the
# checks against it with evidence redirected, removes the worktree.
set -u
SID=$1; shift
PROP=$(python3 -c "import json;print(json.load(open('${VERIF_HOME:-/verif}/seeded/$SID/meta.json'))['property'])" 2>/dev/null || echo ${SID%%-*})
CHECKS=${@:-$PROP}
WT=/tmp/st/$SID.$$
mkdir -p /tmp/st
git -C /repo worktree add -q --detach $WT HEAD || exit 9
P=${VERIF_HOME:-/verif}/seeded/$SID/patch.diff; [ -f ${VERIF_HOME:-/verif}/seeded/$SID/patch.head.diff ] && P=${VERIF_HOME:-/verif}/seeded/$SID/patch.head.diff
git -C $WT apply $P || { echo "patch does not apply"; git -C /repo worktree remove --force $WT; exit 9; }
rc=0
for c in $CHECKS; do
  out=$(cd ${VERIF_HOME:-/verif} && VERIF_REPO=$WT VERIF_EVIDENCE_DIR=/tmp/st/ev.$SID.$$ ./check $c --tier ${TIER:-quick} 2>&1); r=$?
  echo "--- seed $SID check $c exit=$r"
  echo "$out" | grep -E "VIOLATION|UNDECIDED|rule=|key=|^  [a-z]|KNOWN|obligations" | head -${LINES_MAX:-12}
  [ $r -eq 1 ] && rc=1
done
git -C /repo worktree remove --force $WT
rm -rf /tmp/st/ev.$SID.$$
[ $rc -eq 1 ] && echo "SEED $SID: DETECTED" || echo "SEED $SID: MISSED"
