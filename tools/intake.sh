#!/bin/bash
# usage: intake.sh <round dir> <id> <suffix>  : copies a sub-agent seed into /verif/seeded/<id><suffix>, confirms it and tests own check
RD=$1; ID=$2; SUF=$3
D=/verif/seeded/$ID$SUF
[ -f $RD/$ID/SEED/patch.diff ] || { echo "no seed for $ID"; exit 1; }
mkdir -p $D; cp $RD/$ID/SEED/patch.diff $RD/$ID/SEED/demo.diff $RD/$ID/SEED/meta.json $D/ 2>/dev/null
/verif/tools/confirm_seed.sh $RD/$ID $D > $D/confirm.log 2>&1; tail -1 $D/confirm.log
/verif/tools/seedtest.sh $ID$SUF 2>&1 | tail -4
