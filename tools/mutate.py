#!/usr/bin/env python3
"""Development tool (not a registered check): generate small source mutants of /repo, keep those that still compile and
pass the repository's unit tests, and run the static checks against each survivor of the tests.

usage: mutate.py gen  <out.jsonl> [file ...]        enumerate candidate mutants (file, line, col, old, new, op)
       mutate.py run  <in.jsonl> <results.jsonl> [workers]   evaluate them (scratch worktrees under /tmp/mut, removed afterwards)
Nothing is ever written to /repo; worktrees are created with `git worktree add --detach` and removed."""
import sys, os, re, json, subprocess, random, shutil, hashlib
from concurrent.futures import ThreadPoolExecutor

REPO = '/repo'
SKIP_FILES = ('src/hal/fake.rs', 'src/transport/fake.rs', 'src/device/sound/fake.rs')

OPS = [
    ('rel', r'(?<![<>=!\-])<=(?!=)', '<'), ('rel', r'(?<![<>=!\-&|])<(?![<=])(?=\s)', '<='),
    ('rel', r'(?<![<>=!\-])>=(?!=)', '>'), ('rel', r'(?<=\s)>(?![>=])(?=\s)', '>='),
    ('eq', r'==', '!='), ('eq', r'!=', '=='),
    ('bool', r'&&', '||'), ('bool', r'\|\|', '&&'),
    ('arith', r'(?<=\s)\+(?=\s)(?!=)', '-'), ('arith', r'(?<=\s)-(?=\s)(?![=>])', '+'),
    ('const', r'(?<![\w.])(\d+)(?![\w.\]])', None),
    ('wrap', r'\.wrapping_add\(', '.wrapping_sub('), ('wrap', r'\.wrapping_sub\(', '.wrapping_add('),
    ('lit', r'\btrue\b', 'false'), ('lit', r'\bfalse\b', 'true'),
    ('neg', r'(?<![\w!])!(?=[a-z_(])', ''),
    ('shift', r'<<', '>>'), ('shift', r'>>', '<<'),
    ('bit', r'(?<=\s)\|(?=\s)', '&'), ('bit', r'(?<=\s)&(?=\s)', '|'),
    ('minmax', r'\bmin\(', 'max('), ('minmax', r'\bmax\(', 'min('),
    ('is', r'\.is_some\(\)', '.is_none()'), ('is', r'\.is_none\(\)', '.is_some()'),
    ('dir', r'DriverToDevice', 'DeviceToDriver'), ('dir', r'DeviceToDriver', 'DriverToDevice'),
    ('io', r'\binputs\b', 'outputs'),
    ('ord', r'Ordering::Release', 'Ordering::Relaxed'), ('ord', r'Ordering::Acquire', 'Ordering::Relaxed'),
]


def nontest_lines(path):
    """(index, line) of lines that are not inside #[cfg(test)] items, not comments, not attributes."""
    src = open(path).read().split('\n')
    out = []
    depth_test = None
    depth = 0
    pending = False
    for i, l in enumerate(src):
        st = l.strip()
        if st.startswith('#[cfg(test)]'):
            pending = True
        if depth_test is None and pending and '{' in l and not st.startswith('#['):
            depth_test = depth
            pending = False
        opened = l.count('{') - l.count('}')
        in_test = depth_test is not None
        depth += opened
        if depth_test is not None and depth <= depth_test and '}' in l:
            depth_test = None
            continue
        if in_test or pending:
            continue
        if st.startswith('//') or st.startswith('#[') or st.startswith('#![') or st.startswith('use ') or st.startswith('pub use ') or not st:
            continue
        out.append((i, l))
    return src, out


def gen(files):
    muts = []
    for f in files:
        rel = os.path.relpath(f, REPO)
        if rel in SKIP_FILES or '/tests' in rel or rel.startswith('examples'):
            continue
        src, lines = nontest_lines(f)
        for i, l in lines:
            code = l.split('//')[0]
            if 'assert' in code or 'debug!' in code or 'warn!' in code or 'info!' in code or 'error!' in code or 'trace!' in code or 'panic!' in code:
                continue
            for op, pat, rep in OPS:
                for m in re.finditer(pat, code):
                    if op == 'const':
                        v = int(m.group(1))
                        if v > 70000:
                            continue
                        news = [str(v + 1)] + ([str(v - 1)] if v > 0 else [])
                    else:
                        news = [rep]
                    for new in news:
                        nl = code[:m.start()] + new + code[m.end():] + l[len(code):]
                        if nl != l:
                            muts.append({'file': rel, 'line': i + 1, 'col': m.start(), 'op': op, 'old': l.strip(), 'new': nl.strip(), '_new_full': nl})
            # statement deletion: a standalone call statement
            st = code.strip()
            if re.match(r'^(self\.|fence\(|H::|transport\.|\w+\.\w+\()[^=]*;\s*$', st) and not st.startswith('return') and '?' not in st:
                muts.append({'file': rel, 'line': i + 1, 'col': 0, 'op': 'del', 'old': st, 'new': '', '_new_full': ''})
    for k, m in enumerate(muts):
        m['id'] = hashlib.sha1(('%s:%d:%d:%s:%s' % (m['file'], m['line'], m['col'], m['op'], m['new'])).encode()).hexdigest()[:10]
    return muts


def sh(cmd, cwd=None, timeout=600, env=None):
    e = dict(os.environ)
    e.update(env or {})
    e['CARGO_NET_OFFLINE'] = 'true'
    # own process group, killed as a whole on timeout: a mutant can make a test spin forever
    import signal
    pr = subprocess.Popen(cmd, cwd=cwd, shell=True, stdout=subprocess.PIPE, stderr=subprocess.STDOUT, text=True, env=e, start_new_session=True)
    try:
        out, _ = pr.communicate(timeout=timeout)
        return pr.returncode, out
    except subprocess.TimeoutExpired:
        try:
            os.killpg(pr.pid, signal.SIGKILL)
        except OSError:
            pass
        pr.wait()
        return 124, 'timeout'


def evaluate(wt, m, props):
    path = os.path.join(wt, m['file'])
    orig = open(path).read()
    lines = orig.split('\n')
    lines[m['line'] - 1] = m['_new_full']
    open(path, 'w').write('\n'.join(lines))
    res = {k: v for k, v in m.items() if not k.startswith('_')}
    try:
        rc, out = sh('cargo build --offline --lib 2>&1 | tail -3', cwd=wt)
        if 'error' in out and ('could not compile' in out or 'aborting' in out):
            res['verdict'] = 'nocompile'
            return res
        rc, out = sh('cargo test --offline --lib -- --skip embedded_io::tests::read_exact 2>&1 | tail -5', cwd=wt, timeout=120)  # that test is timing-flaky under load
        if 'test result: ok' not in out:
            res['verdict'] = 'killed-by-tests'
            return res
        det = []
        und = []
        evd = '/tmp/mut/ev.%s' % m['id']
        for p in props:
            rc, out = sh('./check %s --tier quick' % p, cwd='/verif', env={'VERIF_REPO': wt, 'VERIF_EVIDENCE_DIR': evd, 'VERIF_FACTS_KEEP': '24'}, timeout=600)
            if rc == 1:
                keys = re.findall(r'key=(\S.*)', out)
                det.append((p, keys[:2]))
            elif rc != 0:
                und.append((p, out.strip().split('\n')[-1][:200]))
        shutil.rmtree(evd, ignore_errors=True)
        res['detected_by'] = det
        res['undecided'] = und
        res['verdict'] = 'detected' if det else ('undecided' if und else 'survived')
        return res
    finally:
        open(path, 'w').write(orig)


def run(inp, outp, workers):
    muts = [json.loads(l) for l in open(inp)]
    done = set()
    if os.path.exists(outp):
        done = set(json.loads(l)['id'] for l in open(outp))
    muts = [m for m in muts if m['id'] not in done]
    props = ['C%02d' % i for i in range(1, 21)]
    os.makedirs('/tmp/mut', exist_ok=True)
    wts = []
    for w in range(workers):
        wt = '/tmp/mut/w%d' % w
        if not os.path.exists(wt):
            subprocess.run(['git', '-C', REPO, 'worktree', 'add', '-q', '--detach', wt, 'HEAD'], check=True)
        wts.append(wt)
    import queue, threading
    q = queue.Queue()
    for m in muts:
        q.put(m)
    lock = threading.Lock()

    def work(wt):
        while True:
            try:
                m = q.get_nowait()
            except queue.Empty:
                return
            try:
                r = evaluate(wt, m, props)
            except Exception as e:
                r = {k: v for k, v in m.items() if not k.startswith('_')}
                r['verdict'] = 'error'
                r['error'] = str(e)[:200]
            with lock:
                with open(outp, 'a') as f:
                    f.write(json.dumps(r) + '\n')
    ts = [threading.Thread(target=work, args=(wt,)) for wt in wts]
    for t in ts:
        t.start()
    for t in ts:
        t.join()
    for wt in wts:
        subprocess.run(['git', '-C', REPO, 'worktree', 'remove', '--force', wt])
    shutil.rmtree('/tmp/mut', ignore_errors=True)


if __name__ == '__main__':
    if sys.argv[1] == 'gen':
        files = sys.argv[3:] or [os.path.join(dp, f) for dp, _, fs in os.walk(os.path.join(REPO, 'src')) for f in fs if f.endswith('.rs')]
        muts = gen(sorted(files))
        random.Random(1).shuffle(muts)
        with open(sys.argv[2], 'w') as f:
            for m in muts:
                f.write(json.dumps(m) + '\n')
        print(len(muts), 'mutants')
    elif sys.argv[1] == 'run':
        run(sys.argv[2], sys.argv[3], int(sys.argv[4]) if len(sys.argv) > 4 else 6)
