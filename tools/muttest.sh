#!/bin/bash
# usage: muttest.sh <file> <python-regex-old> <new> <checks...>  : apply a one-off regex edit in a scratch worktree and run checks
set -u
F=$1; OLD=$2; NEW=$3; shift 3
WT=/tmp/st/mut.$$
git -C /repo worktree add -q --detach $WT HEAD || exit 9
python3 - "$WT/$F" "$OLD" "$NEW" <<'PY'
import re,sys
p,old,new=sys.argv[1:4]
s=open(p).read()
s2,n=re.subn(old,new,s,count=1,flags=re.S)
if n!=1: print("PATTERN NOT FOUND"); sys.exit(3)
open(p,'w').write(s2)
PY
[ $? -eq 0 ] || { git -C /repo worktree remove --force $WT; exit 3; }
git -C $WT diff | grep -E '^[-+][^-+]' | head -8
for c in "$@"; do
  out=$(cd ${VERIF_HOME:-/verif} && VERIF_REPO=$WT VERIF_EVIDENCE_DIR=/tmp/st/ev.mut.$$ ./check $c 2>&1); r=$?
  echo "--- check $c exit=$r"; echo "$out" | grep -E "VIOLATION|UNDECIDED|key=|^  [a-zA-Z]|obligations" | grep -v "rule=" | head -8
done
git -C /repo worktree remove --force $WT; rm -rf /tmp/st/ev.mut.$$
