#!/bin/bash
# usage: confirm_seed.sh <worktree> <seed_dir> ; verifies a seeded change in a scratch worktree (never /repo)
# 1. orig+demo: demo passes  2. patched+demo: demo fails  3. patched: full suite passes, both feature configs build
set -u
WT=$1; SD=$2
cd "$WT" || exit 9
git checkout -q -- . ; git clean -fdq -e SEED -e target
T=$(python3 -c "import json;print(json.load(open('$SD/meta.json'))['demo_test'])")
export CARGO_NET_OFFLINE=true
res() { echo "$1" ; }
git apply "$SD/demo.diff" || { echo "RESULT demo.diff does not apply"; exit 1; }
cargo test --offline "$T" > /tmp/cs.$$.1 2>&1; r1=$?
n1=$(grep -E "^test result: ok. [1-9]" /tmp/cs.$$.1 | head -1)
git apply "$SD/patch.diff" || { echo "RESULT patch.diff does not apply on demo tree"; exit 1; }
cargo test --offline "$T" > /tmp/cs.$$.2 2>&1; r2=$?
git checkout -q -- . ; git clean -fdq -e SEED -e target
git apply "$SD/patch.diff" || { echo "RESULT patch.diff does not apply"; exit 1; }
cargo test --workspace --no-fail-fast --offline > /tmp/cs.$$.3 2>&1; r3=$?
# the suite contains one timing-dependent test (console embedded_io read_exact) that fails on a loaded machine: retry, and
# report which tests failed
for try in 1 2; do
  [ $r3 -eq 0 ] && break
  echo "suite failed (attempt $try): $(grep -E '^test .* FAILED' /tmp/cs.$$.3 | tr '\n' ' ')"
  cargo test --workspace --no-fail-fast --offline > /tmp/cs.$$.3 2>&1; r3=$?
done
n3=$(grep -E "^test result:" /tmp/cs.$$.3 | head -1)
cargo build --offline --no-default-features > /tmp/cs.$$.4 2>&1; r4=$?
git checkout -q -- . ; git clean -fdq -e SEED -e target
echo "RESULT demo_on_orig=$r1 [$n1] demo_on_patched=$r2 suite_patched=$r3 [$n3] build_noalloc=$r4"
rm -f /tmp/cs.$$.*
if [ $r1 -eq 0 ] && [ -n "$n1" ] && [ $r2 -ne 0 ] && [ $r3 -eq 0 ] && [ $r4 -eq 0 ]; then echo CONFIRMED; exit 0; else echo NOT-CONFIRMED; exit 1; fi
