#!/bin/bash
# Runs the compile-fail witnesses against /repo's current tree (thorough tier). Prints PASS/FAIL per witness.
cd /verif/witness || exit 2
cp ${VERIF_REPO:-/repo}/Cargo.lock . 2>/dev/null
if [ -n "${VERIF_REPO:-}" ] && [ "$VERIF_REPO" != "/repo" ]; then
  sed -i "s#path = \"[^\"]*\"#path = \"$VERIF_REPO\"#" Cargo.toml
fi
out=$(CARGO_TARGET_DIR=/verif/.work/tgt-witness cargo +nightly test --doc --offline 2>&1); rc=$?
if [ -n "${VERIF_REPO:-}" ] && [ "$VERIF_REPO" != "/repo" ]; then
  sed -i "s#path = \"[^\"]*\"#path = \"/repo\"#" Cargo.toml
fi
echo "$out" | grep -E "^test src/lib.rs|^test result" 
exit $rc
