//! Minimal JSON value + writer (no dependencies).

pub enum J {
    Null,
    B(bool),
    N(i128),
    S(String),
    A(Vec<J>),
    O(Vec<(String, J)>),
}

fn esc(s: &str, out: &mut String) {
    out.push('"');
    for c in s.chars() {
        match c {
            '"' => out.push_str("\\\""),
            '\\' => out.push_str("\\\\"),
            '\n' => out.push_str("\\n"),
            '\r' => out.push_str("\\r"),
            '\t' => out.push_str("\\t"),
            c if (c as u32) < 0x20 => out.push_str(&format!("\\u{:04x}", c as u32)),
            c => out.push(c),
        }
    }
    out.push('"');
}

impl J {
    pub fn write(&self, out: &mut String) {
        match self {
            J::Null => out.push_str("null"),
            J::B(b) => out.push_str(if *b { "true" } else { "false" }),
            J::N(n) => out.push_str(&n.to_string()),
            J::S(s) => esc(s, out),
            J::A(v) => {
                out.push('[');
                for (i, x) in v.iter().enumerate() {
                    if i > 0 {
                        out.push(',');
                    }
                    x.write(out);
                }
                out.push(']');
            }
            J::O(v) => {
                out.push('{');
                for (i, (k, x)) in v.iter().enumerate() {
                    if i > 0 {
                        out.push(',');
                    }
                    esc(k, out);
                    out.push(':');
                    x.write(out);
                }
                out.push('}');
            }
        }
    }
}
