//! vqfacts: rustc_private fact extractor for the virtio-drivers static checks.
//!
//! Injected with RUSTC_WORKSPACE_WRAPPER under `cargo +nightly check`; for the crate named by
//! VQFACTS_CRATE (default `virtio_drivers`) it writes one JSON fact file to VQFACTS_OUT containing
//! items, MIR bodies with resolved callees, ADTs with layouts, evaluated constants, impls and traits.
//! No dependencies; JSON is written by hand.
#![feature(rustc_private)]
#![allow(clippy::all)]

extern crate rustc_abi;
extern crate rustc_driver;
extern crate rustc_hir;
extern crate rustc_interface;
extern crate rustc_middle;
extern crate rustc_span;

mod json;
use json::J;

use rustc_driver::{Callbacks, Compilation};
use rustc_hir::def::DefKind;
use rustc_hir::def_id::{DefId, LocalDefId};
use rustc_interface::interface::Compiler;
use rustc_middle::mir::{
    self, AggregateKind, BasicBlock, Body, ConstOperand, NonDivergingIntrinsic, Operand, Place,
    ProjectionElem, Rvalue, StatementKind, TerminatorKind, UnwindAction,
};
use rustc_middle::ty::print::with_no_trimmed_paths;
use rustc_middle::ty::{self, GenericArg, Ty, TyCtxt};
use rustc_span::Span;
use std::collections::BTreeMap;

struct Cb {
    out: Option<String>,
}

impl Callbacks for Cb {
    fn after_analysis<'tcx>(&mut self, _c: &Compiler, tcx: TyCtxt<'tcx>) -> Compilation {
        if let Some(out) = &self.out {
            let ex = Extractor { tcx };
            let j = ex.run();
            let mut s = String::with_capacity(64 << 20);
            j.write(&mut s);
            let tmp = format!("{}.tmp.{}", out, std::process::id());
            std::fs::write(&tmp, s).expect("write facts");
            std::fs::rename(&tmp, out).expect("rename facts");
        }
        Compilation::Continue
    }
}

fn main() {
    let args: Vec<String> = std::env::args().skip(1).collect();
    let want = std::env::var("VQFACTS_CRATE").unwrap_or_else(|_| "virtio_drivers".to_string());
    let is_target = args.windows(2).any(|w| w[0] == "--crate-name" && w[1] == want)
        && !args.iter().any(|a| a.starts_with("--print") || a == "-vV");
    let out = if is_target { std::env::var("VQFACTS_OUT").ok() } else { None };
    let mut cb = Cb { out };
    rustc_driver::run_compiler(&args, &mut cb);
}

struct Extractor<'tcx> {
    tcx: TyCtxt<'tcx>,
}

fn s(x: impl Into<String>) -> J {
    J::S(x.into())
}
fn n(x: impl TryInto<i128>) -> J {
    J::N(x.try_into().ok().unwrap_or(-1))
}

impl<'tcx> Extractor<'tcx> {
    fn path(&self, did: DefId) -> String {
        let s = with_no_trimmed_paths!(self.tcx.def_path_str(did));
        // items inside anonymous `const _: () = { .. }` blocks (bitflags!, derives) can share a printed path:
        // disambiguate with the verbose def path
        if s.contains("::_::") || s.ends_with("::_") {
            format!("{}@{}", s, self.tcx.def_path(did).to_string_no_crate_verbose())
        } else {
            s
        }
    }
    fn ty_s(&self, t: Ty<'tcx>) -> String {
        with_no_trimmed_paths!(t.to_string())
    }
    fn span_s(&self, sp: Span) -> String {
        // outermost call site in case of macro expansion
        let sp = sp.source_callsite();
        self.tcx.sess.source_map().span_to_diagnostic_string(sp)
    }
    fn args_j(&self, args: ty::GenericArgsRef<'tcx>) -> J {
        J::A(args.iter().map(|a| s(with_no_trimmed_paths!(a.to_string()))).collect())
    }

    fn run(&self) -> J {
        let tcx = self.tcx;
        let mut bodies: BTreeMap<String, J> = BTreeMap::new();
        let mut n_bodies = 0i128;
        for &did in tcx.mir_keys(()).iter() {
            let kind = tcx.def_kind(did);
            if !matches!(kind, DefKind::Fn | DefKind::AssocFn | DefKind::Closure) {
                continue;
            }
            // skip const fn bodies only usable at compile time? no: keep all.
            let id = self.path(did.to_def_id());
            let b = self.body_j(did, kind);
            n_bodies += 1;
            let mut key = id.clone();
            let mut k = 1;
            while bodies.contains_key(&key) {
                k += 1;
                key = format!("{}#{}", id, k);
            }
            bodies.insert(key, b);
        }
        let mut adts: BTreeMap<String, J> = BTreeMap::new();
        let mut consts: BTreeMap<String, J> = BTreeMap::new();
        let mut impls: Vec<J> = vec![];
        let mut traits: BTreeMap<String, J> = BTreeMap::new();
        for did in tcx.hir_crate_items(()).definitions() {
            let kind = tcx.def_kind(did);
            match kind {
                DefKind::Struct | DefKind::Enum | DefKind::Union => {
                    adts.insert(self.path(did.to_def_id()), self.adt_j(did));
                }
                DefKind::Const { .. } | DefKind::AssocConst { .. } => {
                    if let Some(j) = self.const_item_j(did) {
                        consts.insert(self.path(did.to_def_id()), j);
                    }
                }
                DefKind::Impl { .. } => impls.push(self.impl_j(did)),
                DefKind::Trait => {
                    traits.insert(self.path(did.to_def_id()), self.trait_j(did));
                }
                _ => {}
            }
        }
        J::O(vec![
            ("crate".into(), s(tcx.crate_name(rustc_hir::def_id::LOCAL_CRATE).to_string())),
            ("n_bodies".into(), J::N(n_bodies)),
            ("bodies".into(), J::O(bodies.into_iter().collect())),
            ("adts".into(), J::O(adts.into_iter().collect())),
            ("consts".into(), J::O(consts.into_iter().collect())),
            ("impls".into(), J::A(impls)),
            ("traits".into(), J::O(traits.into_iter().collect())),
        ])
    }

    // ---------------------------------------------------------------- items

    fn impl_info(&self, def_id: DefId) -> Vec<(String, J)> {
        let tcx = self.tcx;
        let mut v = vec![];
        let root = tcx.typeck_root_def_id(def_id);
        if let Some(parent) = tcx.opt_parent(root) {
            if let DefKind::Impl { of_trait } = tcx.def_kind(parent) {
                let self_ty = tcx.type_of(parent).instantiate_identity().skip_norm_wip();
                v.push(("impl_self".into(), s(self.ty_s(self_ty))));
                if let ty::Adt(ad, _) = self_ty.kind() {
                    v.push(("impl_adt".into(), s(self.path(ad.did()))));
                }
                if of_trait {
                    let tr = tcx.impl_trait_ref(parent).instantiate_identity().skip_norm_wip();
                    v.push(("impl_trait".into(), s(self.path(tr.def_id))));
                    v.push(("impl_trait_full".into(), s(with_no_trimmed_paths!(tr.to_string()))));
                }
                v.push(("derived".into(), J::B(tcx.is_automatically_derived(parent))));
            } else if let DefKind::Trait = tcx.def_kind(parent) {
                v.push(("in_trait".into(), s(self.path(parent))));
            }
        }
        v
    }

    fn body_j(&self, did: LocalDefId, kind: DefKind) -> J {
        let tcx = self.tcx;
        let def_id = did.to_def_id();
        let body: &Body<'tcx> = tcx.optimized_mir(def_id);
        let env = ty::TypingEnv::post_analysis(tcx, def_id);
        let mut o: Vec<(String, J)> = vec![];
        o.push(("kind".into(), s(format!("{:?}", kind))));
        o.push(("span".into(), s(self.span_s(tcx.def_span(def_id)))));
        o.push(("name".into(), s(tcx.item_name(tcx.typeck_root_def_id(def_id)).to_string())));
        o.push(("root".into(), s(self.path(tcx.typeck_root_def_id(def_id)))));
        o.push(("from_expansion".into(), J::B(tcx.def_span(def_id).from_expansion())));
        o.extend(self.impl_info(def_id));
        if matches!(kind, DefKind::Fn | DefKind::AssocFn) {
            o.push(("pub".into(), J::B(tcx.visibility(def_id).is_public())));
            o.push(("reachable".into(), J::B(tcx.effective_visibilities(()).is_reachable(did))));
            let sig = tcx.fn_sig(def_id).instantiate_identity().skip_norm_wip();
            o.push(("unsafe".into(), J::B(sig.safety().is_unsafe())));
            o.push(("sig".into(), s(with_no_trimmed_paths!(sig.to_string()))));
        }
        let gens = tcx.generics_of(def_id);
        let mut gs = vec![];
        for i in 0..gens.count() {
            gs.push(s(gens.param_at(i, tcx).name.to_string()));
        }
        o.push(("generics".into(), J::A(gs)));
        // trait bounds in scope (own + inherited): [self type, trait path]
        let mut bs = vec![];
        let preds = tcx.predicates_of(def_id).instantiate_identity(tcx);
        for (clause, _) in preds {
            let clause = clause.skip_norm_wip();
            if let Some(tp) = clause.as_trait_clause() {
                let tp = tp.skip_binder();
                let st = with_no_trimmed_paths!(tp.self_ty().to_string());
                bs.push(J::A(vec![s(st), s(self.path(tp.def_id()))]));
            }
        }
        o.push(("bounds".into(), J::A(bs)));
        o.push(("arg_count".into(), n(body.arg_count)));
        // locals
        let mut names: BTreeMap<usize, String> = BTreeMap::new();
        for vdi in &body.var_debug_info {
            if let mir::VarDebugInfoContents::Place(p) = &vdi.value {
                if p.projection.is_empty() {
                    names.entry(p.local.as_usize()).or_insert(vdi.name.to_string());
                }
            }
        }
        let mut locals = vec![];
        for (l, d) in body.local_decls.iter_enumerated() {
            let mut lo = vec![("ty".to_string(), s(self.ty_s(d.ty)))];
            if let Some(nm) = names.get(&l.as_usize()) {
                lo.push(("name".into(), s(nm.clone())));
            }
            if let ty::Closure(cd, _) = d.ty.kind() {
                lo.push(("closure".into(), s(self.path(*cd))));
            }
            locals.push(J::O(lo));
        }
        o.push(("locals".into(), J::A(locals)));
        // upvar debug names (closures)
        let mut blocks = vec![];
        for (_bb, data) in body.basic_blocks.iter_enumerated() {
            let mut stmts = vec![];
            for st in &data.statements {
                if let Some(j) = self.stmt_j(body, env, st) {
                    stmts.push(j);
                }
            }
            let term = self.term_j(body, env, data.terminator());
            blocks.push(J::O(vec![
                ("cleanup".into(), J::B(data.is_cleanup)),
                ("stmts".into(), J::A(stmts)),
                ("term".into(), term),
            ]));
        }
        o.push(("blocks".into(), J::A(blocks)));
        // promoted constants of this body (`&Enum::Variant` operands of derived PartialEq comparisons etc.): their statements
        let mut proms = vec![];
        for pb in tcx.promoted_mir(def_id).iter() {
            let mut pblocks = vec![];
            for (_bb, data) in pb.basic_blocks.iter_enumerated() {
                let mut stmts = vec![];
                for st in &data.statements {
                    if let Some(j) = self.stmt_j(pb, env, st) {
                        stmts.push(j);
                    }
                }
                pblocks.push(J::O(vec![("stmts".into(), J::A(stmts))]));
            }
            proms.push(J::A(pblocks));
        }
        o.push(("promoted".into(), J::A(proms)));
        J::O(o)
    }

    fn line(&self, sp: Span) -> J {
        let sp = sp.source_callsite();
        let loc = self.tcx.sess.source_map().lookup_char_pos(sp.lo());
        J::N(loc.line as i128)
    }

    fn place_j(&self, body: &Body<'tcx>, place: &Place<'tcx>) -> J {
        let tcx = self.tcx;
        let mut projs = vec![];
        for (base, elem) in place.iter_projections() {
            let bty = base.ty(&body.local_decls, tcx);
            let j = match elem {
                ProjectionElem::Deref => s("deref"),
                ProjectionElem::Field(f, fty) => {
                    let mut o = vec![("f".to_string(), n(f.as_usize()))];
                    match bty.ty.kind() {
                        ty::Adt(def, _) => {
                            let v = match bty.variant_index {
                                Some(v) => def.variant(v),
                                None => def.non_enum_variant(),
                            };
                            o.push(("n".into(), s(v.fields[f].name.to_string())));
                            o.push(("adt".into(), s(self.path(def.did()))));
                        }
                        _ => {
                            o.push(("n".into(), s(f.as_usize().to_string())));
                        }
                    }
                    o.push(("ty".into(), s(self.ty_s(fty))));
                    J::O(o)
                }
                ProjectionElem::Index(l) => J::O(vec![("idx".into(), n(l.as_usize()))]),
                ProjectionElem::ConstantIndex { offset, min_length, from_end } => J::O(vec![
                    ("cidx".into(), n(offset)),
                    ("min_length".into(), n(min_length)),
                    ("from_end".into(), J::B(from_end)),
                ]),
                ProjectionElem::Subslice { from, to, from_end } => J::O(vec![
                    ("sub_from".into(), n(from)),
                    ("sub_to".into(), n(to)),
                    ("from_end".into(), J::B(from_end)),
                ]),
                ProjectionElem::Downcast(name, v) => J::O(vec![
                    ("dc".into(), s(name.map(|x| x.to_string()).unwrap_or_default())),
                    ("v".into(), n(v.as_usize())),
                ]),
                _ => s(format!("other:{:?}", elem)),
            };
            projs.push(j);
        }
        J::O(vec![("l".into(), n(place.local.as_usize())), ("p".into(), J::A(projs))])
    }

    fn const_j(&self, env: ty::TypingEnv<'tcx>, c: &ConstOperand<'tcx>) -> J {
        let tcx = self.tcx;
        let ty = c.const_.ty();
        let mut o = vec![("ty".to_string(), s(self.ty_s(ty)))];
        match ty.kind() {
            ty::FnDef(did, args) => {
                o.push(("fn".into(), s(self.path(*did))));
                o.push(("args".into(), self.args_j(args)));
                return J::O(vec![("const".into(), J::O(o))]);
            }
            _ => {}
        }
        let is_scalar_ty = ty.is_integral() || ty.is_bool() || ty.is_char() || matches!(ty.kind(), ty::Adt(..));
        let mut done = false;
        if is_scalar_ty {
            if let Some(si) = c.const_.try_eval_scalar_int(tcx, env) {
                let bits: u128 = si.to_bits(si.size());
                o.push(("bits".into(), s(bits.to_string())));
                o.push(("size".into(), n(si.size().bytes())));
                done = true;
            }
        }
        if !done {
            o.push(("repr".into(), s(with_no_trimmed_paths!(format!("{}", c.const_)))));
            if let mir::Const::Unevaluated(uv, _) = c.const_ {
                o.push(("uneval".into(), s(self.path(uv.def))));
                if let Some(p) = uv.promoted {
                    o.push(("promoted".into(), n(p.as_usize())));
                }
            }
        }
        J::O(vec![("const".into(), J::O(o))])
    }

    fn op_j(&self, body: &Body<'tcx>, env: ty::TypingEnv<'tcx>, op: &Operand<'tcx>) -> J {
        match op {
            Operand::Copy(p) => J::O(vec![("copy".into(), self.place_j(body, p))]),
            Operand::Move(p) => J::O(vec![("move".into(), self.place_j(body, p))]),
            Operand::Constant(c) => self.const_j(env, c),
            #[allow(unreachable_patterns)]
            _ => J::O(vec![("other".into(), s(format!("{:?}", op)))]),
        }
    }

    fn rv_j(&self, body: &Body<'tcx>, env: ty::TypingEnv<'tcx>, rv: &Rvalue<'tcx>) -> J {
        let tcx = self.tcx;
        let o = |k: &str, rest: Vec<(&str, J)>| {
            let mut v = vec![("rv".to_string(), s(k))];
            for (a, b) in rest {
                v.push((a.to_string(), b));
            }
            J::O(v)
        };
        match rv {
            Rvalue::Use(op, _) => o("use", vec![("op", self.op_j(body, env, op))]),
            Rvalue::Repeat(op, cnt) => o(
                "repeat",
                vec![("op", self.op_j(body, env, op)), ("count", s(with_no_trimmed_paths!(cnt.to_string())))],
            ),
            Rvalue::Ref(_, bk, p) => o(
                "ref",
                vec![
                    ("mut", J::B(matches!(bk, mir::BorrowKind::Mut { .. }))),
                    ("place", self.place_j(body, p)),
                ],
            ),
            Rvalue::RawPtr(k, p) => o(
                "rawptr",
                vec![("kind", s(format!("{:?}", k))), ("place", self.place_j(body, p))],
            ),
            Rvalue::Cast(kind, op, ty) => o(
                "cast",
                vec![
                    ("kind", s(format!("{:?}", kind))),
                    ("op", self.op_j(body, env, op)),
                    ("from", s(self.ty_s(op.ty(&body.local_decls, tcx)))),
                    ("ty", s(self.ty_s(*ty))),
                ],
            ),
            Rvalue::BinaryOp(bop, ops) => o(
                "bin",
                vec![
                    ("op", s(format!("{:?}", bop))),
                    ("a", self.op_j(body, env, &ops.0)),
                    ("b", self.op_j(body, env, &ops.1)),
                    ("aty", s(self.ty_s(ops.0.ty(&body.local_decls, tcx)))),
                ],
            ),
            Rvalue::UnaryOp(uop, op) => o(
                "un",
                vec![
                    ("op", s(format!("{:?}", uop))),
                    ("a", self.op_j(body, env, op)),
                    ("aty", s(self.ty_s(op.ty(&body.local_decls, tcx)))),
                ],
            ),
            Rvalue::Discriminant(p) => o("discr", vec![("place", self.place_j(body, p))]),
            Rvalue::CopyForDeref(p) => {
                o("use", vec![("op", J::O(vec![("copy".into(), self.place_j(body, p))]))])
            }
            Rvalue::Aggregate(kind, ops) => {
                let opsj = J::A(ops.iter().map(|x| self.op_j(body, env, x)).collect());
                match &**kind {
                    AggregateKind::Array(t) => {
                        o("agg", vec![("kind", s("array")), ("ety", s(self.ty_s(*t))), ("ops", opsj)])
                    }
                    AggregateKind::Tuple => o("agg", vec![("kind", s("tuple")), ("ops", opsj)]),
                    AggregateKind::Adt(did, vidx, args, _, active) => {
                        let def = tcx.adt_def(*did);
                        let v = def.variant(*vidx);
                        let mut fields: Vec<J> =
                            v.fields.iter().map(|f| s(f.name.to_string())).collect();
                        if let Some(a) = active {
                            fields = vec![s(v.fields[*a].name.to_string())];
                        }
                        o(
                            "agg",
                            vec![
                                ("kind", s("adt")),
                                ("adt", s(self.path(*did))),
                                ("variant", s(v.name.to_string())),
                                ("vidx", n(vidx.as_usize())),
                                ("args", self.args_j(args)),
                                ("fields", J::A(fields)),
                                ("ops", opsj),
                            ],
                        )
                    }
                    AggregateKind::Closure(did, _args) => o(
                        "agg",
                        vec![("kind", s("closure")), ("closure", s(self.path(*did))), ("ops", opsj)],
                    ),
                    AggregateKind::RawPtr(t, m) => o(
                        "agg",
                        vec![
                            ("kind", s("rawptr")),
                            ("ety", s(self.ty_s(*t))),
                            ("mut", J::B(m.is_mut())),
                            ("ops", opsj),
                        ],
                    ),
                    _ => o("agg", vec![("kind", s("other")), ("ops", opsj)]),
                }
            }
            Rvalue::ThreadLocalRef(d) => o("tls", vec![("def", s(self.path(*d)))]),
            _ => o("other", vec![("dbg", s(format!("{:?}", rv)))]),
        }
    }

    fn stmt_j(
        &self,
        body: &Body<'tcx>,
        env: ty::TypingEnv<'tcx>,
        st: &mir::Statement<'tcx>,
    ) -> Option<J> {
        let tcx = self.tcx;
        match &st.kind {
            StatementKind::Assign(b) => {
                let (place, rv) = &**b;
                Some(J::O(vec![
                    ("k".into(), s("assign")),
                    ("line".into(), self.line(st.source_info.span)),
                    ("place".into(), self.place_j(body, place)),
                    ("pty".into(), s(self.ty_s(place.ty(&body.local_decls, tcx).ty))),
                    ("rv".into(), self.rv_j(body, env, rv)),
                ]))
            }
            StatementKind::SetDiscriminant { place, variant_index } => Some(J::O(vec![
                ("k".into(), s("setdiscr")),
                ("line".into(), self.line(st.source_info.span)),
                ("place".into(), self.place_j(body, place)),
                ("v".into(), n(variant_index.as_usize())),
            ])),
            StatementKind::Intrinsic(i) => match &**i {
                NonDivergingIntrinsic::Assume(_) => None,
                NonDivergingIntrinsic::CopyNonOverlapping(c) => Some(J::O(vec![
                    ("k".into(), s("copy_nonoverlapping")),
                    ("line".into(), self.line(st.source_info.span)),
                    ("src".into(), self.op_j(body, env, &c.src)),
                    ("dst".into(), self.op_j(body, env, &c.dst)),
                    ("count".into(), self.op_j(body, env, &c.count)),
                ])),
            },
            _ => None,
        }
    }

    fn bb(b: BasicBlock) -> J {
        n(b.as_usize())
    }
    fn unwind_j(u: &UnwindAction) -> J {
        match u {
            UnwindAction::Cleanup(b) => Self::bb(*b),
            _ => J::Null,
        }
    }

    fn callee_j(
        &self,
        body: &Body<'tcx>,
        env: ty::TypingEnv<'tcx>,
        func: &Operand<'tcx>,
    ) -> Vec<(String, J)> {
        let tcx = self.tcx;
        let fty = func.ty(&body.local_decls, tcx);
        let mut o = vec![];
        match fty.kind() {
            ty::FnDef(did, args) => {
                o.push(("fn".to_string(), s(self.path(*did))));
                o.push(("fn_full".into(), s(with_no_trimmed_paths!(tcx.def_path_str_with_args(*did, args)))));
                o.push(("substs".into(), self.args_j(args)));
                o.push(("local".into(), J::B(did.is_local())));
                if let Some(tr) = tcx.trait_of_assoc(*did) {
                    o.push(("trait".into(), s(self.path(tr))));
                    o.push(("method".into(), s(tcx.item_name(*did).to_string())));
                    if args.len() > 0 {
                        if let Some(t) = args[0].as_type() {
                            o.push(("self_ty".into(), s(self.ty_s(t))));
                        }
                    }
                }
                // resolution
                let res = std::panic::catch_unwind(std::panic::AssertUnwindSafe(|| {
                    ty::Instance::try_resolve(tcx, env, *did, args)
                }));
                if let Ok(Ok(Some(inst))) = res {
                    let rd = inst.def_id();
                    if rd != *did {
                        o.push(("resolved".into(), s(self.path(rd))));
                        o.push(("resolved_local".into(), J::B(rd.is_local())));
                    }
                    match inst.def {
                        ty::InstanceKind::Item(_) => {}
                        ref other => {
                            let k = format!("{:?}", other);
                            let k = k.split('(').next().unwrap_or("").to_string();
                            o.push(("inst_kind".into(), s(k)));
                        }
                    }
                }
            }
            _ => {
                o.push(("indirect".to_string(), self.op_j(body, env, func)));
                o.push(("fty".into(), s(self.ty_s(fty))));
            }
        }
        o
    }

    fn term_j(
        &self,
        body: &Body<'tcx>,
        env: ty::TypingEnv<'tcx>,
        t: &mir::Terminator<'tcx>,
    ) -> J {
        let tcx = self.tcx;
        let line = self.line(t.source_info.span);
        let mut o: Vec<(String, J)> = vec![];
        match &t.kind {
            TerminatorKind::Goto { target } => {
                o.push(("k".into(), s("goto")));
                o.push(("target".into(), Self::bb(*target)));
            }
            TerminatorKind::SwitchInt { discr, targets } => {
                o.push(("k".into(), s("switch")));
                o.push(("discr".into(), self.op_j(body, env, discr)));
                o.push(("dty".into(), s(self.ty_s(discr.ty(&body.local_decls, tcx)))));
                let mut ts = vec![];
                for (v, b) in targets.iter() {
                    ts.push(J::A(vec![s(v.to_string()), Self::bb(b)]));
                }
                o.push(("targets".into(), J::A(ts)));
                o.push(("otherwise".into(), Self::bb(targets.otherwise())));
            }
            TerminatorKind::Return => o.push(("k".into(), s("return"))),
            TerminatorKind::Unreachable => o.push(("k".into(), s("unreachable"))),
            TerminatorKind::UnwindResume => o.push(("k".into(), s("resume"))),
            TerminatorKind::UnwindTerminate(_) => o.push(("k".into(), s("terminate"))),
            TerminatorKind::Drop { place, target, unwind, .. } => {
                o.push(("k".into(), s("drop")));
                o.push(("place".into(), self.place_j(body, place)));
                o.push(("ty".into(), s(self.ty_s(place.ty(&body.local_decls, tcx).ty))));
                o.push(("target".into(), Self::bb(*target)));
                o.push(("unwind".into(), Self::unwind_j(unwind)));
            }
            TerminatorKind::Call { func, args, destination, target, unwind, fn_span, .. } => {
                o.push(("k".into(), s("call")));
                o.extend(self.callee_j(body, env, func));
                o.push((
                    "args".into(),
                    J::A(args.iter().map(|a| self.op_j(body, env, &a.node)).collect()),
                ));
                o.push((
                    "arg_tys".into(),
                    J::A(
                        args.iter()
                            .map(|a| s(self.ty_s(a.node.ty(&body.local_decls, tcx))))
                            .collect(),
                    ),
                ));
                o.push(("dest".into(), self.place_j(body, destination)));
                o.push(("target".into(), target.map(Self::bb).unwrap_or(J::Null)));
                o.push(("unwind".into(), Self::unwind_j(unwind)));
                o.push(("fn_line".into(), self.line(*fn_span)));
                o.push(("from_expansion".into(), J::B(fn_span.from_expansion())));
            }
            TerminatorKind::Assert { cond, expected, msg, target, unwind } => {
                o.push(("k".into(), s("assert")));
                o.push(("cond".into(), self.op_j(body, env, cond)));
                o.push(("expected".into(), J::B(*expected)));
                let m = format!("{:?}", msg);
                let mk = m.split(|c| c == '(' || c == ' ' || c == '{').next().unwrap_or("").to_string();
                o.push(("msg".into(), s(mk)));
                match &**msg {
                    mir::AssertKind::BoundsCheck { len, index } => {
                        o.push(("len".into(), self.op_j(body, env, len)));
                        o.push(("index".into(), self.op_j(body, env, index)));
                    }
                    mir::AssertKind::Overflow(bop, a, b) => {
                        o.push(("bop".into(), s(format!("{:?}", bop))));
                        o.push(("a".into(), self.op_j(body, env, a)));
                        o.push(("b".into(), self.op_j(body, env, b)));
                    }
                    _ => {}
                }
                o.push(("target".into(), Self::bb(*target)));
                o.push(("unwind".into(), Self::unwind_j(unwind)));
            }
            TerminatorKind::FalseEdge { real_target, .. } => {
                o.push(("k".into(), s("goto")));
                o.push(("target".into(), Self::bb(*real_target)));
            }
            TerminatorKind::FalseUnwind { real_target, .. } => {
                o.push(("k".into(), s("goto")));
                o.push(("target".into(), Self::bb(*real_target)));
            }
            other => {
                o.push(("k".into(), s("other")));
                o.push(("dbg".into(), s(format!("{:?}", other))));
            }
        }
        o.push(("line".into(), line));
        J::O(o)
    }

    // ---------------------------------------------------------------- ADTs

    fn layout_j(&self, t: Ty<'tcx>) -> J {
        let tcx = self.tcx;
        let env = ty::TypingEnv::fully_monomorphized();
        match tcx.layout_of(env.as_query_input(t)) {
            Ok(l) => {
                let mut o = vec![
                    ("size".to_string(), n(l.size.bytes())),
                    ("align".into(), n(l.align.abi.bytes())),
                ];
                if let rustc_abi::FieldsShape::Arbitrary { .. } = l.fields {
                    if let rustc_abi::Variants::Single { .. } = l.variants {
                        let mut offs = vec![];
                        for i in 0..l.fields.count() {
                            offs.push(n(l.fields.offset(i).bytes()));
                        }
                        o.push(("offsets".into(), J::A(offs)));
                    }
                }
                J::O(o)
            }
            Err(_) => J::Null,
        }
    }

    fn adt_j(&self, did: LocalDefId) -> J {
        let tcx = self.tcx;
        let def_id = did.to_def_id();
        let adt = tcx.adt_def(def_id);
        let mut o: Vec<(String, J)> = vec![];
        o.push((
            "kind".into(),
            s(if adt.is_struct() {
                "struct"
            } else if adt.is_enum() {
                "enum"
            } else {
                "union"
            }),
        ));
        o.push(("span".into(), s(self.span_s(tcx.def_span(def_id)))));
        let r = adt.repr();
        o.push((
            "repr".into(),
            J::O(vec![
                ("c".into(), J::B(r.c())),
                ("transparent".into(), J::B(r.transparent())),
                ("packed".into(), J::B(r.packed())),
                ("align".into(), r.align.map(|a| n(a.bytes())).unwrap_or(J::Null)),
                ("int".into(), r.int.map(|i| s(format!("{:?}", i))).unwrap_or(J::Null)),
            ]),
        ));
        o.push(("pub".into(), J::B(tcx.visibility(def_id).is_public())));
        o.push(("reachable".into(), J::B(tcx.effective_visibilities(()).is_reachable(did))));
        let gens = tcx.generics_of(def_id);
        let mut gs = vec![];
        let mut only_const_or_lt = true;
        let mut n_const = 0;
        for i in 0..gens.count() {
            let p = gens.param_at(i, tcx);
            let k = match p.kind {
                ty::GenericParamDefKind::Lifetime => "lifetime",
                ty::GenericParamDefKind::Type { .. } => {
                    only_const_or_lt = false;
                    "type"
                }
                ty::GenericParamDefKind::Const { .. } => {
                    n_const += 1;
                    "const"
                }
            };
            gs.push(J::O(vec![("name".into(), s(p.name.to_string())), ("kind".into(), s(k))]));
        }
        o.push(("generics".into(), J::A(gs)));
        let mut vars = vec![];
        let discrs: Vec<_> = if adt.is_enum() {
            adt.discriminants(tcx).map(|(_, d)| d.val).collect()
        } else {
            vec![]
        };
        for (vi, v) in adt.variants().iter_enumerated() {
            let mut fs = vec![];
            for f in v.fields.iter() {
                let fty = tcx.type_of(f.did).instantiate_identity().skip_norm_wip();
                let mut mentions = vec![];
                for ga in fty.walk() {
                    if let Some(t) = ga.as_type() {
                        match t.kind() {
                            ty::Adt(a, _) => mentions.push(s(self.path(a.did()))),
                            ty::Param(p) => mentions.push(s(format!("param:{}", p.name))),
                            _ => {}
                        }
                    }
                }
                fs.push(J::O(vec![
                    ("name".into(), s(f.name.to_string())),
                    ("ty".into(), s(self.ty_s(fty))),
                    ("pub".into(), J::B(f.vis.is_public())),
                    ("mentions".into(), J::A(mentions)),
                ]));
            }
            let mut vo = vec![("name".to_string(), s(v.name.to_string())), ("fields".into(), J::A(fs))];
            if adt.is_enum() {
                vo.push(("discr".into(), s(discrs[vi.as_usize()].to_string())));
            }
            vars.push(J::O(vo));
        }
        o.push(("variants".into(), J::A(vars)));
        o.push((
            "drop_impl".into(),
            tcx.adt_destructor(def_id).map(|d| s(self.path(d.did))).unwrap_or(J::Null),
        ));
        // layouts
        if only_const_or_lt {
            if n_const == 0 {
                let args = ty::GenericArgs::for_item(tcx, def_id, |p, _| match p.kind {
                    ty::GenericParamDefKind::Lifetime => tcx.lifetimes.re_erased.into(),
                    _ => unreachable!(),
                });
                let t = Ty::new_adt(tcx, adt, args);
                o.push(("layout".into(), self.layout_j(t)));
            } else if n_const == 1 {
                let mut ls = vec![];
                let mut sz: u64 = 1;
                while sz <= 32768 {
                    let args = ty::GenericArgs::for_item(tcx, def_id, |p, _| match p.kind {
                        ty::GenericParamDefKind::Lifetime => tcx.lifetimes.re_erased.into(),
                        ty::GenericParamDefKind::Const { .. } => {
                            GenericArg::from(ty::Const::from_target_usize(tcx, sz))
                        }
                        _ => unreachable!(),
                    });
                    let t = Ty::new_adt(tcx, adt, args);
                    ls.push((sz.to_string(), self.layout_j(t)));
                    sz *= 2;
                }
                o.push(("layouts_by_const".into(), J::O(ls)));
            }
        }
        J::O(o)
    }

    fn const_item_j(&self, did: LocalDefId) -> Option<J> {
        let tcx = self.tcx;
        let def_id = did.to_def_id();
        if tcx.generics_of(def_id).requires_monomorphization(tcx) {
            return None;
        }
        let ty = tcx.type_of(def_id).instantiate_identity().skip_norm_wip();
        let mut o = vec![
            ("ty".to_string(), s(self.ty_s(ty))),
            ("span".into(), s(self.span_s(tcx.def_span(def_id)))),
        ];
        o.extend(self.impl_info(def_id));
        let r = std::panic::catch_unwind(std::panic::AssertUnwindSafe(|| tcx.const_eval_poly(def_id)));
        if let Ok(Ok(cv)) = r {
            if let mir::ConstValue::Scalar(mir::interpret::Scalar::Int(si)) = cv {
                let bits: u128 = si.to_bits(si.size());
                o.push(("bits".into(), s(bits.to_string())));
                o.push(("size".into(), n(si.size().bytes())));
            } else {
                o.push(("nonscalar".into(), J::B(true)));
            }
        }
        Some(J::O(o))
    }

    fn impl_j(&self, did: LocalDefId) -> J {
        let tcx = self.tcx;
        let def_id = did.to_def_id();
        let self_ty = tcx.type_of(def_id).instantiate_identity().skip_norm_wip();
        let mut o = vec![
            ("self".to_string(), s(self.ty_s(self_ty))),
            ("span".into(), s(self.span_s(tcx.def_span(def_id)))),
            ("derived".into(), J::B(tcx.is_automatically_derived(def_id))),
        ];
        if let ty::Adt(a, _) = self_ty.kind() {
            o.push(("adt".into(), s(self.path(a.did()))));
        }
        if let DefKind::Impl { of_trait: true } = tcx.def_kind(def_id) {
            let tr = tcx.impl_trait_ref(def_id).instantiate_identity().skip_norm_wip();
            o.push(("trait".into(), s(self.path(tr.def_id))));
            o.push(("trait_full".into(), s(with_no_trimmed_paths!(tr.to_string()))));
        }
        let mut items = vec![];
        for &it in tcx.associated_item_def_ids(def_id) {
            items.push(J::O(vec![
                ("name".into(), s(tcx.item_name(it).to_string())),
                ("path".into(), s(self.path(it))),
                ("kind".into(), s(format!("{:?}", tcx.def_kind(it)))),
            ]));
        }
        o.push(("items".into(), J::A(items)));
        J::O(o)
    }

    fn trait_j(&self, did: LocalDefId) -> J {
        let tcx = self.tcx;
        let def_id = did.to_def_id();
        let mut items = vec![];
        for it in tcx.associated_items(def_id).in_definition_order() {
            items.push(J::O(vec![
                ("name".into(), s(it.name().to_string())),
                ("path".into(), s(self.path(it.def_id))),
                ("has_default".into(), J::B(it.defaultness(tcx).has_value())),
                ("kind".into(), s(format!("{:?}", tcx.def_kind(it.def_id)))),
            ]));
        }
        J::O(vec![
            ("span".into(), s(self.span_s(tcx.def_span(def_id)))),
            ("items".into(), J::A(items)),
        ])
    }
}
