"""Path-sensitive extraction of closed-form guarded expressions from small acyclic regions, and folding
(partial evaluation) of the extracted terms over an enumerated finite domain.

`enumerate_paths(sg, start, stops)` walks the (inlined) CFG; along each path a forward substitution
environment maps locals and stored locations to terms whose leaves are inputs (entry parameters, initial
memory, results of opaque calls).  Each path yields its branch conditions, its effects (opaque calls and
stores, in order) and the term of the return value.  `Folder` evaluates such terms for concrete leaf values
with Rust's fixed-width integer semantics.  No code of /repo is executed; no solver is used."""
import re
from .core import *

INT_TY = re.compile(r'^(u|i)(8|16|32|64|128|size)$')


def ty_bits(ty):
    m = INT_TY.match(ty or '')
    if not m:
        if ty == 'bool':
            return (1, False)
        return None
    w = 64 if m.group(2) == 'size' else int(m.group(2))
    return (w, m.group(1) == 'i')


class PathLimit(Exception):
    pass


class Path:
    __slots__ = ('nodes', 'conds', 'effects', 'ret', 'end', 'env', 'mem', 'panicked')

    def __init__(self):
        self.nodes = []
        self.conds = []     # (term, expected value set or ('not', set)), each: discriminant term must be in/not in set
        self.effects = []   # ('call', node, fn, args) / ('store', node, loc, value)
        self.ret = None
        self.end = None
        self.panicked = False


class PathEnum:
    def __init__(self, sg, max_paths=4000, max_len=6000, loop_unroll=0):
        self.sg = sg
        self.max_paths = max_paths
        self.max_len = max_len
        self.loop_unroll = loop_unroll
        self.S = sg.sym

    # forward evaluation of operands in an explicit environment
    def operand(self, st, n, op):
        if 'const' in op:
            c = op['const']
            if 'bits' in c:
                return ('const', int(c['bits']), c['ty'])
            if 'fn' in c:
                return ('fnitem', c['fn'], tuple(c.get('args', ())))
            return ('const', c.get('repr', '?'), c['ty'])
        pl = op.get('copy') or op.get('move')
        return self.place_value(st, n, pl)

    def local(self, st, ctx, l):
        env = st['env']
        k = (ctx, l)
        if k in env:
            return env[k]
        c = self.sg.ctxs[ctx]
        if c.parent is None and 1 <= l <= c.fn['arg_count']:
            return ('param', l)
        return ('undef', ctx, l)

    def place_loc(self, st, n, pl):
        ctx = self.sg.nodes[n].ctx
        root = ('local', ctx, pl['l'])
        path = ()
        projs = pl['p']
        for i, p in enumerate(projs):
            if p == 'deref':
                if not path and root[0] == 'local':
                    ptr = self.local(st, root[1], root[2])
                    pty = self.sg.ctxs[root[1]].fn['locals'][root[2]]['ty']
                else:
                    ptr = self.load(st, ('loc', root, path))
                    prev = projs[i - 1] if i > 0 else None
                    pty = prev.get('ty', '?') if isinstance(prev, dict) else '?'
                ptr = strip_ptr(ptr)
                if ptr[0] == 'ref':
                    root, path = ptr[1][1], ptr[1][2]
                else:
                    root, path = ('deref', ptr, pty), ()
            elif isinstance(p, dict):
                if 'n' in p:
                    path = path + (('f', p['n'], p.get('adt')),)
                elif 'idx' in p:
                    path = path + (('idx', self.local(st, ctx, p['idx'])),)
                elif 'cidx' in p:
                    path = path + (('cidx', p['cidx']),)
                elif 'dc' in p:
                    path = path + (('dc', p['dc']),)
                else:
                    path = path + (('?', str(p)),)
            else:
                path = path + (('?', str(p)),)
        return ('loc', root, path)

    def load(self, st, loc):
        mem = st['mem']
        if loc in mem:
            return mem[loc]
        # field of a stored aggregate / local value
        root, path = loc[1], loc[2]
        for cut in range(len(path) - 1, -1, -1):
            pre = ('loc', root, path[:cut])
            if pre in mem:
                v = mem[pre]
                for p in path[cut:]:
                    if p[0] == 'f':
                        v = simplify(('field', v, p[1]))
                    elif p[0] == 'dc':
                        v = simplify(('downcast', v, p[1]))
                    else:
                        v = ('proj', v, p)
                return v
        if root[0] == 'local' and not any(k[1] == root and len(k[2]) > len(path) and k[2][:len(path)] == path for k in mem):
            base = self.local(st, root[1], root[2])
            if base[0] != 'undef':
                v = base
                for p in path:
                    if p[0] == 'f':
                        v = simplify(('field', v, p[1]))
                    elif p[0] == 'dc':
                        v = simplify(('downcast', v, p[1]))
                    else:
                        v = ('proj', v, p)
                return v
        return ('load0', loc)

    def place_value(self, st, n, pl):
        ctx = self.sg.nodes[n].ctx
        if not pl['p']:
            loc = ('loc', ('local', ctx, pl['l']), ())
            if loc in st['mem']:
                return st['mem'][loc]
            return self.local(st, ctx, pl['l'])
        loc = self.place_loc(st, n, pl)
        return self.load(st, loc)

    def rvalue(self, st, n, rv):
        k = rv['rv']
        if k == 'use':
            return self.operand(st, n, rv['op'])
        if k in ('ref', 'rawptr'):
            return ('ref', self.place_loc(st, n, rv['place']))
        if k == 'bin':
            return simplify(('bin', rv['op'], self.operand(st, n, rv['a']), self.operand(st, n, rv['b']), rv.get('aty', '?')))
        if k == 'un':
            return simplify(('un', rv['op'], self.operand(st, n, rv['a']), rv.get('aty', '?')))
        if k == 'cast':
            return simplify(('cast', rv['kind'], rv['ty'], self.operand(st, n, rv['op']), rv.get('from', '?')))
        if k == 'discr':
            return simplify(('discr', self.place_value(st, n, rv['place'])))
        if k == 'agg':
            ops = tuple(self.operand(st, n, o) for o in rv['ops'])
            kind = rv['kind']
            if kind == 'adt':
                return ('agg', '%s::%s' % (rv['adt'], rv['variant']), ops, tuple(rv.get('fields', ())))
            if kind == 'closure':
                return ('agg', 'closure:' + rv['closure'], ops, ())
            return ('agg', kind, ops, ())
        if k == 'repeat':
            return ('repeat', self.operand(st, n, rv['op']), rv['count'])
        return ('unknown', k)

    def assign(self, st, n, pl, val):
        ctx = self.sg.nodes[n].ctx
        if not pl['p']:
            st['env'][(ctx, pl['l'])] = val
            # whole assignment kills memory entries rooted at the local
            root = ('local', ctx, pl['l'])
            for k in [k for k in st['mem'] if k[1] == root]:
                del st['mem'][k]
            return
        loc = self.place_loc(st, n, pl)
        # kill sub-locations
        for k in [k for k in st['mem'] if k[1] == loc[1] and k[2][:len(loc[2])] == loc[2] and k != loc]:
            del st['mem'][k]
        st['mem'][loc] = val
        st['effects'].append(('store', n, loc, val))

    def run(self, start=None, stops=(), on_node=None):
        """Enumerate paths from start (default entry) until a normal exit of the root, a node in `stops`, or a
        panic.  Returns list of Path."""
        sg = self.sg
        start = sg.entry if start is None else start
        stops = set(stops)
        out = []
        init = {'env': {}, 'mem': {}, 'effects': [], 'conds': [], 'nodes': [], 'visits': {}}
        stack = [(start, init)]
        while stack:
            nid, st = stack.pop()
            while True:
                if len(st['nodes']) > self.max_len:
                    raise PathLimit('path too long')
                n = sg.nodes[nid]
                st['nodes'].append(nid)
                v = st['visits'].get(nid, 0)
                if v > self.loop_unroll:
                    p = self._finish(st, nid, None)
                    p.end = ('loop', nid)
                    out.append(p)
                    break
                st['visits'][nid] = v + 1
                if nid in stops and len(st['nodes']) > 1:
                    p = self._finish(st, nid, None)
                    p.end = ('stop', nid)
                    out.append(p)
                    break
                d = n.d
                nxt = None
                if n.kind == 'assign':
                    self.assign(st, nid, d['place'], self.rvalue(st, nid, d['rv']))
                elif n.kind == 'setdiscr':
                    pass
                elif n.kind == 'call':
                    args = tuple(self.operand(st, nid, a) for a in d['args'])
                    if n.inl is not None:
                        cc = sg.ctxs[n.inl]
                        via = d.get('_via')
                        if via == 'closure':
                            st['env'][(cc.id, 1)] = args[0]
                            tup = args[1] if len(args) > 1 else ('agg', 'tuple', (), ())
                            for i in range(2, cc.fn['arg_count'] + 1):
                                st['env'][(cc.id, i)] = simplify(('field', tup, str(i - 2)))
                        else:
                            for i, a in enumerate(args):
                                st['env'][(cc.id, i + 1)] = a
                    else:
                        # by-reference arguments that point at plain locals carry the pointee value along
                        vargs = []
                        for a in args:
                            if a[0] == 'ref' and a[1][1][0] == 'local' and not a[1][2]:
                                pv_ = self.load(st, a[1])
                                if pv_[0] not in ('load0', 'undef'):
                                    a = ('refto', pv_, a[1])
                            vargs.append(a)
                        val = simplify(('call', nid, d.get('fn', '?'), tuple(vargs)), d)
                        if d.get('trait') == 'core::cmp::PartialEq' and d.get('method') in ('eq', 'ne') and len(args) == 2:
                            pv = []
                            for a in args:
                                if a[0] == 'ref':
                                    pv.append(self.load(st, a[1]))
                            if len(pv) == 2:
                                val = ('bin', 'Eq' if d['method'] == 'eq' else 'Ne', pv[0], pv[1], '?')
                        # unwrapping an Option whose variant is known on this path yields the payload (or the given / zero default)
                        fnm = d.get('fn', '')
                        if fnm in ('core::option::Option::<T>::unwrap_or_default', 'core::option::Option::<T>::unwrap_or') and args:
                            rcv = args[0]
                            while rcv[0] in ('conv', 'idcall'):
                                rcv = rcv[2]
                            if rcv[0] == 'agg' and rcv[1].endswith('::Some') and rcv[2]:
                                val = rcv[2][0]
                            elif rcv[0] == 'agg' and rcv[1].endswith('::None'):
                                if fnm.endswith('::unwrap_or') and len(args) > 1:
                                    val = args[1]
                                else:
                                    dty = sg.ctxs[n.ctx].fn['locals'][d['dest']['l']]['ty'] if not d['dest']['p'] else '?'
                                    a_ = ADT_INFO.get(dty) if 'ADT_INFO' in globals() else None
                                    val = ('const', 0, dty)      # Default of an integer / transparent integer newtype (bitflags: the empty set)
                        # pointee values of by-reference arguments that point at plain locals (receivers)
                        pointees = []
                        for a in args:
                            pv = None
                            if a[0] == 'ref' and a[1][1][0] == 'local' and not a[1][2]:
                                pv = self.load(st, a[1])
                            pointees.append(pv)
                        st['effects'].append(('call', nid, d.get('fn', '?'), args, d, tuple(pointees)))
                        if d.get('target') is None:
                            p = self._finish(st, nid, None)
                            p.panicked = True
                            p.end = ('diverge', nid)
                            out.append(p)
                            break
                        self.assign(st, nid, d['dest'], val)
                elif n.kind == 'ret':
                    call = sg.nodes[d['call']]
                    cc = sg.ctxs[call.inl]
                    val = self.local(st, cc.id, 0)
                    rl = ('loc', ('local', cc.id, 0), ())
                    if rl in st['mem']:
                        val = st['mem'][rl]
                    self.assign(st, nid, call.d['dest'], val)
                elif n.kind == 'switch':
                    disc = self.operand(st, nid, d['discr'])
                    edges = n.switch_edges
                    vals = [v_ for v_, _ in edges if v_ is not None]
                    cv = const_int(disc)
                    if cv is None:
                        cv = fold_const(disc)
                    first = True
                    todo = []
                    for v_, s in edges:
                        if cv is not None:
                            if v_ is not None and v_ != cv:
                                continue
                            if v_ is None and cv in vals:
                                continue
                        todo.append((v_, s))
                    # enum discriminants: the otherwise edge of an exhaustive match is infeasible
                    for v_, s in todo[1:]:
                        st2 = _fork(st)
                        ok = cond_ok(st2, disc, 'in' if v_ is not None else 'notin', (v_,) if v_ is not None else tuple(vals))
                        if not ok:
                            continue
                        stack.append((s, st2))
                        if len(stack) + len(out) > self.max_paths:
                            raise PathLimit('too many paths')
                    if todo:
                        v_, s = todo[0]
                        ok = cond_ok(st, disc, 'in' if v_ is not None else 'notin', (v_,) if v_ is not None else tuple(vals))
                        if ok:
                            nid = s
                            continue
                    break
                elif n.kind == 'assert':
                    cond = self.operand(st, nid, d['cond'])
                    exp = 1 if d['expected'] else 0
                    # the failing outcome is a (clean) panic path of its own
                    st2 = _fork(st)
                    if cond_ok(st2, cond, 'notin', (exp,)):
                        pp = self._finish(st2, nid, None)
                        pp.panicked = True
                        pp.end = ('assert', nid, d.get('msg'))
                        out.append(pp)
                    if not cond_ok(st, cond, 'in', (exp,)):
                        break
                elif n.kind == 'return':
                    if n.ctx == 0:
                        rv = self.local(st, 0, 0)
                        rl = ('loc', ('local', 0, 0), ())
                        if rl in st['mem']:
                            rv = st['mem'][rl]
                        p = self._finish(st, nid, rv)
                        p.end = ('return', nid)
                        out.append(p)
                        break
                elif n.kind == 'unreachable':
                    break   # compiler-proved infeasible (exhaustive match): not a path
                elif n.kind in ('resume', 'terminate', 'other'):
                    p = self._finish(st, nid, None)
                    p.panicked = True
                    p.end = ('diverge', nid)
                    out.append(p)
                    break
                if on_node:
                    on_node(nid, st)
                if not n.succ:
                    p = self._finish(st, nid, None)
                    p.panicked = True
                    p.end = ('diverge', nid)
                    out.append(p)
                    break
                nid = n.succ[0]
            if len(out) > self.max_paths:
                raise PathLimit('too many paths')
        return out

    def _finish(self, st, nid, ret):
        p = Path()
        p.nodes = st['nodes']
        p.conds = st['conds']
        p.effects = st['effects']
        p.ret = ret
        p.env = st['env']
        p.mem = st['mem']
        return p


def norm_cond(disc, kind, vals):
    """Rewrite a condition on discr(trybranch(k, x)) into a condition on discr(x)."""
    if disc[0] == 'discr' and disc[1][0] == 'okor':
        inner = simplify(('discr', disc[1][1]))
        return norm_cond(inner, kind, tuple(1 - v if v in (0, 1) else v + 100 for v in vals))
    if disc[0] == 'discr' and disc[1][0] == 'trybranch':
        k, x = disc[1][1], disc[1][2]
        inner = simplify(('discr', x))
        # ControlFlow: Continue=0, Break=1.  Option: None=0, Some=1.  Result: Ok=0, Err=1.
        def m(v):
            if k == 'option':
                return 1 - v if v in (0, 1) else v + 100
            return v
        return norm_cond(inner, kind, tuple(m(v) for v in vals))
    return disc, kind, vals


PURE_FNS = ('core::slice::<impl [T]>::get_mut', 'core::slice::<impl [T]>::get', 'core::slice::<impl [T]>::len', 'core::slice::<impl [T]>::is_empty',
            'core::option::Option::<T>::is_none', 'core::option::Option::<T>::is_some', 'core::slice::<impl [T]>::first', 'core::slice::<impl [T]>::last',
            'core::option::Option::<&T>::copied', 'core::option::Option::<&T>::cloned', 'core::option::Option::<&mut T>::copied',
            'core::option::Option::<T>::as_ref', 'core::option::Option::<T>::as_mut', 'core::convert::From::from', 'core::convert::Into::into',
            'core::slice::<impl [T]>::split_first', 'core::slice::<impl [T]>::split_at')


def purify(t):
    """Calls of side-effect-free std functions with identical arguments denote the same value: drop the call-site id."""
    if not isinstance(t, tuple) or not t:
        return t
    if t[0] == 'call' and t[2] in PURE_FNS:
        return ('pcall', t[2], tuple(purify(a) for a in t[3]))
    if t[0] in ('loc',):
        return t
    return tuple(purify(x) if isinstance(x, tuple) else x for x in t)


def cond_ok(st, disc, kind, vals):
    """Record the condition; return False if it contradicts an earlier one on the same term."""
    disc, kind, vals = norm_cond(disc, kind, vals)
    key_disc = disc
    disc = purify(disc)
    c = const_int(disc)
    if c is not None:
        return (c in vals) if kind == 'in' else (c not in vals)
    known = st.setdefault('facts', {})
    cur = known.get(disc)
    if kind == 'in':
        new = set(vals)
        if cur is not None:
            if cur[0] == 'in':
                new &= cur[1]
            else:
                new -= cur[1]
        if not new:
            return False
        known[disc] = ('in', new)
    else:
        if cur is not None and cur[0] == 'in':
            new = cur[1] - set(vals)
            if not new:
                return False
            known[disc] = ('in', new)
        else:
            ex = set(vals) | (cur[1] if cur else set())
            known[disc] = ('notin', ex)
    st['conds'].append((key_disc, (kind, tuple(vals)), None))
    return True


def _fork(st):
    return {'env': dict(st['env']), 'mem': dict(st['mem']), 'effects': list(st['effects']), 'conds': list(st['conds']),
            'nodes': list(st['nodes']), 'visits': dict(st['visits']),
            'facts': {k: (v[0], set(v[1])) for k, v in st.get('facts', {}).items()}}


# --------------------------------------------------------------------------- folding

class Unfoldable(Exception):
    pass


def _wrap(v, bits, signed):
    v &= (1 << bits) - 1
    if signed and v >> (bits - 1):
        v -= 1 << bits
    return v


def _strip(t):
    while isinstance(t, tuple) and t and t[0] in ('cast', 'conv', 'idcall', 'copy', 'move') and len(t) > 2 and isinstance(t[2], tuple):
        t = t[2]
    return t


NUM_FN = re.compile(r'^core::num::<impl (\w+)>::(\w+)$')


class Folder:
    """Evaluates terms with Rust integer semantics; `leaf(term)` supplies values for input leaves (or raises
    Unfoldable).  Panicking operations (overflow in checked builds is modelled by the Assert conditions on the
    path, so plain Add here wraps like the hardware op and the path condition says whether it panicked)."""

    def __init__(self, leaf, generic=None):
        self.leaf = leaf
        self.generic = generic or {}

    def ev(self, t):
        k = t[0]
        if k in ('load0', 'load') and isinstance(t[1], tuple) and t[1] and t[1][0] == 'loc':
            pv = promoted_pointee(t[1])
            if pv is not None and (pv[0] == 'agg' or (pv[0] == 'const' and isinstance(pv[1], int))):
                return self.ev(pv)
            if pv is not None and pv[0] == 'field':
                inner = pv
                while inner[0] == 'field':
                    inner = inner[1]
                if inner[0] == 'agg' or (inner[0] == 'const' and isinstance(inner[1], int)):
                    return self.ev(pv)      # field of a promoted newtype / struct constant (`x == Self::CONST` on a tuple struct)
        if k == 'const':
            if isinstance(t[1], int):
                return t[1]
            if t[1] in self.generic:
                return self.generic[t[1]]
            if t[1] == '()':
                return 0
            r = self.leaf(t)
            return r
        if k == 'proj' and isinstance(t[2], tuple) and t[2][0] == 'cidx':
            inner = _strip(t[1])
            i_ = t[2][1]
            if inner[0] == 'agg' and inner[1] == 'array' and i_ < len(inner[2]):
                return self.ev(inner[2][i_])
            if inner[0] == 'call':
                m_ = NUM_FN.match(inner[2])
                if m_ and m_.group(2) in ('to_le_bytes', 'to_be_bytes'):
                    v_ = self.ev(inner[3][0])
                    nb = ty_bits(m_.group(1))[0] // 8
                    v_ &= (1 << (8 * nb)) - 1
                    return (v_ >> (8 * (i_ if m_.group(2) == 'to_le_bytes' else nb - 1 - i_))) & 0xff
        if k in ('idcall', 'conv'):
            return self.ev(t[2])
        if k == 'refto':
            return self.ev(t[1])
        if k in ('sizeof', 'alignof'):
            ty = t[1]
            if k == 'alignof' and ('alignof:' + ty) in self.generic:
                return self.generic['alignof:' + ty]
            if ty in self.generic:
                return self.generic[ty]
            lay = type_layout(ty)
            if lay is None:
                return self.leaf(t)
            return lay[0] if k == 'sizeof' else lay[1]
        if k == 'bin':
            return self.binop(t)
        if k == 'un':
            a = self.ev(t[2])
            tb = ty_bits(t[3] if len(t) > 3 else '?')
            if t[1] == 'Not':
                if tb is None:
                    raise Unfoldable('not on ' + str(t[3:]))
                if tb[0] == 1:
                    return 0 if a else 1
                return _wrap(~a, tb[0], tb[1])
            if t[1] == 'Neg':
                return _wrap(-a, tb[0], tb[1])
            raise Unfoldable('unop ' + t[1])
        if k == 'cast':
            a = self.ev(t[3])
            tb = ty_bits(t[2])
            if tb is None and (t[2].startswith('*mut ') or t[2].startswith('*const ')) and '[' not in t[2] and 'dyn' not in t[2]:
                tb = (64, False)       # thin raw pointers: address-sized integers
            if tb is None:
                raise Unfoldable('cast to ' + t[2])
            return _wrap(a, tb[0], tb[1]) if tb[0] > 1 else (1 if a else 0)
        if k == 'ovf':
            v = t[1]
            a, b = self.ev(v[2]), self.ev(v[3])
            tb = ty_bits(v[4]) if len(v) > 4 else None
            if tb is None:
                raise Unfoldable('ovf type')
            op = v[1][:-len('WithOverflow')]
            r = {'Add': a + b, 'Sub': a - b, 'Mul': a * b}[op]
            return 0 if _wrap(r, tb[0], tb[1]) == r else 1
        if k == 'call':
            return self.call(t)
        if k == 'tryconv':
            return self.ev(t[2])
        if k == 'field' and t[1][0] == 'downcast' and t[1][1][0] == 'tryconv' and t[2] == '0':
            return self.ev(t[1][1][2])
        if k == 'discr' and t[1][0] == 'agg' and t[1][1] in VARIANT_DISCR:
            return VARIANT_DISCR[t[1][1]]
        if k == 'discr' and t[1][0] == 'okor':
            return 1 - self.ev(simplify(('discr', t[1][1])))
        if k == 'discr' and t[1][0] == 'call' and NUM_FN.match(t[1][2]) and NUM_FN.match(t[1][2]).group(2) in ('checked_sub', 'checked_add', 'checked_mul'):
            return 0 if self._checked(t[1]) is None else 1
        if k == 'field' and t[2] == '0' and t[1][0] == 'downcast' and t[1][1][0] == 'call' and NUM_FN.match(t[1][1][2]) and \
                NUM_FN.match(t[1][1][2]).group(2) in ('checked_sub', 'checked_add', 'checked_mul'):
            v = self._checked(t[1][1])
            if v is None:
                raise Unfoldable('payload of None')
            return v
        if k == 'discr' and t[1][0] == 'tryconv':
            tb = ty_bits(t[1][1])
            v = self.ev(t[1][2])
            if tb is None:
                raise Unfoldable('tryconv to ' + t[1][1])
            lo, hi = (-(1 << (tb[0] - 1)), (1 << (tb[0] - 1)) - 1) if tb[1] else (0, (1 << tb[0]) - 1)
            return 0 if lo <= v <= hi else 1
        if k == 'field':
            # a field chain rooted in `opt.unwrap_or_default()` / `opt.unwrap_or(d)` whose receiver is a known Some(..) / None on this path
            chain, inner = [], t
            while inner[0] == 'field':
                chain.append(inner[2])
                inner = inner[1]
            if inner[0] == 'call' and inner[2] in ('core::option::Option::<T>::unwrap_or_default', 'core::option::Option::<T>::unwrap_or') and inner[3]:
                recv = _strip(inner[3][0])
                if recv[0] == 'agg' and recv[1].endswith('::Some') and recv[2]:
                    x = recv[2][0]
                    for f_ in reversed(chain):
                        x = ('field', x, f_)
                    return self.ev(simplify(x))
                if recv[0] == 'agg' and recv[1].endswith('::None'):
                    if inner[2].endswith('unwrap_or') and len(inner[3]) > 1:
                        x = inner[3][1]
                        for f_ in reversed(chain):
                            x = ('field', x, f_)
                        return self.ev(simplify(x))
                    if all(f_ in ('0', 'bits') for f_ in chain):
                        return 0      # Default of a transparent integer newtype (bitflags: the empty set)
            v = t[1]
            if v[0] == 'agg' and len(v[2]) == 1 and t[2] in ('0', 'bits'):
                return self.ev(v[2][0])
            if v[0] == 'const' and isinstance(v[1], int) and t[2] in ('0', 'bits'):
                return v[1]      # payload of a transparent newtype constant (bitflags)
            if v[0] == 'field' and t[2] in ('0', 'bits') and v[2] in ('0', 'bits'):
                inner = v
                while inner[0] == 'field' and inner[2] in ('0', 'bits'):
                    inner = inner[1]
                if inner[0] == 'const' and isinstance(inner[1], int):
                    return inner[1]
                if inner[0] == 'agg' and len(inner[2]) == 1:
                    return self.ev(t[1])
            return self.leaf(t)
        if k == 'agg':
            # transparent newtypes (bitflags) fold to their payload
            if len(t[2]) == 1:
                return self.ev(t[2][0])
            if t[1].startswith('core::option::Option::None'):
                return None
            if not t[2] and t[1] in VARIANT_DISCR:
                return VARIANT_DISCR[t[1]]       # a field-less enum value folds to its discriminant
            raise Unfoldable('aggregate ' + t[1])
        if k == 'discr':
            v = t[1]
            if v[0] == 'agg':
                if v[1].endswith('::None') or v[1].endswith('::Ok') or v[1].endswith('::Continue'):
                    return 0
                if v[1].endswith('::Some') or v[1].endswith('::Err') or v[1].endswith('::Break'):
                    return 1
            return self.leaf(t)
        return self.leaf(t)

    def _checked(self, c):
        m = NUM_FN.match(c[2])
        bits, signed = ty_bits(m.group(1))
        a, b = self.ev(c[3][0]), self.ev(c[3][1])
        r = {'checked_sub': a - b, 'checked_add': a + b, 'checked_mul': a * b}[m.group(2)]
        lo, hi = (-(1 << (bits - 1)), (1 << (bits - 1)) - 1) if signed else (0, (1 << bits) - 1)
        return r if lo <= r <= hi else None

    def binop(self, t):
        op = t[1]
        a, b = self.ev(t[2]), self.ev(t[3])
        tb = ty_bits(t[4]) if len(t) > 4 else None
        if op in ('Eq', 'Ne', 'Lt', 'Le', 'Gt', 'Ge'):
            return int({'Eq': a == b, 'Ne': a != b, 'Lt': a < b, 'Le': a <= b, 'Gt': a > b, 'Ge': a >= b}[op])
        if tb is None:
            raise Unfoldable('binop type ' + str(t[4:]))
        bits, signed = tb
        if op in ('Add', 'AddUnchecked'):
            r = a + b
        elif op in ('Sub', 'SubUnchecked'):
            r = a - b
        elif op in ('Mul', 'MulUnchecked'):
            r = a * b
        elif op == 'Div':
            if b == 0:
                raise Unfoldable('div0')
            r = abs(a) // abs(b) * (1 if (a >= 0) == (b >= 0) else -1)
        elif op == 'Rem':
            if b == 0:
                raise Unfoldable('rem0')
            r = abs(a) % abs(b) * (1 if a >= 0 else -1)
        elif op == 'BitAnd':
            r = a & b
        elif op == 'BitOr':
            r = a | b
        elif op == 'BitXor':
            r = a ^ b
        elif op in ('Shl', 'ShlUnchecked'):
            r = a << (b % bits)
        elif op in ('Shr', 'ShrUnchecked'):
            r = a >> (b % bits)
        else:
            raise Unfoldable('binop ' + op)
        if bits == 1:
            return r & 1
        return _wrap(r, bits, signed)

    def call(self, t):
        fn = t[2]
        if fn in ('core::cmp::PartialEq::eq', 'core::cmp::PartialEq::ne') and len(t[3]) == 2:
            # comparison of two values by reference (derived PartialEq of a field-less enum / scalar)
            vals = []
            for a in t[3]:
                a0 = a
                while a0[0] in ('cast', 'conv', 'idcall'):
                    a0 = a0[3] if a0[0] == 'cast' else a0[2]
                if a0[0] == 'refto':
                    vals.append(self.ev(a0[1]))
                elif a0[0] == 'const' and isinstance(a0[1], str) and a0[1] in PROMOTED:
                    vals.append(self.ev(PROMOTED[a0[1]]))
                else:
                    vals.append(self.leaf(a))
            return int((vals[0] == vals[1]) == fn.endswith('::eq'))
        m = NUM_FN.match(fn)
        if m and m.group(2) in ('from_le_bytes', 'from_be_bytes') and t[3]:
            arr = _strip(t[3][0])
            if arr[0] == 'agg' and arr[1] == 'array':
                bs = [self.ev(x) & 0xff for x in arr[2]]
                if m.group(2) == 'from_be_bytes':
                    bs = bs[::-1]
                return sum(b_ << (8 * i_) for i_, b_ in enumerate(bs))
            raise Unfoldable(fmt(t)[:60])
        if m:
            ty, meth = m.group(1), m.group(2)
            tb = ty_bits(ty)
            args = [self.ev(a) for a in t[3]]
            bits, signed = tb
            if meth == 'wrapping_add':
                return _wrap(args[0] + args[1], bits, signed)
            if meth == 'wrapping_sub':
                return _wrap(args[0] - args[1], bits, signed)
            if meth == 'wrapping_mul':
                return _wrap(args[0] * args[1], bits, signed)
            if meth == 'div_ceil':
                if args[1] == 0:
                    raise Unfoldable('div0')
                return -(-args[0] // args[1])
            if meth == 'next_multiple_of':
                return -(-args[0] // args[1]) * args[1]
            if meth == 'is_multiple_of':
                return int(args[1] != 0 and args[0] % args[1] == 0) if args[1] != 0 else int(args[0] == 0)
            if meth == 'is_power_of_two':
                return int(args[0] > 0 and args[0] & (args[0] - 1) == 0)
            if meth == 'saturating_sub':
                return max(args[0] - args[1], 0 if not signed else -(1 << (bits - 1)))
            if meth == 'saturating_add':
                return min(args[0] + args[1], (1 << (bits - (1 if signed else 0))) - 1)
            if meth in ('min',):
                return min(args)
            if meth in ('max',):
                return max(args)
            if meth == 'trailing_zeros':
                return bits if args[0] == 0 else (args[0] & -args[0]).bit_length() - 1
            if meth == 'leading_zeros':
                return bits - args[0].bit_length()
            if meth == 'count_ones':
                return bin(args[0] & ((1 << bits) - 1)).count('1')
            if meth == 'pow':
                return _wrap(args[0] ** args[1], bits, signed)
            if meth in ('from_le', 'to_le'):
                return args[0]
        if fn in ('core::option::Option::<T>::unwrap_or_default', 'core::option::Option::<T>::unwrap_or') and t[3]:
            x = t[3][0]
            if x[0] == 'call' and NUM_FN.match(x[2]) and NUM_FN.match(x[2]).group(2) in ('checked_sub', 'checked_add', 'checked_mul'):
                v = self._checked(x)
                if v is None:
                    return 0 if fn.endswith('unwrap_or_default') else self.ev(t[3][1])
                return v
        if fn.startswith('log::') or (t[3] and any('log::Level' in fmt(a) for a in t[3][:2])):
            # `log` macros: level tests are taken as "disabled"; the diagnostic branch has no effect on driver state
            return 0
        if fn in ('core::cmp::min', 'core::cmp::Ord::min'):
            return min(self.ev(a) for a in t[3])
        if fn in ('core::cmp::max', 'core::cmp::Ord::max'):
            return max(self.ev(a) for a in t[3])
        return self.leaf(t)


def fold_const(t):
    """Try to fold a term without leaves to an int."""
    def leaf(x):
        raise Unfoldable('leaf')
    try:
        return Folder(leaf).ev(t)
    except (Unfoldable, KeyError, TypeError, IndexError):
        return None


def path_holds(folder, path):
    """Do all branch conditions of `path` hold under the folder's valuation?"""
    for disc, (kind, vals), _ in path.conds:
        vals = tuple(vals)
        v = folder.ev(disc)
        if kind == 'in':
            if v not in vals:
                return False
        else:
            if v in vals:
                return False
    return True
