"""Runs one property's rule module over the fact files and produces evidence / verdict lines."""
import hashlib
import importlib
import json
import os
import random
import sys
import time
import traceback

from .core import Facts, Undecided

EXPLANATION = {}


class Report:
    """Collects obligations of one property on one configuration."""

    def __init__(self, pid, cfg):
        self.pid = pid
        self.cfg = cfg
        self.obs = []
        self.notes = []
        self.counts = {}
        self.tables = 0      # table rows folded / compared

    def _add(self, status, rule, instance, site, detail, extra=None):
        o = {'rule': '%s.%s' % (self.pid, rule), 'key': '%s:%s:%s' % (self.pid, rule, instance), 'status': status,
             'site': site, 'detail': detail, 'cfg': self.cfg}
        if extra:
            o.update(extra)
        self.obs.append(o)
        return o

    def held(self, rule, instance, site='', detail=''):
        return self._add('held', rule, instance, site, detail)

    def violated(self, rule, instance, site='', detail='', **extra):
        return self._add('violated', rule, instance, site, detail, extra)

    def check(self, cond, rule, instance, site='', detail='', bad_detail=None):
        if cond:
            return self.held(rule, instance, site, detail)
        return self.violated(rule, instance, site, bad_detail or detail)

    def abstain(self, rule, instance, why, site=''):
        return self._add('abstained', rule, instance, site, why)

    def note(self, msg):
        self.notes.append(msg)

    def count(self, name, n):
        self.counts[name] = self.counts.get(name, 0) + n

    def require(self, name, minimum, why=''):
        got = self.counts.get(name, 0)
        if got < minimum:
            raise Undecided('%s: anchor/instance count %s=%d below floor %d (%s) [cfg %s]' % (
                self.pid, name, got, minimum, why, self.cfg))


def run_property(pid, tier, seed, extract, cfgs, here, known, t0, verbose=False, facts_only=False):
    ev_dir = os.environ.get('VERIF_EVIDENCE_DIR') or os.path.join(here, 'evidence')
    os.makedirs(os.path.join(ev_dir, 'replay'), exist_ok=True)
    ev_path = os.path.join(ev_dir, '%s.json' % pid)
    try:
        os.remove(ev_path)
    except OSError:
        pass
    try:
        mod = importlib.import_module('vqlint.rules.%s' % pid)
    except ImportError as e:
        print('UNDECIDED property=%s reason=no rule module (%s)' % (pid, e))
        return 2
    reports = []
    stats = {}
    ran = []
    try:
        only = getattr(mod, 'CONFIGS', None)
        for cfg in cfgs:
            if only and cfg not in only and cfg != 'def':
                continue
            fp = extract(cfg)
            ran.append(cfg)
            if facts_only:
                print(fp)
                continue
            F = Facts(fp)
            F.cfg = cfg
            R = Report(pid, cfg)
            try:
                mod.run(F, R)
            except Undecided as e_:
                # an anchor of a later rule is missing: if rules that ran before it already report violations, those decide the
                # verdict (the missing anchor is usually the same edit); otherwise the check is undecided
                if not any(o['status'] == 'violated' for o in R.obs):
                    raise
                R.note('analysis stopped early (%s); violations found before that point are reported' % e_)
            floors = {} if os.environ.get('VERIF_NOFLOORS') else getattr(mod, 'FLOORS', {})
            has_violation = any(o['status'] == 'violated' for o in R.obs)
            for name, spec in floors.items():
                minimum = spec.get(cfg, spec.get('*')) if isinstance(spec, dict) else spec
                if minimum is not None:
                    if has_violation:
                        # a violation already decides the verdict; a count that dropped because of the same edit must not mask it
                        if R.counts.get(name, 0) < minimum:
                            R.note('instance count %s=%d is below its floor %d (not fatal: violations are reported)' % (name, R.counts.get(name, 0), minimum))
                    else:
                        R.require(name, minimum, 'frozen floor')
            reports.append(R)
            stats[cfg] = {'bodies': len(F.bodies), 'handwritten_bodies': sum(1 for b in F.bodies.values() if F.handwritten(b)),
                          'adts': len(F.adts), 'consts': len(F.consts)}
        if facts_only:
            return 0
        if tier == 'thorough' and hasattr(mod, 'thorough_extra'):
            R = Report(pid, 'extra')
            mod.thorough_extra(R, here)
            reports.append(R)
    except Undecided as e:
        print('UNDECIDED property=%s reason=%s' % (pid, e))
        _write_evidence(ev_path, pid, tier, seed, [], {}, t0, mod, undecided=str(e))
        return 2
    except RuntimeError as e:
        print('UNDECIDED property=%s reason=%s' % (pid, str(e).replace('\n', ' | ')[:1500]))
        return 2
    except Exception as e:  # internal error: fail closed, never a silent pass
        traceback.print_exc()
        print('UNDECIDED property=%s reason=internal error %s: %s' % (pid, type(e).__name__, e))
        return 2

    # merge obligations across configurations by key
    merged = {}
    for R in reports:
        for o in R.obs:
            m = merged.get(o['key'])
            if m is None:
                m = dict(o)
                m['cfgs'] = [o['cfg']]
                merged[o['key']] = m
            else:
                if o['cfg'] not in m['cfgs']:
                    m['cfgs'].append(o['cfg'])
                rank = {'violated': 3, 'abstained': 2, 'held': 1}
                if rank[o['status']] > rank[m['status']]:
                    keep = m['cfgs']
                    m.update(o)
                    m['cfgs'] = keep
    obs = list(merged.values())
    known_keys = {f['key']: f for f in known.get('findings', []) if f.get('property') == pid}
    viol = [o for o in obs if o['status'] == 'violated']
    unknown = [o for o in viol if o['key'] not in known_keys]
    rc = 0
    for R in reports:
        for n in R.notes:
            print('NOTE: [%s] %s' % (R.cfg, n))
    for o in obs:
        if o['status'] == 'abstained':
            print('NOTE: %s abstained at %s: %s' % (o['rule'], o['site'], o['detail']))
    for o in viol:
        if o['key'] in known_keys:
            print('KNOWN-FINDING: property=%s %s %s' % (pid, o['key'], known_keys[o['key']].get('what', o['detail'])))
    for o in unknown:
        h = hashlib.sha256(o['key'].encode()).hexdigest()[:12]
        rp = os.path.join(ev_dir, 'replay', '%s-%s.json' % (pid, h))
        with open(rp, 'w') as f:
            json.dump(o, f, indent=1)
        print('VIOLATION property=%s replay=%s' % (pid, rp))
        print('  rule=%s site=%s cfgs=%s' % (o['rule'], o['site'], ','.join(o['cfgs'])))
        print('  key=%s' % o['key'])
        print('  %s' % o['detail'])
        rc = 1
    counts = {}
    for R in reports:
        for k, v in R.counts.items():
            counts['%s/%s' % (R.cfg, k)] = v
    tables = sum(R.tables for R in reports)
    _write_evidence(ev_path, pid, tier, seed, obs, {'stats': stats, 'counts': counts, 'tables': tables,
                                                    'known': sorted(known_keys), 'unknown': len(unknown)}, t0, mod)
    nh = sum(1 for o in obs if o['status'] == 'held')
    print('%s: %d obligations, %d held, %d violated (%d known), %d abstained; cfgs=%s; %.1fs' % (
        pid, len(obs), nh, len(viol), len(viol) - len(unknown), sum(1 for o in obs if o['status'] == 'abstained'),
        ','.join(ran), time.time() - t0))
    if verbose:
        for o in sorted(obs, key=lambda o: o['key']):
            print('  [%s] %s @ %s :: %s' % (o['status'], o['key'], o['site'], o['detail'][:300]))
    nab = [o for o in obs if o['status'] == 'abstained']
    if rc == 0 and nab:
        # fail closed: an obligation the analysis could not decide is not a pass (no abstention exists on the reference tree)
        print('UNDECIDED property=%s reason=%d obligation(s) could not be decided: %s' % (pid, len(nab), '; '.join(o['key'] for o in nab[:4])))
        return 2
    return rc


def _write_evidence(path, pid, tier, seed, obs, info, t0, mod, undecided=None):
    rnd = random.Random(seed)
    held = [o for o in obs if o['status'] == 'held']
    viol = [o for o in obs if o['status'] == 'violated']
    samples = []
    pool = list(obs)
    rnd.shuffle(pool)
    for o in viol[:5] + pool[:8]:
        s = {k: o[k] for k in ('rule', 'key', 'status', 'site', 'detail', 'cfgs') if k in o}
        s['detail'] = s.get('detail', '')[:400]
        if s not in samples:
            samples.append(s)
    rules = sorted(set(o['rule'] for o in obs))
    ev = {
        'property_id': pid,
        'tier': tier if tier in ('quick', 'thorough') else 'quick',
        'seed': seed,
        'level': 'other',
        'coverage': {
            'explanation': getattr(mod, 'EXPLANATION', 'static rules over MIR facts'),
            'obligations': len(obs),
            'discharged': len(held),
            'evaluations': max(1, len(obs) + info.get('tables', 0)),
            'distinct_nontrivial': len(set(o['key'] for o in obs)),
            'rule': 'one obligation per (rule, instance) found in the extracted program; distinct by key; '
                    'non-trivial = the rule matched a concrete construct (site) and was evaluated on it',
            'rules_applied': rules,
            'table_rows_folded': info.get('tables', 0),
            'instance_counts': info.get('counts', {}),
            'configurations': info.get('stats', {}),
            'abstained': sum(1 for o in obs if o['status'] == 'abstained'),
            'known_findings_matched': info.get('known', []),
            'samples': samples or [{'note': 'no obligations (undecided)'}],
            'exhaustive': False,
        },
        'assumptions': getattr(mod, 'ASSUMPTIONS', []) + [
            'rustc nightly front end/MIR/layout agree with the stable compiler on this source',
            'unwind (panic) paths are not analysed',
            '#[cfg(test)] code is not part of the analysed crate',
        ],
        'wall_s': round(time.time() - t0, 2),
        'violations': len(viol) if not undecided else 0,
    }
    if undecided:
        ev['coverage']['undecided'] = undecided
    with open(path, 'w') as f:
        json.dump(ev, f, indent=1)
