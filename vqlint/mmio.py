"""MMIO register-access events (safe_mmio accessors) on enumerated paths, and trace comparison helpers."""
from .core import *
from .paths import *

ACC = {'read': 'R', 'read_unsafe': 'R', 'write': 'W', 'write_unsafe': 'W'}


def ptr_subterms(t):
    """Sub-terms along pointer derivations only: index operands of slice accessors are not followed."""
    st = [t]
    while st:
        x = st.pop()
        if not isinstance(x, tuple) or not x:
            continue
        if isinstance(x[0], str):
            yield x
            if x[0] == 'call' and (x[2].endswith('::get') or x[2].endswith('::get_mut') or x[2].endswith('::split_child')) and x[3]:
                st.append(x[3][0])
                continue
            rest = x[1:]
        else:
            rest = x
        for y in rest:
            if isinstance(y, tuple):
                st.append(y)


def mmio_event(e, adts):
    """For a path effect: (kind 'R'/'W', adt, field, value term or None, node) if it is a register access."""
    if e[0] != 'call' or 'safe_mmio::' not in e[2]:
        return None
    meth = e[2].rsplit('::', 1)[1]
    if meth not in ACC:
        return None
    recv = e[3][0] if e[3] else None
    cands = [recv]
    if len(e) > 5 and e[5] and e[5][0] is not None:
        cands.append(e[5][0])
    reg = None
    for c in cands:
        if c is None:
            continue
        for x in ptr_subterms(c):
            if x[0] == 'loc':
                for p in x[2]:
                    if p[0] == 'f' and len(p) > 2 and p[2] in adts:
                        reg = (p[2], p[1])
    if reg is None:
        return ('?', None, None, None, e[1]) if False else None
    val = e[3][1] if ACC[meth] == 'W' and len(e[3]) > 1 else None
    return (ACC[meth], reg[0], reg[1], val, e[1])


def field_offsets(F, adt):
    a = F.adts[adt]
    offs = a.get('layout', {}).get('offsets')
    fields = a['variants'][0]['fields']
    if not offs:
        return {}
    return {f['name']: (o, f['ty']) for f, o in zip(fields, offs)}


def access_class(ty):
    """Access directions a safe_mmio field wrapper type permits."""
    t = ty.replace('safe_mmio::fields::', '')
    if t.startswith('ReadPureWrite<') or t.startswith('ReadWrite<'):
        return 'RW'
    if t.startswith('ReadPure<') or t.startswith('ReadOnly<'):
        return 'R'
    if t.startswith('WriteOnly<'):
        return 'W'
    return None


def inner_ty(ty):
    if '<' in ty and ty.endswith('>'):
        return ty[ty.index('<') + 1:-1]
    return ty


class Tracer:
    """Evaluates the enumerated paths of one operation for a concrete valuation of its inputs."""

    def __init__(self, F, sg, adts, loop_unroll=0):
        self.F = F
        self.sg = sg
        self.adts = adts
        self.paths = PathEnum(sg, loop_unroll=loop_unroll).run()

    def run(self, params, fields=None, reads=None, generic=None):
        """params: {param index: int}; fields: {self field name: int (value or discriminant)};
        reads: list of values returned by successive register reads (by position on the path), or a function
        (adt, field, k) -> value.  Returns (events, ret, path) or raises Unfoldable / returns None if no path."""
        fields = fields or {}
        found = []
        for p in self.paths:
            if p.end and p.end[0] == 'loop':
                continue
            # register reads on this path, in order
            rd = {}
            k = 0
            for e in p.effects:
                ev = mmio_event(e, self.adts)
                if ev and ev[0] == 'R':
                    if callable(reads):
                        rd[e[1]] = reads(ev[1], ev[2], k)
                    else:
                        rd[e[1]] = reads[k] if reads and k < len(reads) else 0
                    k += 1

            def leaf(t, rd=rd):
                if t[0] == 'param':
                    if t[1] in params:
                        return params[t[1]]
                    raise Unfoldable('param %d' % t[1])
                if t[0] == 'call' and t[1] in rd:
                    return rd[t[1]]
                if t[0] in ('load0',) and t[1][2] and t[1][2][-1][0] == 'f' and t[1][2][-1][1] in fields:
                    return fields[t[1][2][-1][1]]
                if t[0] == 'discr' and t[1][0] == 'load0' and t[1][1][2] and t[1][1][2][-1][1] in fields:
                    return fields[t[1][1][2][-1][1]]
                if t[0] == 'field' and t[2] in ('0', 'bits'):
                    return leaf(t[1])
                raise Unfoldable(fmt(t)[:120])
            fo = Folder(leaf, generic=generic or {})
            try:
                if not path_holds(fo, p):
                    continue
            except Unfoldable:
                raise
            found.append((p, fo))
        if not found:
            return None
        p, fo = found[0]
        events = []
        for e in p.effects:
            ev = mmio_event(e, self.adts)
            if ev:
                v = None
                if ev[0] == 'W':
                    v = fo.ev(ev[3])
                events.append((ev[0], ev[2], v, ev[4]))
        ret = None
        if p.ret is not None and not p.panicked:
            try:
                ret = fo.ev(p.ret)
            except Unfoldable:
                ret = ('unfoldable', fmt(p.ret)[:100])
        return events, ret, p


def simulate(paths, classify, make_model, base_leaf, generic=None, skip_loop_paths=True):
    """Fold enumerated paths against a stateful environment model.

    classify(effect) -> None | ('R', key_terms) | ('W', key_terms, value_term): which effects are environment
    accesses; key/value terms are folded under the valuation built so far.  make_model() returns an object with
    read(*keys) -> int and write(*keys, value).  base_leaf(term) supplies the other inputs.
    Returns list of (path, model, folder, log) for every path all of whose conditions hold."""
    out = []
    for p in paths:
        if skip_loop_paths and p.end and p.end[0] == 'loop':
            continue
        model = make_model()
        rd = {}

        def leaf(t, rd=rd):
            if t[0] == 'call' and t[1] in rd:
                return rd[t[1]]
            return base_leaf(t)
        fo = Folder(leaf, generic=generic or {})
        log = []
        ok = True
        try:
            for e in p.effects:
                c = classify(e)
                if not c:
                    continue
                keys = tuple(fo.ev(k) for k in c[1])
                if c[0] == 'R':
                    v = model.read(*keys)
                    rd[e[1]] = v
                    log.append(('R', keys, v, e[1]))
                else:
                    v = fo.ev(c[2])
                    model.write(*(keys + (v,)))
                    log.append(('W', keys, v, e[1]))
            if not path_holds(fo, p):
                ok = False
        except Unfoldable:
            ok = False
        if ok:
            out.append((p, model, fo, log))
    return out
