"""C04 - share once / unshare once with matching arguments.

Decided:
 P1 who may call: Hal::share only on the submission super-graph (in the function whose result is stored into a
    descriptor addr - C01.F1); Hal::unshare only on the completion super-graph; dma_alloc only in the constructor of
    the RAII owner; dma_dealloc only in its Drop; mmio_phys_to_virt only under the PCI transport constructor.
 P2 device addresses have a pedigree: the addresses passed to Transport::queue_set derive from the RAII owner's
    physical-address field (the first component of the dma_alloc result) and never from its virtual address.
 P3 directions: only DriverToDevice / DeviceToDriver reach share and unshare; Both reaches only dma_alloc.
 P4 unshare mirrors share: the address operand is loaded from the trusted descriptor (shadow or indirect table, never
    the device table) *before* that descriptor is cleared; buffer and direction are the two halves of the same
    producer item over the caller's (inputs, outputs); the indirect table is unshared DriverToDevice with its bytes and
    freed only afterwards; the path that re-materialises the table always unshares it.
 P5 refused submissions share nothing (C03.E1).  P6 all unshares of a completion precede its Ok return.
 P7 driver-level token tables store each buffer under the token returned by its add (C16.S4).
 P8 buffers parked in driver state leave it only after a refusable pop_used succeeded.
 P9 one access-platform field feeds every share/unshare.  P10 the transports' queue_set write the three area addresses,
    each split into its own low/high words (C10.M2/C11.W3 traces).  P11 free-list relink rules (C03.E6).
 P12 a blocking driver loop returns Ok only after every request it shared was popped; in-flight bookkeeping is released only
    after the pop (C20.Z8 / C20.Z7).  P13 block completions present the lists of their submission (C14.K3/K4).
 P16 a blocking helper pops the token its own add returned (= C03.E8).  P17 a completion is consumed only together with the
     release of its chain; a refused poll advances nothing (= C03.E1 / E2).
Not decided: exactly once per buffer over a history (rests on the free-list invariant).
"""
from .common import *
from . import C05

EXPLANATION = ("Who-may-call sets are computed from resolved callees over the whole crate; operand provenance of every "
               "Hal::share/unshare/queue_set call is recovered symbolically on the inlined submission/completion graphs; the "
               "read-before-clear order of descriptor addresses is decided on the loop-free (back-edge-removed) graph.")
FLOORS = {'share_fns': 1, 'unshare_sites': 1, 'dma_alloc_sites': 1, 'dma_dealloc_sites': 1, 'queue_set_addr_args': 3}


def fns_calling(F, trait, method):
    out = []
    for b in F.bodies.values():
        if b.get('derived'):
            continue
        for bl in b['blocks']:
            t = bl['term']
            if t['k'] == 'call' and t.get('trait') == trait and t.get('method') == method:
                out.append(b['id'])
    return out


def run(F, R):
    M = model(F)
    M.require_rings()
    api = C05.queue_api(F, M)
    roles = C05.classify_api(api)
    by = {}
    for k, v in roles.items():
        by.setdefault(v, []).append(k)
    add_id, pop_id = by['add'][0], by['pop_used'][0]
    sga, sgp = supergraph(F, add_id), supergraph(F, pop_id)
    add_fns = set(c.fn['id'] for c in sga.ctxs)
    pop_fns = set(c.fn['id'] for c in sgp.ctxs)
    # P1
    sh = fns_calling(F, HAL, 'share')
    un = fns_calling(F, HAL, 'unshare')
    R.count('share_fns', len(set(sh)))
    R.count('unshare_sites', len(un))
    R.check(set(sh) <= add_fns and sh, 'P1', 'who-may-call:share', '', 'share called only in %s' % sorted(set(sh)),
            'Hal::share is called outside the submission path: %s' % sorted(set(sh) - add_fns))
    R.check(set(un) <= pop_fns and un, 'P1', 'who-may-call:unshare', '', 'unshare called only in %s' % sorted(set(un)),
            'Hal::unshare is called outside the completion path: %s' % sorted(set(un) - pop_fns))
    da = fns_calling(F, HAL, 'dma_alloc')
    dd = fns_calling(F, HAL, 'dma_dealloc')
    R.count('dma_alloc_sites', len(da))
    R.count('dma_dealloc_sites', len(dd))
    ok_da = all(F.bodies[f].get('impl_adt') == M.dma_adt and 'impl_trait' not in F.bodies[f] for f in da) and da
    ok_dd = all(F.bodies[f].get('impl_adt') == M.dma_adt and F.bodies[f].get('impl_trait') == 'core::ops::Drop' for f in dd) and dd
    R.check(ok_da, 'P1', 'who-may-call:dma_alloc', '', 'dma_alloc only in %s' % da, 'dma_alloc outside the RAII owner constructor: %s' % da)
    R.check(ok_dd, 'P1', 'who-may-call:dma_dealloc', '', 'dma_dealloc only in %s' % dd, 'dma_dealloc outside the RAII owner Drop: %s' % dd)
    pv = fns_calling(F, HAL, 'mmio_phys_to_virt')
    tr_ctors = set()
    for b in F.bodies.values():
        if b['kind'] == 'AssocFn' and F.handwritten(b) and b.get('impl_adt') and any(
                im.get('adt') == b['impl_adt'] and im.get('trait') == TRANSPORT for im in F.impls) and 'impl_trait' not in b:
            sg = supergraph(F, b['id'], tag='deep')
            if any(n.d.get('method') == 'mmio_phys_to_virt' for n in hal_calls(sg)):
                tr_ctors.add(b['id'])
    R.check(len(pv) >= 1 and tr_ctors, 'P1', 'who-may-call:mmio_phys_to_virt', '', 'phys_to_virt in %s reached from %s' % (pv, sorted(tr_ctors)),
            'mmio_phys_to_virt is not confined to a transport constructor: callers %s' % pv)
    # P2
    p2_queue_set(F, R, M)
    # P3
    p3_directions(F, R, M, sga, 'share')
    p3_directions(F, R, M, sgp, 'unshare')
    for f in set(da):
        sg = supergraph(F, f)
    # P4
    p4_unshare(F, R, M, sgp, pop_id)
    # P5 a refused submission shares nothing, and exactly the submissions that cannot fit are refused
    from .C03 import e3_capacity
    e3_capacity(F, R, M, add_id, rule='P5', rule1='P5')
    # P7 driver-level token tables: the unshare at completion receives the buffer that was shared under that token only
    # if a driver that looks buffers up by token stores each buffer under the token returned by the add that submitted
    # it (shared with C16.S4; the buffered network driver is the only such table outside the queue module)
    p8_release_after_completion(F, R, M)
    p9_platform_flag(F, R, M)
    # P11: a descriptor (and the device address stored in it) belongs to one outstanding buffer at a time, so each unshare
    # receives the address of its own share: free-list relink rules (shared with C03.E6)
    from .C03 import e6_relink
    e6_relink(F, R, M, pop_id, rule='P11')
    # P10: the device is given exactly the addresses obtained from DMA allocation: the transports' queue_set write the
    # three area addresses they receive - each 64-bit address split into its own low/high words - and nothing else
    # (register traces shared with C10.M2 / C11.W3)
    transport_registration_rule(F, R, 'P10')
    # P12: every request a blocking driver loop shared is also popped (and so unshared) before it returns success, and
    # in-flight bookkeeping is released only after the pop (C20.Z8 / C20.Z7)
    from .C20 import z7_release_after_pop, z8_pcm_complete
    from . import C05 as _c5
    _roles = _c5.classify_api(_c5.queue_api(F, M))
    z8_pcm_complete(F, R, M, _roles, rule='P12')
    z7_release_after_pop(F, RuleProxy(R, {'Z7': 'P12'}), M, _roles)
    # P16: a blocking helper unshares its buffers against its own chain: the token it pops is the one its add returned, never
    # whatever the used ring shows next (another request's device addresses would be paired with these buffers) - C03.E8
    from .C03 import e8_helper_token
    guard(R, 'P16', 'helper-token', lambda: e8_helper_token(F, R, M, _roles, rule='P16'))
    # P17: a completion is consumed only together with the release (unshare, copy-back) of its chain: a poll refused with a wrong
    # token or nothing ready advances nothing (C03.E1 / E2)
    from .C03 import pop_rule
    pop_rule(F, R, 'P17')
    # P20: the areas the device is told about lie inside the DMA memory allocated for them, for every queue size (C06.L2)
    from .C06 import registration_rule as _reg
    _reg(F, RuleProxy(R, {'L2': 'P20', 'L3': 'P20'}, only=lambda inst: inst.endswith(':areas')), 'L2')
    # P21: a driver that pops and re-posts its own buffers shares the slot it unshared - the same object - so that the later unshare gets
    # the address of its own share (C19.Q1 / Q2)
    from .C19 import pop_readd_rule
    pop_readd_rule(F, R, 'P21')
    # P18: unshare only for a matched completion (C03.E15); P19: descriptor flags written fresh on every reuse, so the release path
    # takes the branch of the chain actually submitted (C01.F1)
    from .C03 import release_rule
    release_rule(F, R, 'P18')
    # P22: nothing is shared by a refused submission: a token-returning submitter reports no error once its add succeeded - every
    # check that can refuse the request precedes the add (C09.R11)
    from .C09 import r11_no_error_after_add
    guard(R, 'P22', 'no-error-after-add', lambda: r11_no_error_after_add(F, RuleProxy(R, {'R11': 'P22'}), M, roles))
    from .C01 import share_fn_rule
    guard(R, 'P19', 'share-fn', lambda: share_fn_rule(F, R, 'P19'))
    p14_pinned_buffers(F, R, M, _roles)
    p15_owned_buffers_parked(F, R, M, _roles)
    # P13: a buffer is unshared in the direction it was shared in: the block driver's completion calls present the same
    # readable / writable lists to pop_used as the submission gave to add (C14.K3 shapes, K4 submission~completion siblings)
    from . import C14 as _c14
    if _c14.DRV in F.adts:
        _ops = _c14.k2_k3_ops(F, RuleProxy(R, {'K3': 'P13'}, only=lambda inst: inst.endswith(':shape')), M, _roles)
        _c14.k4_siblings(F, RuleProxy(R, {'K4': 'P13'}, only=lambda inst: '~' in inst), _ops)
    from .C16 import s4_custody
    s4_custody(F, R, M, _c5.classify_api(_c5.queue_api(F, M)), rule='P7', only=('receive', 'recycle_rx_buffer'))


def p14_pinned_buffers(F, R, M, roles):
    """A driver-owned buffer that stays posted after the posting method returns must not move with the driver value: the
    address given to share is the address later given to unshare only if the buffer lives behind a pointer (Box, Vec, DMA
    region, leaked allocation).  A field that is an inline array of plain data and is handed to `add` (not to the blocking
    add-wait-pop helper) is shared at one address and - once the driver value has been moved, e.g. returned from `new` -
    unshared at another."""
    n = 0
    for name, a in F.adts.items():
        if a['kind'] != 'struct' or name in (M.queue_adt, M.dma_adt):
            continue
        fields = {f['name']: f['ty'] for f in a['variants'][0]['fields']}
        if not any(M.queue_adt in f['mentions'] or (M.owning_adt and M.owning_adt in f['mentions']) for f in a['variants'][0]['fields']):
            continue
        posted = {}
        for b in F.bodies.values():
            if b.get('impl_adt') != name or not F.handwritten(b) or b['kind'] != 'AssocFn':
                continue
            if not any(bl['term']['k'] == 'call' and roles.get(bl['term'].get('fn')) == 'add' for bl in b['blocks']):
                continue
            sg = supergraph(F, b['id'], tag='flat', max_depth=0)
            S = sg.sym
            for c in sg.calls(lambda d: roles.get(d.get('fn')) == 'add'):
                for a_ in c.d['args'][1:3]:
                    for x in deep_subterms(S, S.operand(c.id, a_)):
                        if x[0] == 'loc' and x[1][0] == 'deref' and strip_ptr(x[1][1]) == ('param', 1) and x[2] and x[2][0][0] == 'f' and len(x[2][0]) > 2 and x[2][0][2] == name:
                            posted.setdefault(x[2][0][1], site(sg, c))
        if not posted:
            continue
        n += 1
        for f, where in sorted(posted.items()):
            ty = fields.get(f, '')
            inline = ty.startswith('[') and not any(k in ty for k in ('NonNull', 'Box<', '*mut', '*const', '&'))
            R.check(not inline, 'P14', '%s.%s:posted-buffer-is-pinned' % (name, f), where, 'posted field `%s: %s` lives behind a pointer' % (f, ty[:50]),
                    'field `%s: %s` of %s is handed to the queue in place: the buffer is part of the driver value, so moving the driver (returning it from the '
                    'constructor, boxing it) while the request is outstanding makes unshare see a different address range than share did' % (f, ty[:50], name.rsplit('::', 1)[1]))
    R.count('posting_drivers', n)


def p15_owned_buffers_parked(F, R, M, roles):
    """A buffer the method itself allocated (a Vec / Box local) and posted with the non-blocking `add` must outlive the method:
    on every successful path it is moved into the driver's state (inserted / pushed / assigned to a field of self) - otherwise it
    is freed at the end of the method while the device still owns it and can never be unshared with the range it was shared with."""
    n = 0
    for b in F.bodies.values():
        if not F.handwritten(b) or b['kind'] != 'AssocFn' or b.get('impl_adt') in (M.queue_adt, M.owning_adt) or not b.get('impl_adt'):
            continue
        if not any(bl['term']['k'] == 'call' and roles.get(bl['term'].get('fn')) == 'add' for bl in b['blocks']):
            continue
        sg = supergraph(F, b['id'], tag='flat', max_depth=0)
        S = sg.sym
        fn = sg.entry_fn
        oks = [x.id for x in sg.nodes if x.kind == 'assign' and not x.d['place']['p'] and x.d['place']['l'] == 0 and x.d['rv']['rv'] == 'agg' and x.d['rv'].get('variant') == 'Ok']
        for a in sg.calls(lambda d: roles.get(d.get('fn')) == 'add'):
            owned = set()
            for arg in a.d['args'][1:3]:
                for x in deep_subterms(S, S.operand(a.id, arg), depth=8):
                    if x[0] == 'loc' and x[1][0] == 'local' and x[1][1] == 0 and x[1][2] > fn['arg_count']:
                        ty = fn['locals'][x[1][2]]['ty']
                        if (ty.startswith('alloc::vec::Vec<') or ty.startswith('alloc::boxed::Box<')) and fn['locals'][x[1][2]].get('name'):
                            owned.add(x[1][2])
            # ... and allocations whose value Sym has propagated into the operand (`let rsp = T::new_box_zeroed()?; add(.., rsp.as_mut_bytes())`)
            op_calls = set()
            for arg in a.d['args'][1:3]:
                op_calls |= set(x[1] for x in deep_subterms(S, S.operand(a.id, arg), depth=8) if x[0] == 'call' and isinstance(x[1], int))
            for l_, ld in enumerate(fn['locals']):
                if l_ <= fn['arg_count'] or not ld.get('name') or not (ld['ty'].startswith('alloc::vec::Vec<') or ld['ty'].startswith('alloc::boxed::Box<')):
                    continue
                v_ = S.operand(a.id, {'copy': {'l': l_, 'p': []}})
                if any(x[0] == 'call' and x[1] in op_calls and ('alloc' in x[2] or 'new_box' in x[2] or 'Box' in x[2] or 'vec' in x[2]) for x in subterms(v_)):
                    owned.add(l_)
            for l in sorted(owned):
                n += 1
                parked = []
                # temporaries the value is moved through (`_t = move buf; Struct { field: move _t }`)
                alias = {l}
                for _ in range(3):
                    for m in sg.nodes:
                        if m.kind == 'assign' and m.d['rv']['rv'] == 'use' and not m.d['place']['p']:
                            mv = m.d['rv']['op'].get('move')
                            if mv and mv['l'] in alias and not mv['p']:
                                alias.add(m.d['place']['l'])
                for m in sg.nodes:
                    ops = []
                    if m.kind == 'call' and m.inl is None:
                        ops = m.d['args']
                    elif m.kind == 'assign' and m.d['rv']['rv'] in ('use', 'agg'):
                        ops = [m.d['rv']['op']] if m.d['rv']['rv'] == 'use' else m.d['rv']['ops']
                    if not any(o.get('move') and o['move']['l'] in alias and not o['move']['p'] for o in ops if isinstance(o, dict)):
                        continue
                    if m.kind == 'assign' and m.d['rv']['rv'] == 'use' and not m.d['place']['p']:
                        continue      # the move into a temporary itself
                    # moved into something rooted at self?
                    tgt = None
                    if m.kind == 'call' and m.d['args']:
                        tgt = S.operand(m.id, m.d['args'][0])
                    elif m.kind == 'assign':
                        tgt = ('ref', S.place_loc(m.id, m.d['place']))
                        if m.d['rv']['rv'] == 'agg' and m.d['rv'].get('adt') == b.get('impl_adt'):
                            parked.append(m.id)      # a constructor moves it into the driver value it returns
                            continue
                    if tgt is not None and any(x[0] == 'loc' and x[1][0] == 'deref' and strip_ptr(x[1][1]) == ('param', 1) for x in deep_subterms(S, tgt)):
                        parked.append(m.id)
                ok = bool(parked) and all(sg.always_before(parked, o) for o in oks if a.id in sg.reach_bwd([o]))
                R.check(ok, 'P15', '%s:%s:owned-buffer-parked' % (b['id'], fn['locals'][l].get('name')), site(sg, a),
                        'the posted allocation `%s` is moved into the driver state on every successful path' % fn['locals'][l].get('name'),
                        '`%s` (%s) is posted to the queue with the non-blocking add but is not kept in the driver state on every successful path: it is freed when %s '
                        'returns, while the device still uses it' % (fn['locals'][l].get('name'), fn['locals'][l]['ty'][:40], b['name']))
    R.count('owned_posted_buffers', n)


def dma_field_roles(F, M):
    """(paddr_field, vaddr_field) of the RAII owner from its constructor aggregate."""
    for b in F.bodies.values():
        if b.get('impl_adt') != M.dma_adt or 'impl_trait' in b:
            continue
        sg = supergraph(F, b['id'])
        S = sg.sym
        for n in sg.nodes:
            if n.kind == 'assign' and n.d['rv']['rv'] == 'agg' and n.d['rv'].get('adt') == M.dma_adt:
                rv = n.d['rv']
                pf = vf = None
                for fname, op in zip(rv['fields'], rv['ops']):
                    t = S.operand(n.id, op)
                    if t[0] == 'field' and t[1][0] == 'call' and t[1][2] == 'hal::Hal::dma_alloc':
                        if t[2] == '0':
                            pf = fname
                        elif t[2] == '1':
                            vf = fname
                if pf and vf:
                    return pf, vf
    return None, None


def p2_queue_set(F, R, M):
    pf, vf = dma_field_roles(F, M)
    if not pf:
        raise Undecided('cannot identify the physical/virtual address fields of the DMA owner')
    ctors = [b for b in queue_entry_points(F, M) if b.get('sig', '').find('-> core::result::Result<%s<' % M.queue_adt) >= 0]
    for b in ctors:
        sg = supergraph(F, b['id'])
        S = sg.sym
        for n in transport_calls(sg, 'queue_set'):
            for i in (3, 4, 5):
                t = S.operand(n.id, n.d['args'][i])
                R.count('queue_set_addr_args', 1)
                fp = derives_from(t, lambda x: x[0] == 'load' and x[1][2] and x[1][2][-1][0] == 'f' and x[1][2][-1][1] == pf and x[1][2][-1][2] == M.dma_adt)
                fv = derives_from(t, lambda x: x[0] == 'load' and x[1][2] and x[1][2][-1][0] == 'f' and x[1][2][-1][1] == vf and x[1][2][-1][2] == M.dma_adt)
                ptr2int = derives_from(t, lambda x: x[0] == 'cast' and 'Expose' in x[1])
                R.check(fp and not fv and not ptr2int, 'P2', '%s:queue_set:arg%d' % (b['id'], i), site(sg, n),
                        'address derives from the DMA owner\'s physical address',
                        'address passed to Transport::queue_set does not come (only) from a DMA physical address: %s' % fmt(t))


def p3_directions(F, R, M, sg, method):
    S = sg.sym
    for n in hal_calls(sg, method):
        di = 1 if method == 'share' else 2
        t = S.operand(n.id, n.d['args'][di])
        dirs = set(x[1].rsplit('::', 1)[1] for x in subterms(t) if x[0] == 'agg' and x[1].startswith('hal::BufferDirection::'))
        if not dirs:
            # item of a std iterator adapter wrapped around the crate's own producer: use the producer's directions
            for x in subterms(t):
                if x[0] == 'call' and x[2] == 'core::iter::Iterator::next':
                    d = sg.nodes[x[1]].d
                    for b in F.bodies.values():
                        if b.get('impl_trait') == 'core::iter::Iterator' and b['name'] == 'next' and F.handwritten(b) and \
                                b.get('impl_adt') and b['impl_adt'] in ' '.join(d.get('substs', []) + [d.get('self_ty', '')]):
                            for bl in b['blocks']:
                                for st in bl['stmts']:
                                    if st['k'] == 'assign' and st['rv']['rv'] == 'agg' and st['rv'].get('adt') == 'hal::BufferDirection':
                                        dirs.add(st['rv']['variant'])
        ctx = sg.ctx_chain(n)
        R.check(dirs and dirs <= {'DriverToDevice', 'DeviceToDriver'}, 'P3', '%s:%s:%s' % (sg.entry_fn['id'], method, ctx[-2] if len(ctx) > 1 else ctx[-1]),
                site(sg, n), 'directions reaching %s: %s' % (method, sorted(dirs)),
                'direction reaching Hal::%s is not one of DriverToDevice/DeviceToDriver: %s (%s)' % (method, sorted(dirs), fmt(t)[:200]))


def p4_unshare(F, R, M, sg, pop_id):
    S = sg.sym
    live = sg.live_nodes()
    be = back_edges(sg)
    addr_f = M.desc_field_by_role['addr']
    # zeroing stores of a trusted descriptor addr
    zero = []
    for n in sg.nodes:
        if n.kind == 'assign' and n.d['place']['p']:
            loc = S.place_loc(n.id, n.d['place'])
            if loc[2] and loc[2][-1][0] == 'f' and loc[2][-1][1] == addr_f and loc[2][-1][2] == M.desc_adt:
                v = S.rvalue(n.id, n.d['rv'])
                if const_int(v) == 0:
                    zero.append((n.id, loc))
    from_raws = [n for n in sg.calls(lambda d: d.get('fn', '').endswith('::from_raw') and 'Box' in d.get('fn', ''))]
    table_unshares = []
    for n in hal_calls(sg, 'unshare'):
        if n.id not in live:
            continue
        ctx = sg.ctx_chain(n)
        args = [S.operand(n.id, a) for a in n.d['args']]
        addr, buf, dirn = args[0], args[1], args[2]
        is_table = dirn[0] == 'agg'
        inst = '%s:unshare:%s' % (pop_id, 'table' if is_table else ('itable-elem' if derives_from(addr, lambda x: x[0] == 'load' and (M.loc_area(x[1]) or '').startswith('itable')) else 'direct-elem'))
        # (a) address from a trusted descriptor
        srcs = [x for x in subterms(addr) if x[0] == 'load' and x[1][2] and x[1][2][-1][0] == 'f' and x[1][2][-1][1] == addr_f and x[1][2][-1][2] == M.desc_adt]
        dev = [x for x in srcs if (M.loc_area(x[1]) or '').startswith('desc')]
        R.check(bool(srcs) and not dev, 'P4', inst + ':addr-source', site(sg, n),
                'address operand = %s' % fmt(addr),
                'unshare address does not come from the trusted copy of the descriptor (device table / other source): %s' % fmt(addr))
        # (b) loaded before it is cleared: find the MIR node that loads it
        ld_nodes = []
        for m in sg.nodes:
            if m.kind == 'assign' and m.d['rv']['rv'] == 'use':
                op = m.d['rv']['op']
                pl = op.get('copy') or op.get('move')
                if pl and pl['p']:
                    l2 = S.place_loc(m.id, pl)
                    if any(l2 == x[1] for x in srcs) and m.ctx == n.ctx:
                        ld_nodes.append(m.id)
        for ln in ld_nodes:
            fwd_edges = be
            bad = None
            def shape(loc):
                return (loc[1], tuple(pp[:2] if pp[0] == 'f' else pp[0] for pp in loc[2]))
            for zn, zloc in zero:
                if any(shape(zloc) == shape(x[1]) for x in srcs):
                    r = sg.reach_fwd(sg.nodes[zn].succ, avoid_edges=fwd_edges)
                    if ln in r:
                        bad = zn
            R.check(bad is None, 'P4', inst + ':read-before-clear', site(sg, ln),
                    'descriptor addr is read before the descriptor is cleared',
                    'descriptor addr is read at %s after it was cleared at %s (unshare would receive 0)' % (site(sg, ln), site(sg, bad) if bad else ''))
        if is_table:
            table_unshares.append(n)
            dn = dirn[1].rsplit('::', 1)[1]
            il = M.qf.get('indirect_lists')
            from_box = derives_from(buf, lambda x: x[0] == 'loc' and any(pp[0] == 'f' and pp[1] == il and pp[2] == M.queue_adt for pp in x[2]))
            R.check(dn == 'DriverToDevice' and from_box, 'P4', inst + ':table-args', site(sg, n),
                    'table unshared DriverToDevice with the re-materialised table bytes',
                    'indirect table must be unshared with DriverToDevice and its own bytes: dir=%s buf=%s' % (dn, fmt(buf)))
        else:
            def base(t):
                while t[0] in ('conv', 'idcall'):
                    t = t[2]
                if t[0] == 'field':
                    return t[1], t[2]
                return t, None
            b0, bf = base(buf)
            d0, df = base(dirn)
            R.check(b0 == d0 and bf is not None and df is not None and bf != df, 'P4', inst + ':item-pairing', site(sg, n),
                    'buffer and direction are the two halves of one producer item',
                    'unshare buffer and direction do not come from the same (buffer, direction) item: buf=%s dir=%s' % (fmt(buf)[:150], fmt(dirn)[:150]))
    # table re-materialisation always unshares and frees afterwards
    for fr in from_raws:
        if fr.id not in live:
            continue
        tu = [n.id for n in table_unshares]
        R.check(bool(tu) and sg.always_after(fr.id, tu), 'P4', '%s:table-always-unshared' % pop_id, site(sg, fr),
                'every path from re-materialising the indirect table unshares it',
                'a path re-materialises (and frees) the indirect table without unsharing it')
        drops = [n.id for n in sg.nodes if n.kind == 'drop' and 'Box<[' in n.d.get('ty', '') and M.desc_adt in n.d.get('ty', '')]
        early = [dnode for dnode in drops if any(t in sg.reach_fwd(sg.nodes[dnode].succ, avoid_edges=be) for t in tu)]
        R.check(not early, 'P4', '%s:table-freed-after-unshare' % pop_id, site(sg, fr), 'table box dropped only after its unshare',
                'the indirect table is freed before it is unshared')
    # P6
    oks = [n for n in sg.nodes if n.ctx == 0 and n.kind == 'assign' and not n.d['place']['p'] and n.d['place']['l'] == 0
           and n.d['rv']['rv'] == 'agg' and n.d['rv'].get('variant') == 'Ok' and n.id in live]
    for o in oks:
        after = sg.reach_fwd(sg.nodes[o.id].succ)
        late = [n for n in hal_calls(sg, 'unshare') if n.id in after]
        R.check(not late, 'P6', '%s:unshare-before-ok' % pop_id, site(sg, o), 'all unshares precede the Ok return', 'an unshare happens after the Ok value is produced')


def p8_release_after_completion(F, R, M):
    """P8: a driver-owned buffer parked in driver state while it is shared with the device leaves that state only after
    the completion was consumed: where pop_used can refuse (token supplied by the caller, not read from the used ring),
    its buffer operands must not have been moved out of `self` (remove/take/pop/replace) beforehand - on the refusal
    path the moved-out buffer would be dropped while still shared and never unshared."""
    from . import C05
    roles = C05.classify_api(C05.queue_api(F, M))
    pops = set(k for k, v in roles.items() if v == 'pop_used')
    peeks = set(k for k, v in roles.items() if v == 'peek_used')
    CONSUME = ('::remove', '::take', '::pop', '::swap_remove', '::pop_first', '::pop_last', '::remove_entry')
    n = 0
    for b in F.bodies.values():
        if not F.handwritten(b) or b.get('impl_adt') == M.queue_adt:
            continue
        if not any(bl['term']['k'] == 'call' and bl['term'].get('fn') in pops for bl in b['blocks']):
            continue
        sg = supergraph(F, b['id'], tag='flat', max_depth=0)
        S = sg.sym
        for c in sg.calls(lambda d: d.get('fn') in pops):
            tok = S.operand(c.id, c.d['args'][1])
            if derives_from(tok, lambda x: x[0] == 'call' and x[2] in peeks):
                continue     # head of the used ring: the pop cannot refuse
            n += 1
            bad = None
            for ai in (2, 3):
                t = S.operand(c.id, c.d['args'][ai])
                for e in [t] + (array_elems(S, t) or []):
                    for x in deep_subterms(S, e, depth=6):
                        if x[0] == 'call' and (x[2].endswith(CONSUME) or x[2] in ('core::mem::take', 'core::mem::replace')) and x[3] and \
                                derives_from(x[3][0], lambda y: y == ('param', 1)) and x[1] in sg.reach_bwd([c.id]):
                            bad = '%s (line %s)' % (x[2].rsplit('::', 2)[-2] + '::' + x[2].rsplit('::', 1)[-1], sg.nodes[x[1]].line)
            R.check(bad is None, 'P8', '%s:buffers-stay-parked-until-popped' % b['id'], site(sg, c),
                    'buffers handed to a refusable pop_used are still owned by driver state',
                    'a buffer handed to pop_used was moved out of driver state by %s before the pop; if the pop refuses (NotReady / WrongToken) the buffer '
                    'is dropped while the device still holds its shared address and it is never unshared' % bad)
    R.count('refusable_pop_sites', n)


def p9_platform_flag(F, R, M, rule='P9'):
    """P9: share and unshare agree on the platform-access mode: every Hal::share / Hal::unshare reached from the
    submission and completion entry points receives, as its access-platform argument, the value of one and the same
    private queue field (never another boolean of the queue), so a buffer is unshared in the mode it was shared in and
    the device address handed out is the one valid for the negotiated mode."""
    from . import C05
    roles = C05.classify_api(C05.queue_api(F, M))
    by = {}
    for k, v in roles.items():
        by.setdefault(v, []).append(k)
    seen = {}
    nsites = 0
    for role in ('add', 'pop_used'):
        for fid in by.get(role, [])[:1]:
            sg = supergraph(F, fid)
            S = sg.sym
            for n in hal_calls(sg):
                if n.d.get('method') not in ('share', 'unshare'):
                    continue
                nsites += 1
                t = strip_conv(S.operand(n.id, n.d['args'][-1]))
                flds = sorted(set(x[1][2][-1][1] for x in subterms(t) if x[0] in ('load', 'load0') and x[1][2] and x[1][2][-1][0] == 'f' and x[1][2][-1][2] == M.queue_adt))
                key = tuple(flds) if flds and t[0] in ('load', 'load0') else ('<%s>' % fmt(t)[:40],)
                seen.setdefault(key, []).append((n.d['method'], site(sg, n)))
    R.count('platform_flag_sites', nsites)
    ok = len(seen) == 1 and all(len(k) == 1 and not k[0].startswith('<') for k in seen)
    R.check(ok, rule, 'access-platform-argument', '', 'all %d share/unshare calls pass queue field `%s`' % (nsites, list(seen)[0][0] if seen else '?'),
            'share/unshare calls do not all pass the same queue field as the access-platform argument: %s' % {
                ','.join(k): ['%s @ %s' % v for v in vs][:3] for k, vs in seen.items()})
