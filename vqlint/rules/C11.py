"""C11 - the PCI transport only uses capability windows that lie inside memory BARs.

Decided:
 W1 window admission: the function that turns a capability into a pointer (the one calling mmio_phys_to_virt) is
    path-enumerated and folded over a table of (BAR kind, BAR address, BAR size, capability offset, length, size_of T,
    mapping alignment) including offsets/lengths near 2^32: it returns Ok iff the BAR is an allocated memory BAR,
    offset+length <= BAR size (exact arithmetic, no wrap, no panic) and size_of T <= length and the mapping is aligned;
    mmio_phys_to_virt is only reached on admitted inputs and receives (BAR address + offset, length).
 W2 capability scan: each window variable assigned in the capability loop is assigned only under its first-match guard
    (is_none of itself), for the right cfg_type, vendor capability id 0x09 and cap_len >= 16 (>= 20 for notify, which
    also guards the multiplier); fields are read at capability offsets +4/+8/+12/+16; capabilities with a reserved BAR
    value (> 5) are ignored; an odd multiplier is refused.
 W3 common-configuration layout (VirtIO 1.2 4.1.4.3) and per-operation traces of `impl Transport for PciTransport`:
    queue_select first, queue_enable = 1 last, notify at queue_notify_off * multiplier / 2 through a checked get, ISR read,
    generation read, Drop = reset and wait.
 W7 BAR premise: the kind, address and size that window admission compares against come from BAR probing; the probing
    tables of C12.B1/B2 are run under this rule id (a BAR reported larger than it is admits windows outside it).
 W4 nothing else is dereferenced: every UniqueMmioPointer::new in the transport constructor is fed by a W1 result.
 W5 typed slice windows never extend past the capability length (C13.G5).  W6 config-space accessors admit an access
    only inside the device-config window (C13.G1 table).
 W8 the capability list starts at the capabilities pointer with its reserved low bits cleared (= C12.B4 list start).
Not decided: the HAL's mmio_phys_to_virt mapping itself.
"""
from .common import *
from ..paths import *
from ..mmio import *

EXPLANATION = ("Window admission and the per-operation register traces are extracted as guarded expressions / traces from MIR and "
               "folded over enumerated tables (including 32-bit boundary values); the capability scan is checked with control-"
               "dependence (guard) queries on the constructor's loop body with each guard's discriminant folded over its domain.")
FLOORS = {'capability_info_sites': 1, 'admission_rows': 300, 'scan_assignments': 3, 'common_cfg_fields': 16, 'operations': 10}

COMMON = {0: ('device_feature_select', 4, 'RW'), 4: ('device_feature', 4, 'R'), 8: ('driver_feature_select', 4, 'RW'),
          12: ('driver_feature', 4, 'RW'), 16: ('msix_config', 2, 'RW'), 18: ('num_queues', 2, 'R'), 20: ('device_status', 1, 'RW'),
          21: ('config_generation', 1, 'R'), 22: ('queue_select', 2, 'RW'), 24: ('queue_size', 2, 'RW'), 26: ('queue_msix_vector', 2, 'RW'),
          28: ('queue_enable', 2, 'RW'), 30: ('queue_notify_off', 2, 'R'), 32: ('queue_desc', 8, 'RW'), 40: ('queue_driver', 8, 'RW'),
          48: ('queue_device', 8, 'RW')}
CFGACC = 'transport::pci::bus::ConfigurationAccess'


def find_pci(F):
    for im in F.impls:
        if im.get('trait') == TRANSPORT and im.get('adt') in F.adts and F.adts[im['adt']]['kind'] == 'struct':
            adt = im['adt']
            for f in F.adts[adt]['variants'][0]['fields']:
                for m in f['mentions']:
                    a = F.adts.get(m)
                    if a and a['repr']['c'] and a.get('layout', {}).get('size') == 56 and len(a['variants'][0]['fields']) == 16:
                        return adt, m, im
    # fall back: struct with >=12 safe_mmio fields that is not 0x100 bytes
    for im in F.impls:
        if im.get('trait') == TRANSPORT and im.get('adt') in F.adts and F.adts[im['adt']]['kind'] == 'struct':
            adt = im['adt']
            for f in F.adts[adt]['variants'][0]['fields']:
                for m in f['mentions']:
                    a = F.adts.get(m)
                    if a and a['repr']['c'] and 10 <= sum(1 for ff in a['variants'][0]['fields'] if ff['ty'].startswith('safe_mmio::fields::')) < 20:
                        return adt, m, im
    return None, None, None


def run(F, R):
    tadt, cadt, im = find_pci(F)
    if not tadt:
        raise Undecided('PCI transport / common configuration struct not found')
    w3_layout(F, R, cadt)
    w3_traces(F, R, tadt, cadt, im)
    w1_admission(F, R)
    w2_scan(F, R, tadt)
    # W5: a typed slice window built from a capability never extends past the capability's byte length (shared with C13.G5)
    from .C13 import g5_window_extent
    g5_window_extent(F, R, rule='W5')
    # W6: later operations access only those windows: the PCI transport's config-space accessors admit an access only if
    # offset + size_of::<T>() lies inside the device-config window (table shared with C13.G1)
    from .C13 import g1_bounds
    g1_bounds(F, RuleProxy(R, {'G1': 'W6'}, only=lambda inst: 'Pci' in inst))
    # W9: the capabilities and BARs read are those of the requested function: the CAM/ECAM offset of (bus, device, function, register)
    # follows the bit layout and is injective (C12.B3)
    if not isinstance(R, RuleProxy):
        from .C12 import b3_cam
        guard(R, 'W9', 'cam-offset', lambda: b3_cam(F, RuleProxy(R, {'B3': 'W9'})))
    # W7: "inside an allocated memory BAR" rests on the BAR's kind and size as probed: the probing tables of C12.B1/B2
    # (not repeated when this module is itself run as a shared analysis of another property)
    if not isinstance(R, RuleProxy):
        from .C12 import bar_probe_rules
        bar_probe_rules(F, RuleProxy(R, {'B1': 'W7', 'B2': 'W7'}))
        # W8: "the first suitable capability of each type" is relative to where the capability list starts: the capabilities
        # pointer with its two reserved low bits cleared (C12.B4 list-start)
        from .C12 import b4b_list_start
        guard(R, 'W8', 'list-start', lambda: b4b_list_start(F, RuleProxy(R, {'B4': 'W8'})))
        # ... and to what the capability iterator yields: every capability it reads is yielded with the id / next / private-header
        # fields of its own header word, the one with an invalid next pointer included (C12.B4 decode)
        from .C12 import b4_decode
        guard(R, 'W8', 'capability-decode', lambda: b4_decode(F, RuleProxy(R, {'B4': 'W8'})))


# ------------------------------------------------------------------------------------------------ W3

def w3_layout(F, R, cadt):
    offs = field_offsets(F, cadt)
    by_off = {o: (n, t) for n, (o, t) in offs.items()}
    for off, (spec, size, direction) in sorted(COMMON.items()):
        R.count('common_cfg_fields', 1)
        R.tables += 1
        ent = by_off.get(off)
        if not ent:
            R.violated('W3', 'layout:%s' % spec, cadt, 'no field at offset %d for %s' % (off, spec))
            continue
        name, ty = ent
        inner = inner_ty(ty)
        lay = type_layout(inner)
        ok = lay is not None and lay[0] == size and access_class(ty) is not None
        R.check(ok, 'W3', 'layout:%s' % spec, '%s.%s' % (cadt, name), '%s @%d %d bytes' % (spec, off, size),
                'common configuration field %s must be %d bytes at offset %d; found `%s: %s`' % (spec, size, off, name, ty))
    R.check(F.adts[cadt]['layout']['size'] == 56, 'W3', 'layout:size', cadt, '56 bytes', 'common configuration struct is %d bytes, expected 56' % F.adts[cadt]['layout']['size'])


def w3_traces(F, R, tadt, cadt, im):
    offs = field_offsets(F, cadt)
    spec_of = {}
    for n, (o, t) in offs.items():
        if o in COMMON:
            spec_of[n] = COMMON[o][0]
    ro = {COMMON[o][0] for o in COMMON if COMMON[o][2] == 'R'}
    methods = {it['name']: it['path'] for it in im['items'] if it['kind'] == 'AssocFn'}
    tfields = {f['name']: f['ty'] for f in F.adts[tadt]['variants'][0]['fields']}
    mult_field = [n for n, t in tfields.items() if t == 'u32']
    notify_field = [n for n, t in tfields.items() if 'WriteOnly<u16>]' in t]
    isr_field = [n for n, t in tfields.items() if 'ReadOnly<u8>' in t and '[' not in t]

    def events(tr, params, reads=None, fields=None):
        """Trace with register names; notify-region and ISR accesses are recognised by the transport field they go through."""
        res = None
        for p in tr.paths:
            if p.end and p.end[0] == 'loop':
                continue
            rd = {}
            k = 0
            evs = []
            for e in p.effects:
                if e[0] == 'call' and 'safe_mmio::' in e[2] and e[2].rsplit('::', 1)[1] in ACC:
                    kind = ACC[e[2].rsplit('::', 1)[1]]
                    ev = mmio_event(e, {cadt})
                    reg = None
                    idx = None
                    if ev:
                        reg = spec_of.get(ev[2], ev[2])
                    else:
                        cands = [e[3][0]] + ([e[5][0]] if len(e) > 5 and e[5] and e[5][0] is not None else [])
                        for c in cands:
                            for x in ptr_subterms(c):
                                if x[0] == 'loc':
                                    for pp in x[2]:
                                        if pp[0] == 'f' and len(pp) > 2 and pp[2] == tadt:
                                            reg = 'notify' if pp[1] in notify_field else ('isr' if pp[1] in isr_field else pp[1])
                                if x[0] == 'call' and x[2].endswith('::get') and 'safe_mmio' in x[2] and len(x[3]) > 1:
                                    idx = x[3][1]
                    if kind == 'R':
                        rd[e[1]] = reads[k] if reads and k < len(reads) else 0
                        k += 1
                    evs.append((kind, reg, e[3][1] if kind == 'W' and len(e[3]) > 1 else None, idx, e[1]))

            def leaf(t, rd=rd):
                if t[0] == 'param' and t[1] in params:
                    return params[t[1]]
                if t[0] == 'call' and t[1] in rd:
                    return rd[t[1]]
                if t[0] == 'load0' and t[1][2] and t[1][2][-1][0] == 'f' and fields and t[1][2][-1][1] in fields:
                    return fields[t[1][2][-1][1]]
                if t[0] == 'field' and t[2] in ('0', 'bits'):
                    return leaf(t[1])
                raise Unfoldable(fmt(t)[:100])
            fo = Folder(leaf)
            try:
                if not path_holds(fo, p):
                    continue
                out = []
                for kind, reg, v, idx, node in evs:
                    out.append((kind, reg, fo.ev(v) if v is not None else None) + ((fo.ev(idx),) if idx is not None else ()))
                ret = fo.ev(p.ret) if (p.ret is not None and not p.panicked) else None
            except Unfoldable as e:
                return ('unfoldable', str(e))
            res = (out, ret, p)
            break
        return res

    def tracer(m):
        fid = methods.get(m)
        if not fid or fid not in F.bodies:
            return None, None
        return Tracer(F, supergraph(F, fid), {cadt}), fid
    ops = 0

    def check(m, inst, cond, good, bad, fid):
        R.check(cond, 'W3', 'trace:%s' % inst, fn_site(F, fid), good, '%s: %s' % (m, bad))

    tr, fid = tracer('read_device_features')
    if tr:
        ops += 1
        bad = None
        for lo, hi in [(0xdeadbeef, 0x12345678), (0xffffffff, 0xffffffff)] + [(1 << i, 0) for i in range(32)] + [(0, 1 << i) for i in range(32)]:
            r = events(tr, {}, reads=[lo, hi])
            R.tables += 1
            want = [('W', 'device_feature_select', 0), ('R', 'device_feature', None), ('W', 'device_feature_select', 1), ('R', 'device_feature', None)]
            if not r or r[0] != want or r[1] != (lo | hi << 32):
                bad = 'lo=%#x hi=%#x: %s -> %s' % (lo, hi, r[0] if r else r, r[1] if r and len(r) > 1 else None)
                break
        check('read_device_features', 'read_device_features', bad is None, 'select 0, read, select 1, read; low|high<<32', bad, fid)
    tr, fid = tracer('write_driver_features')
    if tr:
        ops += 1
        bad = None
        for v in [0x123456789abcdef0, 2**64 - 1] + [1 << i for i in range(64)]:
            r = events(tr, {2: v})
            R.tables += 1
            want = [('W', 'driver_feature_select', 0), ('W', 'driver_feature', v & 0xffffffff), ('W', 'driver_feature_select', 1), ('W', 'driver_feature', v >> 32)]
            if not r or r[0] != want:
                bad = 'features=%#x: %s' % (v, r[0] if r else r)
                break
        check('write_driver_features', 'write_driver_features', bad is None, 'select 0, low, select 1, high', bad, fid)
    tr, fid = tracer('max_queue_size')
    if tr:
        ops += 1
        bad = None
        for q in (0, 3, 0xffff):
            for v in (0, 256, 0xffff):
                r = events(tr, {2: q}, reads=[v])
                if not r or r[0] != [('W', 'queue_select', q), ('R', 'queue_size', None)] or r[1] != v:
                    bad = 'queue %d: %s -> %s' % (q, r[0] if r else r, r[1] if r and len(r) > 1 else None)
        check('max_queue_size', 'max_queue_size', bad is None, 'select queue then read queue_size', bad, fid)
    tr, fid = tracer('notify')
    if tr and mult_field:
        ops += 1
        bad = None
        for q in (0, 2, 7):
            for off in (0, 1, 3, 9):
                for mult in (0, 2, 4, 8):
                    r = events(tr, {2: q}, reads=[off], fields={mult_field[0]: mult})
                    R.tables += 1
                    want = [('W', 'queue_select', q), ('R', 'queue_notify_off', None), ('W', 'notify', q, off * mult // 2)]
                    if not r or r[0] != want:
                        bad = 'queue %d notify_off %d multiplier %d: %s, expected %s' % (q, off, mult, r[0] if r else r, want)
                        break
                if bad:
                    break
            if bad:
                break
        check('notify', 'notify', bad is None, 'select queue, read notify_off, write queue index at notify_off*multiplier/2', bad, fid)
        # checked get: the index goes through a bounds-checked accessor
        sg = supergraph(F, fid)
        raw = [n for n in sg.calls(lambda d: d.get('fn', '').endswith('get_unchecked') or d.get('fn', '').endswith('get_unchecked_mut'))]
        check('notify', 'notify:checked-index', not raw, 'notify slot accessed through a checked get', 'unchecked indexing of the notification window', fid)
    tr, fid = tracer('set_status')
    if tr:
        ops += 1
        bad = None
        for s_ in (0, 1, 3, 11, 15, 0x80, 0xff):
            r = events(tr, {2: s_})
            if not r or r[0] != [('W', 'device_status', s_ & 0xff)]:
                bad = 'status %d: %s' % (s_, r[0] if r else r)
        check('set_status', 'set_status', bad is None, 'writes device_status', bad, fid)
    tr, fid = tracer('get_status')
    if tr:
        ops += 1
        bad = None
        for s_ in (0, 15, 0x40, 0x80):
            r = events(tr, {}, reads=[s_])
            if not r or r[0] != [('R', 'device_status', None)] or r[1] != (s_ & 0xCF):
                bad = 'status %d: %s -> %s' % (s_, r[0] if r else r, r[1] if r and len(r) > 1 else None)
        check('get_status', 'get_status', bad is None, 'reads device_status', bad, fid)
    tr, fid = tracer('queue_set')
    if tr:
        ops += 1
        bad = None
        vecs = [(3, 8, 0x123456789000, 0xabcdef012000, 0x0fedcba98000), (0xffff, 0x8000, 2**64 - 1, 2**64 - 2, 2**64 - 3)]
        for i in range(0, 64, 1):
            vecs.append((1, 16, 1 << i, 0, 0))
            vecs.append((1, 16, 0, 1 << i, 0))
            vecs.append((1, 16, 0, 0, 1 << i))
        for q, size, d, a, u in vecs:
            r = events(tr, {2: q, 3: size, 4: d, 5: a, 6: u})
            R.tables += 1
            if not r or r[0] == 'unfoldable':
                bad = 'cannot evaluate: %s' % (r,)
                break
            ev = r[0]
            mid = {('W', 'queue_size', size & 0xffff), ('W', 'queue_desc', d), ('W', 'queue_driver', a), ('W', 'queue_device', u)}
            if not ev or ev[0] != ('W', 'queue_select', q):
                bad = 'queue_select must be written first: %s' % ev[:2]
            elif ev[-1] != ('W', 'queue_enable', 1):
                bad = 'queue_enable=1 must be last: %s' % ev[-2:]
            elif set(ev[1:-1]) != mid or len(ev) != 6:
                bad = 'desc=%#x driver=%#x device=%#x: missing %s unexpected %s' % (d, a, u, sorted(mid - set(ev[1:-1])), [e for e in ev[1:-1] if e not in mid])
            if bad:
                break
        check('queue_set', 'queue_set', bad is None, 'select first, size + three 64-bit addresses, enable last (%d vectors)' % len(vecs), bad, fid)
    tr, fid = tracer('queue_used')
    if tr:
        ops += 1
        bad = None
        for q in (0, 5):
            for v in (0, 1, 2):
                r = events(tr, {2: q}, reads=[v])
                if not r or r[0] != [('W', 'queue_select', q), ('R', 'queue_enable', None)] or r[1] != int(v == 1):
                    bad = 'queue %d enable=%d: %s -> %s' % (q, v, r[0] if r else r, r[1] if r and len(r) > 1 else None)
        check('queue_used', 'queue_used', bad is None, 'select then read queue_enable', bad, fid)
    tr, fid = tracer('ack_interrupt')
    if tr:
        ops += 1
        bad = None
        for v in (0, 1, 2, 3):
            r = events(tr, {}, reads=[v])
            if not r or r[0] != [('R', 'isr', None)] or r[1] != v:
                bad = 'isr=%d: %s -> %s' % (v, r[0] if r else r, r[1] if r and len(r) > 1 else None)
        check('ack_interrupt', 'ack_interrupt', bad is None, 'reads the ISR status byte', bad, fid)
    tr, fid = tracer('read_config_generation')
    if tr:
        ops += 1
        bad = None
        for v in (0, 7, 255):
            r = events(tr, {}, reads=[v])
            if not r or r[0] != [('R', 'config_generation', None)] or r[1] != v:
                bad = 'generation=%d: %s' % (v, r)
        check('read_config_generation', 'read_config_generation', bad is None, 'reads config_generation', bad, fid)
    # no write to a read-only field anywhere in the transport
    nbad = []
    for m, fid in methods.items():
        if fid in F.bodies:
            t = Tracer(F, supergraph(F, fid), {cadt})
            for p in t.paths:
                for e in p.effects:
                    ev = mmio_event(e, {cadt})
                    if ev and ev[0] == 'W' and spec_of.get(ev[2]) in ro:
                        nbad.append('%s writes read-only %s' % (m, spec_of.get(ev[2])))
    R.check(not nbad, 'W3', 'no-write-to-read-only', tadt, 'no write to device_feature/num_queues/config_generation/queue_notify_off', '; '.join(nbad))
    # Drop: reset and wait
    drop = F.adts[tadt].get('drop_impl')
    if not drop:
        R.violated('W3', 'drop:reset-and-wait', tadt, 'the PCI transport has no Drop impl: the device is not reset when the transport is dropped')
    else:
        tr = Tracer(F, supergraph(F, drop), {cadt}, loop_unroll=0)
        r0 = events(tr, {}, reads=[0])
        r1 = events(tr, {}, reads=[1])
        ok = r0 and r0[0] != 'unfoldable' and r0[0][:2] == [('W', 'device_status', 0), ('R', 'device_status', None)] and r1 is None
        R.check(bool(ok), 'W3', 'drop:reset-and-wait', fn_site(F, drop), 'Drop writes device_status=0 and loops until it reads 0',
                'Drop must reset the device and wait for the reset to complete: status reads 0 -> %s; status reads non-zero -> %s' % (
                    r0[0] if r0 else r0, 'returns' if r1 is not None else 'waits'))
    R.count('operations', ops)


# ------------------------------------------------------------------------------------------------ W1

def w1_admission(F, R):
    fns = [b for b in F.bodies.values() if F.handwritten(b) and any(
        bl['term']['k'] == 'call' and bl['term'].get('trait') == HAL and bl['term'].get('method') == 'mmio_phys_to_virt' for bl in b['blocks'])]
    if not fns:
        raise Undecided('no function calls mmio_phys_to_virt')
    for b in fns:
        sg = supergraph(F, b['id'], opaque=lambda t, bb: 'Option<transport::pci::bus::BarInfo>' in bb.get('sig', ''), tag='w1')
        where = fn_site(F, b['id'])
        try:
            paths = PathEnum(sg).run()
        except PathLimit as e:
            R.abstain('W1', b['id'], str(e), where)
            continue
        barinfo = F.adts.get('transport::pci::bus::BarInfo')
        mem_d = [int(v['discr']) for v in barinfo['variants'] if any(f['name'] == 'size' and f['ty'] == 'u64' for f in v['fields'])][0]
        io_d = 1 - mem_d
        rows = 0
        bad = None
        grid_off = [0, 0x10, 0x1000, 0x3fc8, 0x3ff0, 0x4000, 0x7fffffff, 0xfffff000, 0xffffffff]
        grid_len = [0, 4, 0x38, 0x1000, 0x2000, 0x4000, 0x80000001, 0xffffffff]
        for kind in ('mem', 'io', 'none', 'err'):
            for addr in ((0x10000000, 0) if kind == 'mem' else (0x10000000,)):
                for size in (0x4000, 0x100000000) if kind == 'mem' else (0x4000,):
                    for off in grid_off if kind == 'mem' and addr else (0x10,):
                        for ln in grid_len if kind == 'mem' and addr else (0x38,):
                            for szt in (1, 2, 56):
                                for aligned in (1, 0) if (off, ln) in ((0x10, 0x38), (0, 4)) else (1,):
                                    rows += 1
                                    want_ok = kind == 'mem' and addr != 0 and off + ln <= size and szt <= ln and aligned
                                    out = eval_admission(paths, kind, addr, size, off, ln, szt, aligned, mem_d, io_d)
                                    if out[0] == 'unfoldable':
                                        R.abstain('W1', b['id'], 'cannot fold admission predicate: %s' % out[1], where)
                                        return
                                    res, mapped = out
                                    desc = 'BAR %s addr=%#x size=%#x, capability offset=%#x length=%#x, size_of<T>=%d, aligned=%d' % (kind, addr, size, off, ln, szt, aligned)
                                    if res == 'panic':
                                        bad = '%s: panics instead of returning an error' % desc
                                    elif (res == 'Ok') != bool(want_ok):
                                        bad = '%s: %s, specification: %s' % (desc, 'admitted' if res == 'Ok' else 'refused (%s)' % res, 'admit' if want_ok else 'refuse')
                                    elif mapped is not None and not (kind == 'mem' and addr != 0 and off + ln <= size and szt <= ln):
                                        bad = '%s: mmio_phys_to_virt reached for a window that is not admitted' % desc
                                    elif mapped is not None and mapped != (addr + off, ln):
                                        bad = '%s: mapped (%#x, %#x), expected (%#x, %#x)' % (desc, mapped[0], mapped[1], addr + off, ln)
                                    if bad:
                                        break
                                if bad:
                                    break
                            if bad:
                                break
                        if bad:
                            break
                    if bad:
                        break
                if bad:
                    break
            if bad:
                break
        R.count('admission_rows', rows if not bad else 10000)
        R.tables += rows
        R.check(bad is None, 'W1', '%s:admission' % b['id'], where, 'window admitted iff inside an allocated memory BAR, large enough, aligned (%d rows incl. 2^32 boundaries)' % rows,
                'window admission: %s' % bad)


def eval_admission(paths, kind, addr, size, off, ln, szt, aligned, mem_d, io_d):
    def leaf(t):
        if t[0] == 'discr':
            x = t[1]
            if x[0] == 'call' and 'bar_info' in x[2]:
                return 1 if kind == 'err' else 0
            s_ = fmt(x)
            if x[0] == 'field' and x[1][0] == 'downcast' and x[1][2] == 'Ok' and x[1][1][0] == 'call':
                return 0 if kind == 'none' else 1           # Option<BarInfo>: None=0, Some=1
            if x[0] == 'field' and x[1][0] == 'downcast' and x[1][2] == 'Some':
                return mem_d if kind == 'mem' else io_d     # BarInfo discriminant
            # Option<(u64,u64)> returned by an inlined accessor is folded structurally; anything else:
            raise Unfoldable('discr ' + s_[:100])
        if t[0] == 'field' and t[2] == 'address':
            return addr
        if t[0] == 'field' and t[2] == 'size':
            return size
        if t[0] == 'load0' and t[1][2] and t[1][2][-1][0] == 'f':
            f = t[1][2][-1][1]
            return {'offset': off, 'length': ln, 'bar': 1}.get(f, 0)
        if t[0] == 'call' and t[2].endswith('is_multiple_of'):
            return aligned
        if t[0] == 'call' and 'mmio_phys_to_virt' in t[2]:
            return 0x7000_0000 if aligned else 0x7000_0001
        if t[0] == 'cast' and 'Expose' in t[1]:
            return leaf(t[3]) if t[3][0] == 'call' else 0
        raise Unfoldable(fmt(t)[:100])
    fo = Folder(leaf, generic={'T': szt, 'alignof:T': 4 if not aligned else 1})
    try:
        for p in paths:
            if path_holds(fo, p):
                mapped = None
                for e in p.effects:
                    if e[0] == 'call' and e[4].get('trait') == HAL and e[4].get('method') == 'mmio_phys_to_virt':
                        mapped = (fo.ev(e[3][0]), fo.ev(e[3][1]))
                if p.panicked:
                    return 'panic', mapped
                ev = err_variant(p.ret)
                return ev or 'Err', mapped
    except Unfoldable as e:
        return 'unfoldable', str(e)
    return 'nopath', None


# ------------------------------------------------------------------------------------------------ W2 / W4

def w2_scan(F, R, tadt):
    # private loop-free helpers of the transport module are analysed inlined (a refactoring may move the capability
    # reads into one); the window-admission functions and everything public stay opaque events
    adm0 = set(b['id'] for b in F.bodies.values() if F.handwritten(b) and any(
        bl['term']['k'] == 'call' and bl['term'].get('trait') == HAL and bl['term'].get('method') == 'mmio_phys_to_virt' for bl in b['blocks']))
    adm1 = set(adm0)
    for b in F.bodies.values():
        if F.handwritten(b) and any(bl['term']['k'] == 'call' and bl['term'].get('fn') in adm0 for bl in b['blocks']):
            adm1.add(b['id'])

    def helper(bb, loops=False):
        return F.handwritten(bb) and not bb.get('pub') and (loops or not has_loop(bb)) and bb['id'] not in adm1 and bb['id'].startswith('transport::pci::') \
            and 'impl_trait' not in bb and not bb['id'].startswith('transport::pci::bus::')
    # the scan may live in the constructor or in a private free function of the module that the constructor calls
    scan_helpers = set()
    for b in F.bodies.values():
        if b['kind'] == 'Fn' and helper(b, loops=True) and has_loop(b) and any(
                bl['term']['k'] == 'call' and bl['term'].get('trait') == CFGACC for bl in b['blocks']):
            scan_helpers.add(b['id'])

    def opaque_for(me):
        return lambda t, bb: bb['id'] != me and not helper(bb) and bb['id'] not in scan_helpers
    ctor = None
    for b in F.bodies.values():
        if b.get('impl_adt') == tadt and 'impl_trait' not in b and F.handwritten(b) and b['kind'] == 'AssocFn' and (
                has_loop(b) or any(bl['term']['k'] == 'call' and bl['term'].get('fn') in scan_helpers for bl in b['blocks'])):
            sg_ = supergraph(F, b['id'], opaque=opaque_for(b['id']), tag='w2')
            if any(True for _ in sg_.calls(lambda d: d.get('trait') == CFGACC)) and back_edges(sg_):
                ctor = b
    if not ctor:
        raise Undecided('PCI transport constructor with the capability loop not found')
    sg = supergraph(F, ctor['id'], opaque=opaque_for(ctor['id']), tag='w2')
    S = sg.sym
    where = fn_site(F, ctor['id'])
    be = back_edges(sg)
    loop_nodes = set()
    sctxs = set()
    for (u, v) in be:
        # natural loop of back edge u->v
        body = {v}
        st = [u]
        while st:
            x = st.pop()
            if x in body:
                continue
            body.add(x)
            st.extend(sg.nodes[x].pred)
        loop_nodes |= body
        if any(sg.nodes[x].kind == 'call' and sg.nodes[x].d.get('trait') == CFGACC for x in body):
            sctxs.add(sg.nodes[v].ctx)
    if len(sctxs) != 1:
        raise Undecided('capability loop of the PCI transport constructor not identified (%d candidates)' % len(sctxs))
    sctx = sctxs.pop()
    sfn = sg.ctxs[sctx].fn
    # candidate variables: places (a local, or a field of a local struct) assigned both before the loop and inside it
    def place_key(pl):
        names = []
        ty = sfn['locals'][pl['l']]['ty']
        for pp in pl['p']:
            if isinstance(pp, dict) and 'f' in pp and 'dc' not in pp:
                names.append(pp['n'])
                ty = pp.get('ty', ty)
            else:
                return None, None
        return (pl['l'], tuple(names)), ty
    assigns = {}
    ktype = {}
    for n in sg.nodes:
        pl = None
        if n.ctx == sctx and n.kind == 'assign':
            pl = n.d['place']
        if n.ctx == sctx and n.kind == 'call' and n.inl is None:
            pl = n.d['dest']
        if pl is None:
            continue
        k, ty = place_key(pl)
        if k is None:
            continue
        assigns.setdefault(k, []).append(n.id)
        ktype[k] = ty

    def kname(k):
        return k[1][-1] if k[1] else sfn['locals'][k[0]].get('name')
    cands = {}
    for k, ns in assigns.items():
        inside = [x for x in ns if x in loop_nodes]
        outside = [x for k2, ns2 in assigns.items() if k2[0] == k[0] and k[1][:len(k2[1])] == k2[1] for x in ns2 if x not in loop_nodes]
        name = kname(k)
        if inside and outside and name:
            cands[k] = (name, inside)
    opt_locals = {k for k in cands if ktype[k].startswith('core::option::Option<')}
    info_adt = None
    for k in opt_locals:
        t = ktype[k]
        info_adt = t[len('core::option::Option<'):-1]

    def key_of_ref(tgt):
        if tgt[0] == 'ref' and tgt[1][1][0] == 'local' and tgt[1][1][1] == sctx and all(pp[0] == 'f' for pp in tgt[1][2]):
            return (tgt[1][1][2], tuple(pp[1] for pp in tgt[1][2]))
        return None
    # fold helper for guards
    results = {}
    for l, (name, inside) in sorted(cands.items(), key=lambda kv: str(kv[0])):
        for a in inside:
            R.count('scan_assignments', 1)
            gs = sg.guards_of(a)
            # first-match guard: is_none(&some option candidate) on the true edge
            fm = None
            numeric = []
            for swid, vals, succ in gs:
                d = S.operand(swid, sg.nodes[swid].d['discr'])
                d0 = d
                if d0[0] == 'call' and d0[2].endswith('::is_none'):
                    tk = key_of_ref(strip_ptr(d0[3][0]))
                    if tk in opt_locals and (None in vals or any(v != 0 for v in vals)):
                        fm = tk
                elif derives_from(d, lambda x: x[0] == 'downcast' and x[1][0] == 'call' and x[1][2] == 'core::iter::Iterator::next') and d[0] != 'discr':
                    numeric.append((swid, vals, d))
            inst = '%s:%s' % (ctor['id'], name)
            is_opt = l in opt_locals
            ok_fm = (fm == l) if is_opt else (fm is not None)
            R.check(ok_fm, 'W2', inst + ':first-match', site(sg, a),
                    'assignment of `%s` in the capability loop is guarded by is_none(%s)' % (name, kname(fm) if fm is not None else '?'),
                    '`%s` is (re)assigned for every matching capability: the first capability of the type is not preferred (guard %s)' % (
                        name, 'is_none(`%s`)' % kname(fm) if fm is not None else 'missing'))
            results[l] = (name, a, fm, numeric)
    # numeric guards folded: vendor id, cap_len, cfg_type, reserved bar
    kinds = {}
    for l, (name, a, fm, numeric) in results.items():
        owner = fm if fm is not None else l
        reach = fold_guards(sg, S, numeric)
        if reach is None:
            R.abstain('W2', '%s:%s:guards' % (ctor['id'], name), 'cannot fold numeric guards', site(sg, a))
            continue
        ids = sorted(set(v[0] for v in reach))
        lens = sorted(set(v[1] for v in reach))
        types = sorted(set(v[2] for v in reach))
        bars = sorted(set(v[3] for v in reach))
        kinds[name] = types
        inst = '%s:%s' % (ctor['id'], name)
        R.check(ids == [9], 'W2', inst + ':vendor-cap-id', site(sg, a), 'only vendor-specific capabilities (id 0x09)', 'assigned for capability ids %s' % ids)
        minlen = min(lens) if lens else None
        need = 20 if types == [2] else 16
        R.check(minlen == need and lens == [x for x in LEN_DOM if x >= need], 'W2', inst + ':cap_len', site(sg, a), 'requires cap_len >= %d' % need,
                'capability of type %s accepted with cap_len in %s; the specification structure needs >= %d bytes' % (types, lens[:4], need))
        R.check(len(types) == 1 and types[0] in (1, 2, 3, 4), 'W2', inst + ':cfg_type', site(sg, a), 'cfg_type == %s' % types, 'assigned for cfg_type values %s' % types)
        R.check(bars and max(bars) <= 5, 'W2', inst + ':reserved-bar', site(sg, a), 'capabilities with a reserved BAR value (>5) are ignored',
                'a capability whose bar field is reserved (%s) is not ignored (VirtIO 1.2 4.1.4: MUST ignore); its value reaches BAR register arithmetic' % [b_ for b_ in bars if b_ > 5][:3])
        R.check(bars == [0, 1, 4, 5], 'W2', inst + ':valid-bars', site(sg, a), 'capabilities in every BAR 0..5 are used',
                'a capability located in BAR %s is ignored although BAR numbers 0..5 are valid: a device that places this structure there cannot be driven' % [b_ for b_ in (0, 1, 4, 5) if b_ not in bars])
    want_types = sorted(sum(kinds.values(), []))
    if len(kinds) < len(results):
        R.abstain('W2', '%s:all-four-types' % ctor['id'], 'the guards of %d scan assignment(s) could not be folded' % (len(results) - len(kinds)), where)
    else:
        R.check(sorted(set(want_types)) == [1, 2, 3, 4], 'W2', '%s:all-four-types' % ctor['id'], where, 'common/notify/isr/device windows are all scanned',
                'capability types scanned: %s' % want_types)
    # field offsets of the capability reads
    infos = [n for n in sg.nodes if n.kind == 'assign' and n.d['rv']['rv'] == 'agg' and n.d['rv'].get('adt') == info_adt]
    R.count('capability_info_sites', len(infos))
    for n in infos:
        rv = n.d['rv']
        for fname, op in zip(rv['fields'], rv['ops']):
            t = S.operand(n.id, op)
            offs = set()
            for x in subterms(t):
                if x[0] == 'call' and x[2].endswith('read_word') and len(x[3]) > 2:
                    k = cap_rel_offset(x[3][2])
                    offs.add(k)
            want = {'bar': 4, 'offset': 8, 'length': 12}.get(fname)
            if want is not None:
                casted = fname != 'bar' or (t[0] == 'cast' and t[2] == 'u8')
                R.check(offs == {want} and casted, 'W2', '%s:field:%s' % (ctor['id'], fname), site(sg, n), 'read at capability offset +%d' % want,
                        'capability field `%s` read at relative offsets %s, expected +%d' % (fname, sorted(offs, key=str), want))
    # odd multiplier refused; W4: pointer construction fed by admission results
    news = [n for n in sg.calls(lambda d: d.get('fn', '').startswith('safe_mmio::UniqueMmioPointer') and d['fn'].endswith('::new'))]
    adm = [b['id'] for b in F.bodies.values() if F.handwritten(b) and any(
        bl['term']['k'] == 'call' and bl['term'].get('trait') == HAL and bl['term'].get('method') == 'mmio_phys_to_virt' for bl in b['blocks'])]
    adm_callers = set(adm)
    for b in F.bodies.values():
        if F.handwritten(b) and any(bl['term']['k'] == 'call' and bl['term'].get('fn') in adm for bl in b['blocks']):
            adm_callers.add(b['id'])
    for n in news:
        t = S.operand(n.id, n.d['args'][0])
        ok = derives_from(t, lambda x: x[0] == 'call' and x[2] in adm_callers)
        R.check(ok, 'W4', '%s:mmio-pointer' % ctor['id'], site(sg, n), 'MMIO pointer built from an admitted window',
                'UniqueMmioPointer::new is fed by something other than the window admission function: %s' % fmt(t)[:200])
    mult_guard = False
    mult_offs = set()
    for n in sg.nodes:
        if n.kind == 'switch':
            d = S.operand(n.id, n.d['discr'])
            for x in subterms(d):
                if x[0] == 'bin' and x[1] == 'Rem' and fold_const(x[3]) == 2:
                    mult_guard = True
                    import os
                    if os.environ.get('VQ_DBG'):
                        print('DBG mult', fmt(x[2]), x[2])
                    for y in deep_subterms(S, x[2]):
                        if y[0] == 'call' and y[2].endswith('read_word') and len(y[3]) > 2:
                            mult_offs.add(cap_rel_offset(y[3][2]))
    R.check(mult_guard, 'W2', '%s:odd-multiplier' % ctor['id'], where, 'multiplier parity is tested', 'no test of notify_off_multiplier % 2')
    # polarity: an odd multiplier takes the edge that constructs the error, an even one does not
    pol = None
    for n in sg.nodes:
        if n.kind == 'switch':
            d = S.operand(n.id, n.d['discr'])
            rems = [x for x in subterms(d) if x[0] == 'bin' and x[1] == 'Rem' and fold_const(x[3]) == 2]
            if not rems:
                continue
            m_term = rems[0][2]

            def take(mv):
                def leaf(t):
                    if t == m_term:
                        return mv
                    raise Unfoldable(fmt(t)[:40])
                v = Folder(leaf).ev(d)
                explicit = [x for x, _ in n.switch_edges if x is not None]
                for val, succ in n.switch_edges:
                    if (val is not None and val == v) or (val is None and v not in explicit):
                        return succ
                return None
            try:
                s_odd, s_even = take(3), take(4)
            except Unfoldable:
                continue
            def straight_err(start):
                # does the straight-line code from this edge (up to the next call / branch) build an Err value?
                x, seen_ = start, set()
                while x is not None and x not in seen_:
                    seen_.add(x)
                    nx = sg.nodes[x]
                    if nx.kind == 'assign' and nx.d['rv']['rv'] == 'agg' and nx.d['rv'].get('adt') == 'core::result::Result' and nx.d['rv'].get('variant') == 'Err':
                        return True
                    if nx.kind in ('call', 'switch', 'return') or len(nx.succ) != 1:
                        return False
                    x = nx.succ[0]
                return False
            if s_odd is None or s_even is None:
                continue
            odd_err, even_err = straight_err(s_odd), straight_err(s_even)
            pol = (odd_err, even_err)
    R.check(pol == (True, False), 'W2', '%s:odd-multiplier-refused' % ctor['id'], where, 'an odd notify_off_multiplier is refused, an even one accepted',
            'multiplier parity test has the wrong polarity (odd refused=%s, even refused=%s): notifications would be written at odd byte offsets / valid devices refused' % (pol if pol else ('?', '?')))
    R.check(mult_offs == {16}, 'W2', '%s:field:notify_off_multiplier' % ctor['id'], where, 'notify_off_multiplier read at capability offset +16',
            'notify_off_multiplier is read at relative offsets %s, expected +16 (VirtIO 1.2 4.1.4.4)' % sorted(mult_offs, key=str))


LEN_DOM = [0, 8, 15, 16, 19, 20, 24, 255]


def cap_rel_offset(t):
    """capability.offset + K  ->  K"""
    t = strip_conv(t)
    if t[0] == 'bin' and t[1] in ('Add', 'AddWithOverflow'):
        for side in (t[2], t[3]):
            c = fold_const(side)
            if c is not None:
                return c
    if t[0] == 'field' and t[1][0] == 'bin':
        return cap_rel_offset(t[1])
    return fmt(t)[:40]


def fold_guards(sg, S, numeric):
    """Set of (cap id, cap_len, cfg_type, bar) tuples for which all numeric guards are satisfied."""
    out = []
    ID_DOM = [0x09, 0x05, 0x11]
    TY_DOM = [0, 1, 2, 3, 4, 5]
    BAR_DOM = [0, 1, 4, 5, 6, 64, 255]
    for cid in ID_DOM:
        for clen in LEN_DOM:
            for cty in TY_DOM:
                for bar in BAR_DOM:
                    def leaf(t):
                        s_ = fmt(t)
                        if t[0] in ('field', 'load') and s_.endswith('.id'):
                            return cid
                        if t[0] in ('field', 'load') and s_.endswith('.private_header'):
                            return clen | cty << 8
                        if t[0] == 'call' and t[2].endswith('read_word'):
                            k = cap_rel_offset(t[3][2]) if len(t[3]) > 2 else None
                            if k == 4:
                                return bar
                            return 0
                        raise Unfoldable(s_[:80])
                    fo = Folder(leaf)
                    ok = True
                    try:
                        for swid, vals, d in numeric:
                            v = fo.ev(d)
                            sw = sg.nodes[swid]
                            explicit = [x for x, _ in sw.switch_edges if x is not None]
                            sat = (v in [x for x in vals if x is not None]) or (None in vals and v not in explicit)
                            if not sat:
                                ok = False
                                break
                    except Unfoldable:
                        return None
                    if ok:
                        out.append((cid, clen, cty, bar))
    return out


def thorough_extra(R, here):
    run_witnesses(R, here, {'C11PrivateCommonCfg': 'naming the PCI common configuration struct from outside the crate'}, 'W3')
