"""C12 - PCI bus helpers size BARs without side effects and address configuration space uniquely.

Decided:
 B1 sizing is bracketed: bar_info is path-enumerated (it is loop-free) and folded against a configuration-space model for
    every BAR kind/size, slot and command-register value: a sizing pattern (all ones) is never written to a BAR while
    IO or memory decoding is enabled, and on every return - Ok or Err - the command register and every BAR register
    hold their original values.
 B2 size formula and decoding: for every power-of-two size (memory 32-bit 2^4..2^31, 64-bit 2^4..2^63, I/O 2^2..2^31,
    unimplemented) the reported kind, address, prefetchability, type and size equal the PCI definition.
 B3 CAM addressing: the offset function is folded over bus/device/function/register and compared with
    bus<<16|dev<<11|fn<<8|reg (CAM) resp. bus<<20|dev<<15|fn<<12|reg (ECAM); distinct tuples give distinct offsets
    inside the window.
 B4 decoding tables: capability iterator and enumeration decode id/next/private header and vendor/device/class fields
    at the specified bit positions.
 B6 bracket on every exit: in every function of the PCI root that rewrites the command register (disabling decoding
    while BARs are sized), each path from such a write to a return - error returns included - passes through a later
    write of the command register (the restore); B1's model decides the values for bar_info, B6 the shape for any
    caller that brackets a whole scan.
 B7 header types: From<u8> of the header-type enum maps 0/1/2 to the standard / PCI-bridge / CardBus-bridge variants.
 B5 bus walk: one iteration of the bus iterator's loop is path-enumerated (paths end at the loop back edge or at a
    return) and folded into a transition function over (device, function, function-present?); the transition is then
    iterated from (0,0) over its whole finite state space: with nothing present the probes are exactly (d,f) for d in
    0..32, f in 0..8, each once, in order, then None; with a function present at any (d,f) that same (d,f) is returned
    and the iterator state advances exactly as in the absent case - so the functions present are each reported once.
"""
from .common import *
from ..paths import *
from ..mmio import *

EXPLANATION = ("bar_info and cam_offset are loop-free: their MIR is converted to guarded traces of ConfigurationAccess reads/writes "
               "and folded against a Python model of PCI configuration space over an enumerated table of BAR kinds, sizes, slots "
               "and command values; returned values and final register state are compared with the PCI 3.0 definition.")
FLOORS = {'command_bracket_fns': 1, 'identity_fields': 6, 'cam_accessors': 2, 'bus_iterators': 1, 'bar_scenarios': 1000, 'cam_rows': 500, 'cap_list_starts': 1, 'bus_walk_starts': 1}
CFGACC = 'transport::pci::bus::ConfigurationAccess'


def cfg_classify(e):
    if e[0] != 'call':
        return None
    d = e[4]
    if d.get('trait') == CFGACC:
        if d.get('method') == 'read_word':
            return ('R', (e[3][2],))
        if d.get('method') == 'write_word':
            return ('W', (e[3][2],), e[3][3])
    return None


class CfgSpace:
    """Model of one function's configuration space with one BAR under test."""

    def __init__(self, command, bars):
        # bars: dict slot -> ('mem32'|'mem64lo'|'mem64hi'|'io'|'none', value, size_mask)
        self.regs = {0x04: command & 0xffff}
        self.bars = bars
        self.orig = {}
        for slot, (kind, val, mask) in bars.items():
            self.regs[0x10 + 4 * slot] = val
        self.orig = dict(self.regs)
        self.violations = []
        self.log = []

    def decode_enabled(self):
        return bool(self.regs[0x04] & 0x3)

    def read(self, off):
        off &= 0xff
        return self.regs.get(off, 0)

    def write(self, off, val):
        off &= 0xff
        val &= 0xffffffff
        if 0x10 <= off < 0x28 and (off - 0x10) % 4 == 0:
            slot = (off - 0x10) // 4
            kind, orig, mask = self.bars.get(slot, ('none', 0, 0))
            if val != self.orig.get(off, 0) and self.decode_enabled():
                self.violations.append('BAR%d written with %#x while address decoding is enabled (command=%#x)' % (slot, val, self.regs[0x04]))
            # hardware: only the writable address bits take the value
            low = orig & ~mask & 0xffffffff
            self.regs[off] = (val & mask) | low
        elif off == 0x04:
            self.regs[0x04] = val & 0xffff
        else:
            self.regs[off] = val

    def restored(self):
        return [('%#x' % k, '%#x' % self.regs.get(k, 0), '%#x' % v) for k, v in self.orig.items() if self.regs.get(k, 0) != v]


def scenarios():
    """(description, slot, bars dict, expected)"""
    out = []
    for slot in (0, 2, 4, 5):
        out.append(('unused', slot, {slot: ('none', 0, 0)}, None))
        step = 1 if slot in (0, 5) else 5
        for k in list(range(4, 32, step)):
            size = 1 << k
            mask = (~(size - 1)) & 0xfffffff0
            for pf in (0, 8):
                base = (0x80000000 if k < 31 else 0x80000000) & mask
                val = base | pf | 0
                out.append(('mem32 2^%d pf=%d' % (k, pf), slot, {slot: ('mem32', val, mask)},
                            ('Memory', base, size, bool(pf), 0)))
        for k in range(2, 32, step):
            size = 1 << k
            mask = (~(size - 1)) & 0xfffffffc
            base = 0x0000c00c & mask if k <= 14 else (0x80000000 & mask)  # bits 2-3 are address bits of an I/O BAR
            out.append(('io 2^%d' % k, slot, {slot: ('io', base | 1, mask)}, ('IO', base, size)))
        for k in list(range(4, 64, 3)) + [31, 32, 33, 63]:
            size = 1 << k
            m64 = (~(size - 1)) & 0xfffffffffffffff0
            base = (0x0000004080000000 & m64) if k < 38 else ((1 << 63) & m64 if k < 63 else 0)
            lo = (base & 0xffffffff) | 0x4 | 0x8
            hi = base >> 32
            out.append(('mem64 2^%d' % k, slot, {slot: ('mem64lo', lo, m64 & 0xfffffff0), slot + 1: ('mem64hi', hi, m64 >> 32)},
                        ('Memory', base, size, True, 2) if slot < 5 else 'Err'))
    return out


def bar_probe_rules(F, R):
    bi = [b for b in F.bodies.values() if F.handwritten(b) and b['kind'] == 'AssocFn' and 'Option<transport::pci::bus::BarInfo>' in b.get('sig', '')]
    if not bi:
        raise Undecided('BAR probing function (returns Result<Option<BarInfo>>) not found')
    for b in bi:
        if any(l['ty'] == 'u8' for l in b['locals'][1:b['arg_count'] + 1]):
            b1_b2(F, R, b)


def run(F, R):
    bar_probe_rules(F, R)
    b3_cam(F, R)
    b3b_valid(F, R)
    b4_decode(F, R)
    b4b_list_start(F, R)
    b5_bus_walk(F, R)
    b5b_walk_start(F, R)
    b6_restore_on_every_exit(F, R)
    b7_header_types(F, R)
    b3c_clone_preserves_addressing(F, R)
    b3d_window_covers_cam(F, R)


def b1_b2(F, R, b):
    sg = supergraph(F, b['id'])
    where = fn_site(F, b['id'])
    try:
        paths = PathEnum(sg, max_paths=20000).run()
    except PathLimit as e:
        R.abstain('B1', b['id'], str(e), where)
        return
    fn = sg.entry_fn
    pidx = [i + 1 for i, l in enumerate(fn['locals'][1:fn['arg_count'] + 1]) if l['ty'] == 'u8']
    if len(pidx) != 1:
        R.abstain('B1', b['id'], 'cannot identify the BAR index parameter', where)
        return
    pidx = pidx[0]
    badv = {}
    nsc = 0
    barinfo = 'transport::pci::bus::BarInfo'
    for desc, slot, bars, want in scenarios():
        # every defined command bit (0-6, 8-10) occurs at least once; 0x87 / 0x8003 additionally have reserved bits set (bit 7, bit 15):
        # the defined bits must still be handled - decoding disabled while sizing, defined bits restored (reserved bits are not compared)
        for command in (0x0, 0x1, 0x2, 0x3, 0x107, 0x407, 0x57f, 0x87, 0x8003):
            nsc += 1

            def base_leaf(t, slot=slot):
                if t == ('param', pidx):
                    return slot
                raise Unfoldable(fmt(t)[:100])
            res = simulate(paths, cfg_classify, lambda: CfgSpace(command, bars), base_leaf)
            key = None
            if len(res) != 1:
                key, msg = 'eval', '%s slot %d command %#x: %d feasible paths' % (desc, slot, command, len(res))
                badv.setdefault(key, msg)
                continue
            p, model, fo, log = res[0]
            if p.panicked:
                badv.setdefault('panic', '%s slot %d: probing panics' % (desc, slot))
                continue
            if model.violations:
                badv.setdefault('B1:decode', '%s slot %d command %#x: %s' % (desc, slot, command, model.violations[0]))
            rest = [r_ for r_ in model.restored() if not (int(str(r_[0]), 0) == 4 and (int(str(r_[1]), 0) & 0x077f) == (int(str(r_[2]), 0) & 0x077f))]
            if rest:
                ev = err_variant(p.ret)
                k = 'B1:restore:%s' % ('Err' if ev not in ('Ok',) else 'Ok')
                badv.setdefault(k, '%s slot %d command %#x: returns %s leaving (register, now, original) = %s' % (desc, slot, command, ev, rest))
            # B2 result
            ev = err_variant(p.ret)
            got = decode_barinfo(fo, p.ret)
            if want == 'Err':
                if ev == 'Ok':
                    badv.setdefault('B2:slot5-64bit', '%s slot %d: accepted a 64-bit BAR in the last slot' % (desc, slot))
            elif got != want:
                badv.setdefault('B2:value', '%s slot %d: reported %s, PCI definition gives %s' % (desc, slot, got, want))
    R.count('bar_scenarios', nsc)
    R.tables += nsc
    for rule, inst in (('B1', 'B1:decode'), ('B1', 'B1:restore:Ok'), ('B1', 'B1:restore:Err'), ('B2', 'B2:value'), ('B2', 'B2:slot5-64bit'), ('B1', 'panic'), ('B1', 'eval')):
        msg = badv.get(inst)
        name = inst.split(':', 1)[1] if ':' in inst else inst
        if inst == 'eval' and msg is not None:
            # the probing function could not be folded against the configuration-space model (an idiom the evaluator does not know):
            # not decided, rather than a report about the code
            R.abstain(rule, '%s:%s' % (b['id'], name), msg, where)
            continue
        R.check(msg is None, rule, '%s:%s' % (b['id'], name), where, '%s holds on %d scenarios' % (name, nsc), msg or '')


def decode_barinfo(fo, ret):
    """Fold the returned Result<Option<BarInfo>> into a tuple."""
    try:
        if ret[0] != 'agg' or not ret[1].endswith('::Ok'):
            return 'Err'
        opt = ret[2][0]
        if opt[0] == 'agg' and opt[1].endswith('::None'):
            return None
        bi = opt[2][0]
        if bi[0] != 'agg':
            return ('?', fmt(bi)[:80])
        var = bi[1].rsplit('::', 1)[1]
        fields = dict(zip(bi[3], bi[2]))
        if var == 'IO':
            return ('IO', fo.ev(fields['address']), fo.ev(fields['size']))
        at = fields['address_type']
        atv = None
        try:
            atv = fo.ev(('discr', at)) if at[0] != 'agg' else None
        except Unfoldable:
            atv = None
        if at[0] == 'agg':
            atv = {'Width32': 0, 'Below1MiB': 1, 'Width64': 2}.get(at[1].rsplit('::', 1)[1])
        return ('Memory', fo.ev(fields['address']), fo.ev(fields['size']), bool(fo.ev(fields['prefetchable'])), atv)
    except (Unfoldable, KeyError, IndexError) as e:
        return ('unfoldable', str(e)[:80])


def b3_word_index(F, R, cam_ids):
    """The MMIO accessors built on the offset function address 32-bit words: element index = byte offset >> 2, for the
    device function and register they were asked for (read and write agree)."""
    n = 0
    for b in F.bodies.values():
        if not F.handwritten(b) or b.get('impl_trait') != 'transport::pci::bus::ConfigurationAccess' or b['name'] not in ('read_word', 'write_word'):
            continue
        sg = supergraph(F, b['id'], opaque=lambda t, bb: bb['id'] in cam_ids, tag='b3w')
        if not any(True for _ in sg.calls(lambda d: d.get('fn') in cam_ids)):
            continue
        S = sg.sym
        where = fn_site(F, b['id'])
        bad = None
        gets = [c for c in sg.calls(lambda d: d.get('fn', '').endswith('::get') or d.get('fn', '').endswith('::get_mut') or '::index' in d.get('fn', ''))]
        cams = [c for c in sg.calls(lambda d: d.get('fn') in cam_ids)]
        if not gets:
            continue      # not a word-array window (e.g. the hypercall based accessor passes the byte offset on)
        n += 1
        if len(cams) != 1:
            bad = '%d offset computations, %d element selections' % (len(cams), len(gets))
        else:
            c = cams[0]
            args = [S.operand(c.id, a) for a in c.d['args']]
            if not (strip_conv(args[1]) == ('param', 2) and strip_conv(args[2]) == ('param', 3)):
                bad = 'the offset is computed for (%s, %s), not for the requested device function and register' % (fmt(args[1])[:40], fmt(args[2])[:40])
            for g in gets:
                idx = S.operand(g.id, g.d['args'][1])
                for off in (0, 4, 0x3c, 0x100, 0xffffc, 0xfffffffc):
                    def leaf(t, off=off):
                        if t[0] == 'call' and t[2] in cam_ids:
                            return off
                        raise Unfoldable(fmt(t)[:60])
                    try:
                        got = Folder(leaf).ev(idx)
                    except Unfoldable as e:
                        bad = 'cannot fold the element index: %s' % e
                        break
                    R.tables += 1
                    if got != off >> 2:
                        bad = 'byte offset %#x is accessed at word index %#x, expected %#x' % (off, got, off >> 2)
                        break
        R.check(bad is None, 'B3', '%s:word-index' % b['id'], where, 'accesses word (byte offset >> 2) of the requested function/register',
                'configuration access through the memory-mapped window: %s' % bad)
    R.count('cam_accessors', n)


def b3_cam(F, R):
    cams = [b for b in F.bodies.values() if F.handwritten(b) and b['name'] == 'cam_offset']
    cams = [b for b in F.bodies.values() if F.handwritten(b) and b['kind'] == 'AssocFn' and b.get('impl_adt') == 'transport::pci::bus::Cam'
            and b.get('sig', '').endswith('-> u32') and 'DeviceFunction' in b.get('sig', '')]
    if not cams:
        R.abstain('B3', 'cam_offset', 'CAM offset function not found by signature')
        return
    b3_word_index(F, R, set(b['id'] for b in cams))
    for b in cams:
        sg = supergraph(F, b['id'])
        where = fn_site(F, b['id'])
        paths = PathEnum(sg).run()
        camadt = F.adts['transport::pci::bus::Cam']
        variants = {v['name']: int(v['discr']) for v in camadt['variants']}
        rows = 0
        bad = None
        seen = {}
        for vname, vd in variants.items():
            ecam = vname.lower().startswith('ecam')
            shifts = (20, 15, 12) if ecam else (16, 11, 8)
            maxreg = 0xfff if ecam else 0xff
            for bus in (0, 1, 0x7f, 0xff):
                for dev in (0, 1, 17, 31):
                    for fnn in (0, 3, 7):
                        for reg in (0, 4, 0x10, 0x3c, 0xfc) + ((0x100, 0xffc) if ecam else ()):
                            def leaf(t):
                                if t[0] == 'discr' and t[1] in (('param', 1), ('load0', ('loc', ('deref', ('param', 1), '&transport::pci::bus::Cam'), ()))):
                                    return vd
                                if t[0] == 'discr':
                                    return vd
                                s_ = fmt(t)
                                if 'arg2' in s_ and s_.endswith('.bus'):
                                    return bus
                                if 'arg2' in s_ and s_.endswith('.device'):
                                    return dev
                                if 'arg2' in s_ and s_.endswith('.function'):
                                    return fnn
                                if t == ('param', 3):
                                    return reg
                                raise Unfoldable(s_[:80])
                            fo = Folder(leaf)
                            hit = None
                            try:
                                for p in paths:
                                    if path_holds(fo, p):
                                        hit = p
                                        break
                            except Unfoldable as e:
                                R.abstain('B3', b['id'], 'cannot fold: %s' % e, where)
                                return
                            rows += 1
                            want = bus << shifts[0] | dev << shifts[1] | fnn << shifts[2] | reg
                            if hit is None or hit.panicked:
                                bad = '%s bus=%d dev=%d fn=%d reg=%#x: no normal path (valid tuple rejected)' % (vname, bus, dev, fnn, reg)
                                break
                            got = fo.ev(hit.ret)
                            if got != want:
                                bad = '%s bus=%d dev=%d fn=%d reg=%#x: offset %#x, expected %#x' % (vname, bus, dev, fnn, reg, got, want)
                                break
                            if (vname, got) in seen and seen[(vname, got)] != (bus, dev, fnn, reg):
                                bad = '%s: tuples %s and %s collide at %#x' % (vname, seen[(vname, got)], (bus, dev, fnn, reg), got)
                                break
                            seen[(vname, got)] = (bus, dev, fnn, reg)
                        if bad:
                            break
                    if bad:
                        break
                if bad:
                    break
            if bad:
                break
        R.count('cam_rows', rows if not bad else 1000)
        R.tables += rows
        R.check(bad is None, 'B3', '%s:offsets' % b['id'], where, 'CAM/ECAM offsets match the bit layout and are injective on %d tuples' % rows,
                'configuration-space addressing: %s' % bad)


def header_type_name(F, code):
    """Variant the crate's `From<u8> for HeaderType` yields for a header-type code."""
    for b in F.bodies.values():
        if b.get('impl_trait') == 'core::convert::From' and 'HeaderType' in (b.get('impl_self') or '') and b['name'] == 'from' and F.handwritten(b):
            try:
                paths = PathEnum(supergraph(F, b['id'])).run()
            except PathLimit:
                return None
            fo = Folder(lambda t: code if t == ('param', 1) else (_ for _ in ()).throw(Unfoldable(fmt(t)[:40])))
            try:
                hit = [p for p in paths if not p.panicked and path_holds(fo, p)]
            except Unfoldable:
                return None
            if len(hit) == 1 and hit[0].ret and hit[0].ret[0] == 'agg':
                return hit[0].ret[1].rsplit('::', 1)[1]
    return None


def b3c_clone_preserves_addressing(F, R):
    """The configuration access handed to the bus iterator is a clone of the root's: every field of the value `unsafe_clone` builds
    derives from the same field of the original (window pointer, base address, addressing mode), so the clone addresses
    configuration space exactly as the root does (CAM vs ECAM)."""
    n = 0
    for b in sorted(F.bodies.values(), key=lambda x: x['id']):
        if b.get('impl_trait') != CFGACC or b['name'] != 'unsafe_clone' or not F.handwritten(b):
            continue
        sg = supergraph(F, b['id'], tag='flat', max_depth=0)
        S = sg.sym
        for nd in sg.nodes:
            if nd.kind != 'assign' or nd.d['rv']['rv'] != 'agg' or nd.d['rv'].get('adt') != b.get('impl_adt'):
                continue
            rv = nd.d['rv']
            n += 1
            bad = None
            for f_, o_ in zip(rv['fields'], rv['ops']):
                v = S.operand(nd.id, o_)
                same = any(x[0] == 'loc' and x[2] and x[2][-1][0] == 'f' and x[2][-1][1] == f_ and any(y == ('param', 1) for y in subterms(x)) for x in deep_subterms(S, v)) or \
                    any(x[0] in ('load', 'load0') and x[1][2] and x[1][2][-1][0] == 'f' and x[1][2][-1][1] == f_ for x in deep_subterms(S, v))
                if not same:
                    bad = 'field `%s` of the clone is %s, not derived from the original\'s `%s`' % (f_, fmt(v)[:60], f_)
            R.check(bad is None, 'B3', '%s:clone-preserves-addressing' % b['id'], site(sg, nd), 'every field of the clone derives from the same field of the original',
                    'configuration access clone: %s - accesses through the clone (bus enumeration) use another window / addressing mode than the root' % bad)
    R.count('cam_clones', n)


def b3d_window_covers_cam(F, R):
    """The memory-mapped accessor's word array covers the whole window its addressing mode spans: element count * 4 = the window size the
    offset function's mode defines, so every offset the offset function accepts indexes inside the array (and none is cut off)."""
    sizes = [b['id'] for b in F.bodies.values() if b['name'] == 'size' and b.get('impl_adt', '').endswith('::Cam') and F.handwritten(b)]
    n = 0
    for b in sorted(F.bodies.values(), key=lambda x: x['id']):
        if 'transport::pci::bus' not in b['id'] or not F.handwritten(b) or b['kind'] not in ('AssocFn', 'Fn'):
            continue
        if not any(bl['term']['k'] == 'call' and 'slice_from_raw_parts' in bl['term'].get('fn', '') for bl in b['blocks']):
            continue
        sg = supergraph(F, b['id'], tag='flat', max_depth=0)
        S = sg.sym
        for c in sg.calls(lambda d: 'slice_from_raw_parts' in d.get('fn', '')):
            cnt = S.operand(c.id, c.d['args'][1])
            if not any(x[0] == 'call' and x[2] in sizes for x in subterms(cnt)):
                continue
            esz = 4 if any('u32' in x_ for x_ in c.d.get('substs', [])) else None
            if esz is None:
                continue
            n += 1
            bad = None
            for wsize in (0x1000000, 0x10000000, 0x1000, 0x2004):
                def leaf(t, wsize=wsize):
                    if t[0] == 'call' and t[2] in sizes:
                        return wsize
                    raise Unfoldable(fmt(t)[:60])
                try:
                    got = Folder(leaf).ev(cnt)
                except Unfoldable as e:
                    bad = 'unfoldable: %s' % e
                    break
                if got != wsize // esz:
                    bad = 'a window of %#x bytes is mapped as %#x words (%#x bytes): %s' % (wsize, got, got * esz, 'its last word(s) cannot be accessed' if got * esz < wsize else 'it extends past the window')
                    break
            if bad and bad.startswith('unfoldable'):
                R.abstain('B3', '%s:window-covers-cam' % b['id'], bad, site(sg, c))
                continue
            R.check(bad is None, 'B3', '%s:window-covers-cam' % b['id'], site(sg, c), 'word count = window size / 4',
                    'configuration access window: %s' % bad)
    R.count('cam_windows', n)


HEADER_KINDS = (('cardbus', 2), ('bridge', 1), ('standard', 0), ('normal', 0), ('general', 0))


def b7_header_types(F, R):
    """Header-type codes (PCI 3.0 6.1: 0 standard, 1 PCI-to-PCI bridge, 2 CardBus bridge) decode to the variant of that meaning;
    the variants are recognised by their names (cardbus / bridge / standard), every other code to a variant that carries it."""
    n = 0
    for b in F.bodies.values():
        if not (b.get('impl_trait') == 'core::convert::From' and b['name'] == 'from' and F.handwritten(b) and b['id'].find('transport::pci') >= 0
                and b['arg_count'] == 1 and b['locals'][1]['ty'] == 'u8'):
            continue
        e = F.adts.get(b['locals'][0]['ty'])
        if not e or e['kind'] != 'enum':
            continue
        kinds = {}
        for v in e['variants']:
            if v['fields']:
                continue
            for key, code in HEADER_KINDS:
                if key in v['name'].lower():
                    kinds[v['name']] = code
                    break
        if len(kinds) < 3 or sorted(kinds.values()) != [0, 1, 2]:
            continue      # not a header-type enum with recognisable variant names
        n += 1
        bad = None
        for code in (0, 1, 2, 3, 4, 0x7f):
            got = header_type_name(F, code)
            want = [k for k, c in kinds.items() if c == code]
            if got is None:
                bad = 'code %#x: conversion not foldable' % code
                break
            if want and got != want[0]:
                bad = 'header type %#x decodes to %s, PCI defines it as %s' % (code, got, want[0])
                break
            if not want and got in kinds:
                bad = 'undefined header type %#x decodes to %s' % (code, got)
                break
        if bad and 'not foldable' in bad:
            R.abstain('B7', b['id'], bad, fn_site(F, b['id']))
            continue
        R.check(bad is None, 'B7', 'header-types', fn_site(F, b['id']), 'codes 0/1/2 decode to standard / PCI bridge / CardBus bridge, others to none of them',
                'header type decoding: %s' % bad)
    R.count('header_type_tables', n)


def b6_restore_on_every_exit(F, R):
    n = 0
    for b in F.bodies.values():
        if not F.handwritten(b) or b['kind'] != 'AssocFn' or 'transport::pci::bus::PciRoot' not in (b.get('impl_adt') or ''):
            continue
        # command-register writers: private helpers whose only config write targets the status/command word (offset 4)
        sg = supergraph(F, b['id'], opaque=lambda t, bb: bb.get('pub') and bb['id'] != b['id'], tag='b6')
        S = sg.sym
        cw = []
        for c in sg.calls(lambda d: d.get('trait') == 'transport::pci::bus::ConfigurationAccess' and d.get('method') == 'write_word'):
            off = fold_const(S.operand(c.id, c.d['args'][2]))
            if off == 4:
                cw.append(c.id)
        # calls to public helpers that write the command register (set_command)
        for c in sg.calls(lambda d: d.get('fn', '').endswith('::set_command')):
            cw.append(c.id)
        if not cw:
            continue
        n += 1
        where = fn_site(F, b['id'])
        bad = None
        # loop-free functions are decided over their enumerated paths (value-correlated conditions such as a saved
        # Option<Command> are then exact); the graph query below covers the rest
        paths = None
        if not back_edges(sg):
            try:
                paths = PathEnum(sg).run()
            except PathLimit:
                paths = None
        if paths is not None:
            disabling = set(w for w in cw if any(o in sg.reach_fwd(list(sg.nodes[w].succ)) for o in cw if o != w))
            for p in paths:
                if p.panicked or (p.end and p.end[0] == 'loop'):
                    continue
                ws = [e[1] for e in p.effects if e[0] == 'call' and e[1] in cw]
                if ws and ws[-1] in disabling:
                    bad = 'after the command register is rewritten at %s a return is reachable without a later write restoring it' % site(sg, sg.nodes[ws[-1]])
            R.check(bad is None, 'B6', '%s:command-restored-on-every-exit' % b['id'], where,
                    'every returning path that rewrites the command register ends with a restoring write (%d writes, %d paths)' % (len(cw), len(paths)),
                    'BAR probing side effect: %s (an error return leaves address decoding disabled)' % bad)
            continue
        for w in cw:
            others = [x for x in cw if x != w]
            # is this a "disable" write, i.e. can another command write follow it? if none can, it is the restore itself
            if not any(o in sg.reach_fwd(list(sg.nodes[w].succ)) for o in others):
                continue
            # path correlation: the write happens under conditions (e.g. `disabled != original`) that are re-tested before
            # the restore; the opposite outcome of a test of the same value is infeasible after this write
            def norm(t):
                # comparison calls at different program points over the same (immutable) values denote the same test
                if isinstance(t, tuple):
                    if t and t[0] == 'call' and len(t) > 3 and (t[2].endswith('::ne') or t[2].endswith('::eq')):
                        args_ = []
                        for a in t[3]:
                            v_ = local_value_of_ref(S, a) if (a[0] == 'ref' and a[1][1][0] == 'local' and not a[1][2]) else None
                            args_.append(norm(v_ if v_ is not None else a))
                        return ('call', t[2], tuple(args_))
                    if t and t[0] == 'refto':
                        return norm(t[1])
                    return tuple(norm(x) for x in t)
                return t
            infeasible = set()
            for swid, vals, succ in sg.guards_of(w):
                dterm = norm(S.operand(swid, sg.nodes[swid].d['discr']))
                for m in sg.nodes:
                    if m.kind == 'switch' and m.id != swid and norm(S.operand(m.id, m.d['discr'])) == dterm:
                        for val, sc in m.switch_edges:
                            same = (val in vals) if val is not None else (None in vals)
                            if not same:
                                infeasible.add((m.id, sc))
            r = sg.reach_fwd(list(sg.nodes[w].succ), avoid=others, avoid_edges=infeasible)
            ex = [e for e in sg.exits if e in r]
            if ex:
                bad = 'after the command register is rewritten at %s a return is reachable without a later write restoring it' % site(sg, sg.nodes[w])
        R.check(bad is None, 'B6', '%s:command-restored-on-every-exit' % b['id'], where, 'every return after a command-register write is preceded by a restoring write (%d writes)' % len(cw),
                'BAR probing side effect: %s (an error return leaves address decoding disabled)' % bad)
    R.count('command_bracket_fns', n)


def b5_bus_walk(F, R):
    its = [b for b in F.bodies.values() if F.handwritten(b) and b.get('impl_trait') == 'core::iter::Iterator' and b['name'] == 'next'
           and 'BusDeviceIterator' in b.get('impl_self', '')]
    R.count('bus_iterators', len(its))
    for b in its:
        sg = supergraph(F, b['id'])
        where = fn_site(F, b['id'])
        try:
            paths = PathEnum(sg).run()
        except PathLimit as e:
            R.abstain('B5', b['id'], str(e), where)
            continue

        def is_state(t, fld):
            return t[0] in ('load0',) and t[1][2] and t[1][2][-1][0] == 'f' and t[1][2][-1][1] == fld

        def step(d, f, present):
            def leaf(t):
                if is_state(t, 'device'):
                    return d
                if is_state(t, 'function'):
                    return f
                if is_state(t, 'bus'):
                    return 0
                if t[0] == 'call' and 'read_word' in t[2]:
                    off = fold_const(t[3][2]) if len(t[3]) > 2 else None
                    if off == 0:
                        return 0x10411af4 if present else 0xffffffff
                    return {8: 0x0c035510, 12: 0x00810000}.get(off, 0)
                if 'log::' in fmt(t):
                    return 0
                raise Unfoldable(fmt(t)[:80])
            fo = Folder(leaf)
            hit = [p for p in paths if path_holds(fo, p)]
            if len(hit) != 1:
                return ('bad', '%d feasible paths' % len(hit))
            p = hit[0]
            if p.panicked:
                return ('bad', 'panics (%s)' % (p.end,))
            nd, nf = d, f
            probes = []
            for e in p.effects:
                if e[0] == 'store' and e[2][2] and e[2][2][-1][0] == 'f':
                    if e[2][2][-1][1] == 'device':
                        nd = fo.ev(e[3])
                    elif e[2][2][-1][1] == 'function':
                        nf = fo.ev(e[3])
                if e[0] == 'call' and 'read_word' in e[2]:
                    a = e[3][1]
                    if a[0] == 'load0' and a[1][2] and a[1][2][-1][1] == 'next':
                        probes.append((d, f))
                    else:
                        probes.append(('?', fmt(a)[:60]))
            if p.end and p.end[0] == 'loop':
                return ('continue', nd, nf, probes, None)
            r = p.ret
            if r and r[0] == 'agg' and r[1].endswith('::None'):
                return ('none', nd, nf, probes, None)
            if r and r[0] == 'agg' and r[1].endswith('::Some'):
                cur = r[2][0][2][0] if r[2][0][0] == 'agg' else None
                if cur is not None and cur[0] == 'load0' and cur[1][2] and cur[1][2][-1][1] == 'next':
                    info = r[2][0][2][1] if len(r[2][0][2]) > 1 else None
                    dec = {}
                    if info is not None and info[0] == 'agg':
                        for fname, op in zip(info[3], info[2]):
                            try:
                                v = op
                                if v[0] == 'call' and v[2].endswith('::from') and len(v[3]) == 1:
                                    v = v[3][0]
                                if v[0] == 'agg' and fname == 'header_type':
                                    dec[fname] = v[1].rsplit('::', 1)[1]
                                else:
                                    dec[fname] = fo.ev(v)
                            except Unfoldable:
                                dec[fname] = None
                    return ('some', nd, nf, probes, (d, f), dec)
                return ('some', nd, nf, probes, ('?', fmt(cur)[:60] if cur else '?'))
            return ('bad', 'unrecognised path end %s' % (p.end,))
        bad = None
        rows = 0
        try:
            # nothing present: the walk must probe every (d, f) once, in order, and end with None
            d, f = 0, 0
            probed = []
            succ = {}
            for _ in range(400):
                st = step(d, f, 0)
                rows += 1
                if st[0] == 'bad':
                    bad = 'state (device %d, function %d), nothing present: %s' % (d, f, st[1])
                    break
                probed += [x for x in st[3][:1]]
                if st[0] == 'none':
                    break
                if st[0] != 'continue':
                    bad = 'state (device %d, function %d): returns an item although nothing is present' % (d, f)
                    break
                succ[(d, f)] = (st[1], st[2])
                d, f = st[1], st[2]
            else:
                bad = 'the walk does not terminate within 400 iterations'
            want = [(dd, ff) for dd in range(32) for ff in range(8)]
            if not bad and sorted(probed, key=str) != sorted(want, key=str):
                missing = [x for x in want if x not in probed]
                extra = [x for x in probed if x not in want]
                dup = sorted(set(x for x in probed if probed.count(x) > 1))
                bad = 'an empty bus is probed at %d addresses instead of 32x8=256: never probed %s%s%s' % (
                    len(probed), missing[:6], (', outside the bus %s' % extra[:3]) if extra else '', (', probed twice %s' % dup[:3]) if dup else '')
            if not bad:
                for (dd, ff) in want:
                    st = step(dd, ff, 1)
                    rows += 1
                    if st[0] != 'some' or st[4] != (dd, ff):
                        bad = 'function present at (device %d, function %d): iterator yields %s' % (dd, ff, st[4] if st[0] == 'some' else st[0])
                        break
                    dec = st[5] if len(st) > 5 else {}
                    want_dec = {'vendor_id': 0x1af4, 'device_id': 0x1041, 'class': 0x0c, 'subclass': 0x03, 'prog_if': 0x55, 'revision': 0x10}
                    ht = header_type_name(F, 0x01)
                    if isinstance(dec.get('header_type'), str) and ht and dec['header_type'] != ht:
                        bad = 'header type byte 0x81 (code 1, multi-function bit set) decoded as %s; the crate\'s own From<u8> maps code 1 to %s' % (dec['header_type'], ht)
                        break
                    if isinstance(dec.get('header_type'), int):
                        want_dec['header_type'] = 1
                    wrong = {k: (dec[k], v) for k, v in want_dec.items() if k in dec and isinstance(dec[k], int) and dec[k] != v}
                    if wrong and (dd, ff) == (0, 0):
                        bad = 'identity decoding of a present function (words 0x10411af4 / 0x0c035510 / 0x00810000 at offsets 0/8/12): %s' % ', '.join(
                            '%s = %#x, PCI header defines %#x' % (k, a, w) for k, (a, w) in sorted(wrong.items()))
                        break
                    if (dd, ff) == (0, 0):
                        R.count('identity_fields', sum(1 for k in want_dec if dec.get(k) is not None))
                    if (st[1], st[2]) != succ.get((dd, ff), (st[1], st[2])):
                        bad = 'after reporting (device %d, function %d) the iterator continues at %s, but at %s when that function is absent' % (dd, ff, (st[1], st[2]), succ[(dd, ff)])
                        break
        except Unfoldable as e:
            R.abstain('B5', b['id'], 'cannot fold the iterator step: %s' % e, where)
            continue
        R.tables += rows
        R.check(bad is None, 'B5', '%s:walk' % b['id'], where, 'every (device 0..31, function 0..7) probed exactly once; a present function is reported as itself (%d steps folded)' % rows,
                'bus enumeration: %s' % bad)


def b5b_walk_start(F, R):
    """The bus walk starts at device 0, function 0 of the requested bus (B5 decides the transition from there)."""
    n = 0
    for b in F.bodies.values():
        if not F.handwritten(b) or b['kind'] != 'AssocFn' or 'impl_trait' in b or '-> transport::pci::bus::BusDeviceIterator<' not in b.get('sig', ''):
            continue
        sg = supergraph(F, b['id'])
        where = fn_site(F, b['id'])
        paths = [p for p in PathEnum(sg).run() if not p.panicked]
        n += 1
        bad = None
        fn = sg.entry_fn
        pbus = [i + 1 for i, l in enumerate(fn['locals'][1:fn['arg_count'] + 1]) if l['ty'] == 'u8']
        for p in paths:
            dfs = [x for x in subterms(p.ret) if x[0] == 'agg' and x[1].startswith('transport::pci::bus::DeviceFunction::')] if p.ret else []
            if len(dfs) != 1:
                bad = 'cannot find the start position in %s' % (fmt(p.ret)[:80] if p.ret else None)
                continue
            f = dict(zip(dfs[0][3], dfs[0][2]))
            dv, fv = fold_const(f.get('device', ('?',))), fold_const(f.get('function', ('?',)))
            bus_ok = len(pbus) == 1 and strip_conv(f.get('bus', ('?',))) == ('param', pbus[0])
            if dv != 0 or fv != 0 or not bus_ok:
                bad = 'enumeration of a bus starts at bus=%s device=%s function=%s, expected (the requested bus, 0, 0): functions before it are never reported' % (
                    fmt(f.get('bus', ('?',)))[:30], dv, fv)
        R.check(bad is None and bool(paths), 'B5', '%s:walk-start' % b['id'], where, 'walk starts at (bus, 0, 0)', 'bus walk: %s' % bad)
    R.count('bus_walk_starts', n)


def b4b_list_start(F, R):
    """Start of the capability list: present iff Status bit 4, at the pointer byte of register 0x34 with the two reserved
    low bits masked (PCI 3.0 6.7)."""
    n = 0
    for b in F.bodies.values():
        if not F.handwritten(b) or b['kind'] != 'AssocFn' or 'impl_trait' in b or not b.get('pub'):
            continue
        if '-> transport::pci::bus::CapabilityIterator<' not in b.get('sig', ''):
            continue
        sg = supergraph(F, b['id'])
        where = fn_site(F, b['id'])
        try:
            paths = [p for p in PathEnum(sg).run()]
        except PathLimit as e:
            R.abstain('B4', b['id'] + ':list-start', str(e), where)
            continue
        n += 1
        bad = None
        rows = 0
        for status in (0x0000, 0x0010, 0xffef, 0xffff, 0x0210):
            for ptr in (0x00000000, 0x00000040, 0x00000041, 0x00000043, 0x000000fc, 0x000000ff, 0x12345678):
                def leaf(t, status=status, ptr=ptr):
                    if t[0] == 'call' and 'read_word' in t[2] and len(t[3]) > 2:
                        off = fold_const(t[3][2])
                        if off == 4:
                            return (status << 16) | 0x0007
                        if off == 0x34:
                            return ptr
                    raise Unfoldable(fmt(t)[:80])
                fo = Folder(leaf)
                try:
                    hit = [p for p in paths if path_holds(fo, p)]
                except Unfoldable as e:
                    R.abstain('B4', b['id'] + ':list-start', 'cannot fold: %s' % e, where)
                    bad = 'abstain'
                    break
                rows += 1
                if len(hit) != 1 or hit[0].panicked or hit[0].ret is None or hit[0].ret[0] != 'agg':
                    bad = 'status %#x pointer word %#x: %s' % (status, ptr, 'panics' if hit and hit[0].panicked else '%d feasible paths' % len(hit))
                    break
                opts = [x for x in hit[0].ret[2] if x[0] == 'agg' and x[1].startswith('core::option::Option::')]
                if len(opts) != 1:
                    bad = 'cannot find the start position in %s' % fmt(hit[0].ret)[:80]
                    break
                got = fo.ev(opts[0][2][0]) if opts[0][1].endswith('::Some') else None
                want = (ptr & 0xfc) if status & 0x10 else None
                if got != want:
                    bad = 'status %#06x, capabilities pointer word %#x: the walk starts at %s, expected %s' % (
                        status, ptr, hex(got) if got is not None else 'nothing', hex(want) if want is not None else 'nothing (no capability list)')
                    break
            if bad:
                break
        R.tables += rows
        if bad != 'abstain':
            R.check(bad is None, 'B4', '%s:list-start' % b['id'], where, 'walk starts at (pointer & 0xfc) iff Status.CAPABILITIES_LIST (%d rows)' % rows,
                    'capability walk start: %s' % bad)
    R.count('cap_list_starts', n)


def b3b_valid(F, R):
    """DeviceFunction::valid guards the offset computation: exactly device < 32 and function < 8."""
    for b in F.bodies.values():
        if not F.handwritten(b) or b['kind'] != 'AssocFn' or b.get('impl_adt') != 'transport::pci::bus::DeviceFunction' or 'impl_trait' in b:
            continue
        if not b.get('sig', '').endswith('-> bool') or b['arg_count'] != 1:
            continue
        sg = supergraph(F, b['id'])
        where = fn_site(F, b['id'])
        paths = PathEnum(sg).run()
        bad = None
        rows = 0
        for dev in (0, 1, 31, 32, 33, 255):
            for fun in (0, 7, 8, 9, 255):
                def leaf(t, dev=dev, fun=fun):
                    if t[0] in ('load0', 'load') and t[1][2] and t[1][2][-1][0] == 'f':
                        f_ = t[1][2][-1][1]
                        if f_ == 'device':
                            return dev
                        if f_ == 'function':
                            return fun
                        if f_ == 'bus':
                            return 0
                    raise Unfoldable(fmt(t)[:80])
                fo = Folder(leaf)
                try:
                    hit = [p for p in paths if path_holds(fo, p)]
                    got = fo.ev(hit[0].ret) if len(hit) == 1 and not hit[0].panicked else None
                except Unfoldable as e:
                    R.abstain('B3', b['id'] + ':valid-table', 'cannot fold: %s' % e, where)
                    return
                rows += 1
                want = int(dev < 32 and fun < 8)
                if got != want:
                    bad = 'device %d function %d is reported %s' % (dev, fun, {1: 'valid', 0: 'invalid', None: '?'}[got])
                    break
            if bad:
                break
        R.tables += rows
        R.check(bad is None, 'B3', '%s:valid-table' % b['id'], where, 'valid iff device < 32 and function < 8 (%d rows)' % rows,
                'the validity test that bounds configuration-space offsets is wrong: %s; offsets of such a tuple collide with another function\'s' % bad)


def b4_decode(F, R):
    """Capability iterator: id = word & 0xff, next = (word >> 8) & 0xfc, private = word >> 16; start at 0x34 if status bit 4."""
    its = [b for b in F.bodies.values() if F.handwritten(b) and b.get('impl_trait') == 'core::iter::Iterator' and b['name'] == 'next'
           and 'CapabilityIterator' in b.get('impl_self', '')]
    for b in its:
        sg = supergraph(F, b['id'])
        where = fn_site(F, b['id'])
        paths = PathEnum(sg).run()
        bad = None
        rows = 0
        for off in (0x40, 0x44, 0x80, 0xfc):
            for word in (0x00105009, 0xabcd4805, 0x0000fc09 | 0x12340000, 0x00000011):
                def leaf(t):
                    if t[0] == 'call' and t[4:] == () and t[2].endswith('read_word'):
                        return word
                    if t[0] == 'call' and 'read_word' in t[2]:
                        return word
                    s_ = fmt(t)
                    if s_.endswith('.next_capability_offset') or 'next_capability_offset' in s_:
                        if t[0] == 'discr':
                            return 1
                        return off
                    raise Unfoldable(s_[:80])
                fo = Folder(leaf)
                hit = None
                try:
                    for p in paths:
                        if not p.panicked and path_holds(fo, p):
                            hit = p
                            break
                except Unfoldable as e:
                    R.abstain('B4', b['id'], 'cannot fold capability decoder: %s' % e, where)
                    return
                rows += 1
                if hit is None:
                    bad = 'no path for offset %#x word %#x' % (off, word)
                    break
                r = hit.ret
                if not (r[0] == 'agg' and r[1].endswith('::Some')):
                    bad = 'offset %#x: iterator stops although a capability is present' % off
                    break
                ci = r[2][0]
                f = dict(zip(ci[3], ci[2]))
                got = (fo.ev(f['offset']), fo.ev(f['id']), fo.ev(f['private_header']))
                want = (off, word & 0xff, word >> 16)
                nxt = None
                for e in hit.effects:
                    if e[0] == 'store' and 'next_capability_offset' in fmt(e[2]):
                        nxt = e[3]
                if got != want:
                    bad = 'word %#x at %#x decoded as (offset,id,private)=%s, expected %s' % (word, off, got, want)
                    break
            if bad:
                break
            # next-pointer handling: continue at `next` iff it is non-zero, 4-aligned and >= 0x40
            for nxt_ in (0, 0x02, 0x3c, 0x40, 0x41, 0x42, 0x44, 0x48, 0x80, 0xfc, 0xfe, 0xff):
                word = 0x00100009 | (nxt_ << 8)

                def leaf2(t, word=word):
                    if t[0] == 'call' and 'read_word' in t[2]:
                        return word
                    s_ = fmt(t)
                    if 'next_capability_offset' in s_:
                        if t[0] == 'discr':
                            return 1
                        return off
                    if 'log::' in s_:
                        return 0    # logging disabled: the diagnostic branch does not affect the iterator state
                    raise Unfoldable(s_[:80])
                fo = Folder(leaf2)
                hit = None
                for p in paths:
                    if not p.panicked and path_holds(fo, p):
                        hit = p
                        break
                rows += 1
                if hit is None:
                    bad = 'no path for next pointer %#x' % nxt_
                    break
                st = [e for e in hit.effects if e[0] == 'store' and 'next_capability_offset' in fmt(e[2])]
                if not st:
                    bad = 'next pointer %#x: the iterator position is not updated' % nxt_
                    break
                v = st[-1][3]
                if v[0] == 'agg' and v[1].endswith('::None'):
                    got_n = None
                elif v[0] == 'agg' and v[1].endswith('::Some'):
                    got_n = fo.ev(v[2][0])
                else:
                    bad = 'unrecognised next position %s' % fmt(v)[:60]
                    break
                want_n = nxt_ if (nxt_ != 0 and nxt_ % 4 == 0 and nxt_ >= 0x40) else None
                if got_n != want_n:
                    bad = 'capability at %#x with next pointer %#x: iteration continues at %s, a well-formed list requires %s' % (
                        off, nxt_, hex(got_n) if got_n is not None else 'end', hex(want_n) if want_n is not None else 'end')
                    break
            if bad:
                break
        R.tables += rows
        R.check(bad is None, 'B4', '%s:decode' % b['id'], where, 'capability header decoded per PCI 3.0 6.7 on %d rows' % rows, 'capability iterator: %s' % bad)
