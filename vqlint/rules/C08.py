"""C08 - every driver performs the init handshake and honours the negotiated features.

Decided:
 H0 no Transport impl overrides begin_init / finish_init.
 H1 handshake: begin_init is path-enumerated: set_status(0), set_status(ACK|DRIVER=3), read_device_features,
    write_driver_features(device & supported), set_status(3|FEATURES_OK=11), set_guest_page_size; finish_init sets 15.
    In every driver constructor (typestate over the inlined MIR): begin_init precedes every queue construction, every
    queue construction precedes finish_init, finish_init precedes the Ok return, no Transport::notify happens before
    finish_init (VirtIO 1.2 3.1.1: no notification before DRIVER_OK), no queue is constructed after it.
 H2 supported sets: the constant each driver passes to begin_init contains VERSION_1 (bit 32), contains none of
    RING_PACKED (34), NOTIFICATION_DATA (38), NOTIF_CONFIG_DATA (39) - formats the queue/transports do not implement -
    and, for net, not MRG_RXBUF (15); named feature constants equal the specification's bit numbers.
 H3 argument agreement: at each queue construction the three booleans are, in position, contains(negotiated, bit 28),
    contains(negotiated, bit 29), contains(negotiated, bit 33) of the value returned by begin_init (folded per bit).
 H4 feature-gated operations: block flush sends nothing unless FLUSH (9) was negotiated; console emergency write
    needs EMERG_WRITE (2), console size needs SIZE (0); GPU get_edid needs EDID (1); readonly() reports RO (5) of the
    negotiated set.
 H1t transport side of the handshake: both 32-bit halves of the offered / accepted feature sets are read / written,
    selector first, on MMIO legacy+modern and PCI (C10.M2 / C11.W3 traces).
 H5 net header form: the legacy-header flag is (not VERSION_1 and not MRG_RXBUF) of the negotiated set.
"""
from .common import *
from ..paths import *
from . import C05

EXPLANATION = ("begin_init/finish_init are folded into event traces with status constants compared with VirtIO 1.2 2.1/3.1.1; driver "
               "constructors are checked by path queries over the inlined MIR with queue construction/notify as events; feature "
               "constants and queue-constructor arguments are folded per feature bit.")
FLOORS = {'constructors': {'*': 10, 'noalloc': 4}, 'queue_constructions': {'*': 10, 'noalloc': 4}, 'supported_sets': {'*': 10, 'noalloc': 4},
          'feature_constants': {'*': 100, 'noalloc': 70}}

BITS = {'RING_INDIRECT_DESC': 28, 'RING_EVENT_IDX': 29, 'VERSION_1': 32, 'ACCESS_PLATFORM': 33, 'RING_PACKED': 34, 'IN_ORDER': 35,
        'ORDER_PLATFORM': 36, 'SR_IOV': 37, 'NOTIFICATION_DATA': 38, 'NOTIFY_ON_EMPTY': 24, 'ANY_LAYOUT': 27, 'UNUSED': 30}
DEVICE_BITS = {
    'device::blk::BlkFeature': {'RO': 5, 'FLUSH': 9, 'SIZE_MAX': 1, 'SEG_MAX': 2, 'GEOMETRY': 4, 'BLK_SIZE': 6, 'TOPOLOGY': 10, 'CONFIG_WCE': 11,
                                'MQ': 12, 'DISCARD': 13, 'WRITE_ZEROES': 14, 'LIFETIME': 15, 'SECURE_ERASE': 16, 'BARRIER': 0, 'SCSI': 7},
    'device::console::Features': {'SIZE': 0, 'MULTIPORT': 1, 'EMERG_WRITE': 2},
    'device::gpu::Features': {'VIRGL': 0, 'EDID': 1},
    'device::net::Features': {'CSUM': 0, 'GUEST_CSUM': 1, 'MAC': 5, 'MRG_RXBUF': 15, 'STATUS': 16, 'CTRL_VQ': 17, 'MQ': 22, 'MTU': 3},
}


def run(F, R):
    M = model(F)
    M.require_rings()
    h0(F, R)
    h1_begin_finish(F, R)
    qctor = [b['id'] for b in queue_entry_points(F, M) if b.get('sig', '').find('-> core::result::Result<%s<' % M.queue_adt) >= 0]
    ctors = h1_constructors(F, R, M, qctor)
    queue_ctor_flags(F, R, M)
    # H6: the indirect form is used only on a queue whose indirect mode was negotiated: capacity / form table of add (C03.E3)
    from .C03 import e3_capacity
    _r8 = C05.classify_api(C05.queue_api(F, M))
    for _k, _v in _r8.items():
        if _v == 'add':
            guard(R, 'H6', 'form', lambda _k=_k: e3_capacity(F, R, M, _k, rule='H6', rule1='H6'))
    h2_supported(F, R, ctors)
    h2_constants(F, R)
    h4_gated(F, R, M)
    h5_net(F, R)
    # H7: the event-index mechanism inside the queue is used only when negotiated: used_event is re-armed, and avail.flags bypassed,
    # only under the queue's event-idx flag (C05.N2)
    from . import C05 as _c5q
    _rq = _c5q.classify_api(_c5q.queue_api(F, M))
    _byq = {}
    for _k, _v in _rq.items():
        _byq.setdefault(_v, []).append(_k)
    guard(R, 'H7', 'event-idx-gating', lambda: _c5q.n2_direction(F, RuleProxy(R, {'N2': 'H7'}), M, _byq))
    # H1 (transport side): the accepted feature set reaches the device in full and the offered set is read in full -
    # both 32-bit halves, selector first - on the real MMIO (legacy and modern) and PCI transports (register traces
    # shared with C10.M2 / C11.W3)
    from . import C10 as _c10, C11 as _c11
    _ft = lambda inst: 'features' in inst
    _c10.ONLY_OPS = {'read_device_features', 'write_driver_features'}
    try:
        _c10.run(F, RuleProxy(R, {'M2': 'H1'}, only=_ft))
    finally:
        _c10.ONLY_OPS = None
    _c11.run(F, RuleProxy(R, {'W3': 'H1'}, only=_ft))
    # H5 (use sites): every network-driver function that touches a header form selects it with the legacy-header flag
    # (12-byte modern form exactly when the flag - i.e. not VERSION_1 - is clear); shared with C16.S1
    if 'device::net::VirtioNetHdr' in F.adts:
        from . import C16 as _c16, C05 as _c5
        _roles = _c5.classify_api(_c5.queue_api(F, M))
        _h12, _h10 = _c16.hdr_types(F)
        if len(_h12) == 1 and len(_h10) == 1:
            _c16.s1_selector(F, RuleProxy(R, {'S1': 'H5'}), _roles, _h12[0], _h10[0])


def h0(F, R):
    for m in ('begin_init', 'finish_init'):
        ov = F.overrides.get((TRANSPORT, m))
        R.check(not ov, 'H0', 'no-override:%s' % m, '', 'no impl overrides %s' % m, '%s is overridden by %s' % (m, ov))


def h1_begin_finish(F, R):
    bid, fid = 'transport::Transport::begin_init', 'transport::Transport::finish_init'
    for x in (bid, fid):
        if x not in F.bodies:
            raise Undecided('%s not found' % x)
    sg = supergraph(F, bid)
    paths = [p for p in PathEnum(sg).run() if not p.panicked]
    where = fn_site(F, bid)
    ok_all = bool(paths)
    det = ''
    for p in paths:
        seq = []
        for e in p.effects:
            if e[0] == 'call' and e[4].get('trait') == TRANSPORT:
                m = e[4]['method']
                if m == 'set_status':
                    seq.append(('set_status', fold_const(e[3][1])))
                elif m == 'write_driver_features':
                    seq.append(('write_features', e))
                else:
                    seq.append((m, None))
        names = [(a, b) if a == 'set_status' else (a,) for a, b in seq]
        want = [('set_status', 0), ('set_status', 3), ('read_device_features',), ('write_features',), ('set_status', 11), ('set_guest_page_size',)]
        if names != want:
            ok_all = False
            det = 'event sequence %s, expected %s' % (names, want)
            continue
        # written features = device & supported, folded per bit
        wf = [b for a, b in seq if a == 'write_features'][0]
        v = wf[3][1]
        rd = [e for e in p.effects if e[0] == 'call' and e[4].get('method') == 'read_device_features'][0]
        bad = None
        for dev, sup in [(0, 0), (2**64 - 1, 0), (0, 2**64 - 1), (2**64 - 1, 2**64 - 1)] + [(1 << i, 1 << i) for i in range(0, 64, 3)] + \
                [(1 << i, 0) for i in (0, 28, 32, 63)] + [(0, 1 << i) for i in (0, 29, 33)]:
            def leaf(t, dev=dev, sup=sup):
                if t[0] == 'call' and t[1] == rd[1]:
                    return dev
                if t[0] == 'call' and t[2].endswith('from_bits_truncate'):
                    return leaf(t[3][0])
                if t[0] == 'call' and (t[2].endswith('::bits') or t[2].endswith('bitand')):
                    if t[2].endswith('bitand'):
                        return leaf(t[3][0]) & leaf(t[3][1])
                    return leaf(t[3][0])
                if t == ('param', 2) or (t[0] == 'field' and t[1] == ('param', 2)):
                    return sup
                if t[0] in ('idcall', 'conv'):
                    return leaf(t[2])
                if t[0] == 'refto':
                    return leaf(t[1])
                if t[0] == 'agg' and len(t[2]) == 1:
                    return leaf(t[2][0])
                if t[0] == 'ref':
                    raise Unfoldable('ref')
                raise Unfoldable(fmt(t)[:80])
            try:
                got = Folder(leaf).ev(v)
            except Unfoldable as e:
                bad = 'abstain:%s' % e
                break
            R.tables += 1
            if got != dev & sup:
                bad = 'device offers %#x, driver supports %#x: writes %#x, expected %#x' % (dev, sup, got, dev & sup)
                break
        if bad and bad.startswith('abstain'):
            R.abstain('H1', 'begin_init:accepted-features', bad, where)
        else:
            R.check(bad is None, 'H1', 'begin_init:accepted-features', where, 'writes device & supported', 'begin_init accepts features it should not: %s' % bad)
    R.check(ok_all, 'H1', 'begin_init:sequence', where, 'reset, ACK|DRIVER, read features, write subset, FEATURES_OK, guest page size',
            'begin_init does not follow the initialisation sequence of VirtIO 1.2 3.1.1: %s' % det)
    sg = supergraph(F, fid)
    paths = [p for p in PathEnum(sg).run() if not p.panicked]
    ok = bool(paths)
    for p in paths:
        st = [fold_const(e[3][1]) for e in p.effects if e[0] == 'call' and e[4].get('method') == 'set_status']
        if st != [15]:
            ok = False
    R.check(ok, 'H1', 'finish_init:status', fn_site(F, fid), 'set_status(ACK|DRIVER|FEATURES_OK|DRIVER_OK = 15)', 'finish_init does not set status 15')


def h1_constructors(F, R, M, qctor):
    api = C05.queue_api(F, M)
    roles = C05.classify_api(api)
    opaque_ids = set(roles) | set(qctor) | {'transport::Transport::begin_init', 'transport::Transport::finish_init', 'transport::Transport::read_consistent'}
    own = set()
    if M.owning_adt:
        for b in F.bodies.values():
            if b.get('impl_adt') == M.owning_adt and 'impl_trait' not in b:
                own.add(b['id'])
    opaque_ids |= own
    ctors = []
    nq = 0
    for b in F.bodies.values():
        if not F.handwritten(b) or b['kind'] != 'AssocFn':
            continue
        if not any(bl['term']['k'] == 'call' and bl['term'].get('method') == 'begin_init' and bl['term'].get('trait') == TRANSPORT for bl in b['blocks']):
            continue
        ctors.append(b)
        R.count('constructors', 1)
        sg = supergraph(F, b['id'], opaque=lambda t, bb: bb['id'] in opaque_ids, tag='c08')
        S = sg.sym
        live = sg.live_nodes()
        where = fn_site(F, b['id'])
        begins = [n.id for n in sg.calls(lambda d: d.get('method') == 'begin_init' and d.get('trait') == TRANSPORT)]
        fins = [n.id for n in sg.calls(lambda d: d.get('method') == 'finish_init' and d.get('trait') == TRANSPORT)]
        qnews = [n for n in sg.calls(lambda d: d.get('fn') in qctor)]
        notifies = [n for n in sg.calls(lambda d: d.get('method') == 'notify' and d.get('trait') == TRANSPORT)]
        oks = [n for n in sg.nodes if n.ctx == 0 and n.kind == 'assign' and not n.d['place']['p'] and n.d['place']['l'] == 0
               and n.d['rv']['rv'] == 'agg' and n.d['rv'].get('variant') == 'Ok' and n.id in live]
        inst = b['id']
        if not fins:
            R.violated('H1', inst + ':finish', where, 'constructor never calls finish_init (DRIVER_OK is never set)')
            continue
        for o in oks:
            R.check(sg.always_before(fins, o.id), 'H1', inst + ':finish-before-ok', site(sg, o), 'DRIVER_OK set on every path to the Ok return',
                    'an Ok return of the constructor is reachable without finish_init (DRIVER_OK)')
        for q in qnews:
            nq += 1
            R.check(sg.always_before(begins, q.id), 'H1', inst + ':begin-before-queue', site(sg, q), 'queue constructed after begin_init',
                    'a queue is constructed before begin_init (feature negotiation)')
            after_fin = any(q.id in sg.reach_fwd(sg.nodes[f].succ) for f in fins)
            R.check(not after_fin, 'H1', inst + ':queue-before-driver-ok', site(sg, q), 'queue configured before DRIVER_OK',
                    'a queue is constructed after finish_init (DRIVER_OK)')
            # H3
            h3_args(F, R, sg, S, q, begins, inst)
        for nn in notifies:
            if nn.id not in live:
                continue
            ok = sg.always_before(fins, nn.id)
            R.check(ok, 'H1', inst + ':no-notify-before-driver-ok', site(sg, nn), 'notification sent only after DRIVER_OK',
                    'Transport::notify is reachable before finish_init: the device is notified of available buffers before DRIVER_OK '
                    '(VirtIO 1.2 3.1.1 forbids it)')
    R.count('queue_constructions', nq)
    return ctors


def h3_args(F, R, sg, S, q, begins, inst):
    args = [S.operand(q.id, a) for a in q.d['args']]
    # args: transport, idx, indirect, event_idx, access_platform
    want = [28, 29, 33]
    idx = const_int(args[1]) if len(args) > 1 else None
    if idx is None and len(args) > 1:
        idx = fold_const(args[1])
    for pos, bit in zip((2, 3, 4), want):
        if pos >= len(args):
            continue
        t = args[pos]
        bad = None
        for b_ in (0, 5, 9, 15, 24, 28, 29, 32, 33, 34, 38, 63):
            def leaf(x, b_=b_):
                for y in deep_subterms(S, x):
                    if y[0] == 'call' and y[1] in begins:
                        return 1 << b_
                raise Unfoldable(fmt(x)[:80])
            try:
                got = Folder(leaf).ev(t)
            except Unfoldable as e:
                bad = 'abstain:%s' % e
                break
            R.tables += 1
            if bool(got) != (b_ == bit):
                bad = 'with only feature bit %d negotiated the argument is %s' % (b_, bool(got))
                break
        name = {28: 'indirect (INDIRECT_DESC, bit 28)', 29: 'event_idx (EVENT_IDX, bit 29)', 33: 'access_platform (ACCESS_PLATFORM, bit 33)'}[bit]
        k = '%s:queue%s:arg-%d' % (inst, idx, bit)
        if bad and bad.startswith('abstain'):
            R.abstain('H3', k, bad, site(sg, q))
        else:
            R.check(bad is None, 'H3', k, site(sg, q), 'argument %s = contains(negotiated, bit %d)' % (name, bit),
                    'queue %s is constructed with %s not equal to the negotiated feature: %s' % (idx, name, bad))


def h2_supported(F, R, ctors):
    for b in ctors:
        sg = supergraph(F, b['id'], tag='flat', max_depth=0)
        S = sg.sym
        for n in sg.calls(lambda d: d.get('method') == 'begin_init' and d.get('trait') == TRANSPORT):
            t = S.operand(n.id, n.d['args'][1])
            v = fold_const(t)
            R.count('supported_sets', 1)
            inst = b['id']
            if v is None:
                R.abstain('H2', inst + ':supported', 'supported feature set is not a constant: %s' % fmt(t)[:80], site(sg, n))
                continue
            R.check(v >> 32 & 1, 'H2', inst + ':VERSION_1', site(sg, n), 'supported set %#x contains VERSION_1' % v,
                    'supported feature set %#x does not contain VERSION_1 (bit 32): the driver would not accept it when offered' % v)
            badbits = [bit for bit in (34, 38, 39) if v >> bit & 1]
            R.check(not badbits, 'H2', inst + ':unimplemented-formats', site(sg, n), 'no RING_PACKED / NOTIFICATION_DATA / NOTIF_CONFIG_DATA',
                    'supported feature set %#x accepts feature bit(s) %s whose ring/notification format is not implemented' % (v, badbits))
            if 'net' in b['id']:
                R.check(not (v >> 15 & 1), 'H2', inst + ':MRG_RXBUF', site(sg, n), 'net does not accept MRG_RXBUF',
                        'net driver accepts MRG_RXBUF (bit 15) but never reads num_buffers')


def h2_constants(F, R):
    n = 0
    for path, c in F.consts.items():
        if 'bits' not in c or '@' in path and '__bitflags' in path:
            continue
        if '::' not in path:
            continue
        name = path.split('@')[0].rsplit('::', 1)[1]
        owner = c.get('impl_self') or ''
        ty = c.get('ty', '')
        if ty not in ('device::common::Feature',) and ty not in DEVICE_BITS and not ty.endswith('Feature') and not ty.endswith('Features'):
            continue
        if 'FLAGS' in path or 'ALL_NAMED' in path:
            continue
        want = None
        if name in BITS and name not in DEVICE_BITS.get(ty, {}):
            want = BITS[name]
        if name in DEVICE_BITS.get(ty, {}):
            want = DEVICE_BITS[ty][name]
        if want is None:
            continue
        n += 1
        R.tables += 1
        v = int(c['bits'])
        R.check(v == 1 << want, 'H2', 'const:%s::%s' % (ty, name), c.get('span', '').rsplit(':', 3)[0], '%s = bit %d' % (name, want),
                'feature constant %s::%s = %#x, the specification assigns bit %d' % (ty, name, v, want))
    R.count('feature_constants', n)


def h4_gated(F, R, M):
    api = C05.queue_api(F, M)
    roles = C05.classify_api(api)
    gated = [('device::blk::VirtIOBlk', 'flush', 9, 'FLUSH'), ('device::console::VirtIOConsole', 'emergency_write', 2, 'EMERG_WRITE'),
             ('device::console::VirtIOConsole', 'size', 0, 'SIZE'), ('device::gpu::VirtIOGpu', 'get_edid', 1, 'EDID')]
    for adt, meth, bit, fname in gated:
        bs = [b for b in F.bodies.values() if b.get('impl_adt') == adt and b['name'] == meth and 'impl_trait' not in b and b['kind'] == 'AssocFn']
        if not bs:
            R.note('H4: %s::%s not present' % (adt, meth))
            continue
        b = bs[0]
        sg = supergraph(F, b['id'], opaque=lambda t, bb: bb['id'] in roles or has_loop(bb) or bb['id'] == 'transport::Transport::read_consistent', tag='h4')
        where = fn_site(F, b['id'])
        try:
            paths = PathEnum(sg).run()
        except PathLimit as e:
            R.abstain('H4', '%s::%s' % (adt, meth), str(e), where)
            continue

        def effects_of(p):
            return [e for e in p.effects if e[0] == 'call' and (e[2] in roles or e[4].get('trait') == TRANSPORT and e[4].get('method') in (
                'write_config_space', 'read_config_space', 'read_consistent', 'notify'))]
        res = {}
        bool_fields = {f['name'] for f in F.adts[adt]['variants'][0]['fields'] if f['ty'] == 'bool'}
        gate_fields = set()
        for p in paths:
            for disc, _, _ in p.conds:
                for x in subterms(disc):
                    if x[0] == 'load0' and x[1][2] and x[1][2][-1][0] == 'f' and x[1][2][-1][1] in bool_fields and x[1][2][-1][2] == adt:
                        gate_fields.add(x[1][2][-1][1])
        for gf in gate_fields:
            verify_gate_field(F, R, adt, gf, bit, fname)
        for val in (0, 1 << bit, (2**64 - 1) ^ (1 << bit)):
            def leaf(t, val=val):
                if t[0] == 'load0' and t[1][2] and t[1][2][-1][0] == 'f' and t[1][2][-1][1] in gate_fields:
                    return val >> bit & 1
                if t[0] == 'load0' and any(pp[0] == 'f' and 'feature' in pp[1] for pp in t[1][2]):
                    return val
                if t[0] == 'field' and t[2] in ('0', 'bits'):
                    return leaf(t[1])
                raise Unfoldable(fmt(t)[:80])
            fo = Folder(leaf)
            hit = []
            for p in paths:
                feasible = True
                for disc, (kind, vals), _ in p.conds:
                    if not derives_from(disc, lambda x: x[0] == 'load0' and any(pp[0] == 'f' and ('feature' in pp[1] or pp[1] in gate_fields) for pp in x[1][2])):
                        continue
                    try:
                        v = fo.ev(disc)
                    except Unfoldable:
                        continue
                    if (kind == 'in' and v not in vals) or (kind != 'in' and v in vals):
                        feasible = False
                        break
                if feasible:
                    hit.append(p)
            res[val] = any(effects_of(p) for p in hit)
        ok = (not res[0]) and res[1 << bit] and not res[(2**64 - 1) ^ (1 << bit)]
        R.check(ok, 'H4', '%s::%s' % (adt, meth), where, 'device interaction only when %s (bit %d) was negotiated' % (fname, bit),
                '%s::%s talks to the device regardless of the negotiated %s feature (bit %d): effects with no features=%s, with only that bit=%s, '
                'with all but that bit=%s' % (adt, meth, fname, bit, res[0], res[1 << bit], res[(2**64 - 1) ^ (1 << bit)]))
    # readonly() = contains(negotiated, RO)
    bs = [b for b in F.bodies.values() if b.get('impl_adt') == 'device::blk::VirtIOBlk' and b['name'] == 'readonly' and b['kind'] == 'AssocFn']
    for b in bs:
        sg = supergraph(F, b['id'])
        paths = [p for p in PathEnum(sg).run() if not p.panicked]
        bad = None
        for bit in range(0, 64):
            val = 1 << bit

            def leaf(t):
                if t[0] == 'load0':
                    return val
                if t[0] == 'field' and t[2] in ('0', 'bits'):
                    return leaf(t[1])
                raise Unfoldable(fmt(t)[:80])
            fo = Folder(leaf)
            try:
                got = [fo.ev(p.ret) for p in paths if path_holds(fo, p)]
            except Unfoldable as e:
                bad = 'unfoldable %s' % e
                break
            if got != [int(bit == 5)]:
                bad = 'only bit %d negotiated -> readonly() = %s' % (bit, got)
                break
        R.check(bad is None, 'H4', 'device::blk::VirtIOBlk::readonly', fn_site(F, b['id']), 'readonly() = RO (bit 5) of the negotiated features', 'readonly(): %s' % bad)


def verify_gate_field(F, R, adt, field, bit, fname):
    """The boolean gate field is initialised by the constructor to contains(negotiated, bit)."""
    for b in F.bodies.values():
        if b.get('impl_adt') != adt or not F.handwritten(b):
            continue
        if not any(bl['term']['k'] == 'call' and bl['term'].get('method') == 'begin_init' for bl in b['blocks']):
            continue
        sg = supergraph(F, b['id'], opaque=lambda t, bb: not bb.get('from_expansion'), tag='h5')
        S = sg.sym
        begins = [n.id for n in sg.calls(lambda d: d.get('method') == 'begin_init')]
        for n in sg.nodes:
            if n.kind == 'assign' and n.d['rv']['rv'] == 'agg' and n.d['rv'].get('adt') == adt and field in n.d['rv'].get('fields', []):
                rv = n.d['rv']
                t = S.operand(n.id, rv['ops'][rv['fields'].index(field)])
                bad = None
                if not any(y[0] == 'call' and y[1] in begins for y in deep_subterms(S, t)):
                    R.check(False, 'H4', '%s:gate-field:%s' % (adt, field), site(sg, n), '`%s` = contains(negotiated, %s bit %d)' % (field, fname, bit),
                            'gate field `%s` is not computed from the negotiated feature set (the result of begin_init) at all: %s - the gated operation '
                            'talks to the device whether or not %s was negotiated' % (field, fmt(t)[:80], fname))
                    continue
                for b_ in range(0, 64):
                    def leaf(x, b_=b_):
                        for y in deep_subterms(S, x):
                            if y[0] == 'call' and y[1] in begins:
                                return 1 << b_
                        raise Unfoldable(fmt(x)[:80])
                    try:
                        got = Folder(leaf).ev(t)
                    except Unfoldable as e:
                        bad = 'abstain:%s' % e
                        break
                    if bool(got) != (b_ == bit):
                        bad = 'with only feature bit %d negotiated `%s` = %s' % (b_, field, bool(got))
                        break
                if bad and bad.startswith('abstain'):
                    R.abstain('H4', '%s:gate-field:%s' % (adt, field), bad, site(sg, n))
                else:
                    R.check(bad is None, 'H4', '%s:gate-field:%s' % (adt, field), site(sg, n), '`%s` = contains(negotiated, %s bit %d)' % (field, fname, bit),
                            'gate field `%s` does not reflect the negotiated %s feature: %s' % (field, fname, bad))


def h5_net(F, R):
    for b in F.bodies.values():
        if not F.handwritten(b) or b['kind'] != 'AssocFn':
            continue
        if not any(bl['term']['k'] == 'call' and bl['term'].get('method') == 'begin_init' for bl in b['blocks']):
            continue
        flagged = None
        for bl in b['blocks']:
            for st in bl['stmts']:
                if st['k'] == 'assign' and st['rv']['rv'] == 'agg' and st['rv'].get('kind') == 'adt':
                    for f in st['rv'].get('fields', []):
                        if 'legacy' in f and 'header' in f:
                            flagged = f
        if not flagged:
            continue
        sg = supergraph(F, b['id'], opaque=lambda t, bb: not bb.get('from_expansion'), tag='h5')
        where = fn_site(F, b['id'])
        try:
            paths = [p for p in PathEnum(sg, max_paths=50000).run() if err_variant(p.ret) == 'Ok']
        except PathLimit as e:
            R.abstain('H5', '%s:%s' % (b['id'], flagged), str(e), where)
            continue
        bad = None
        for v1 in (0, 1):
            for mrg in (0, 1):
                for other in (0, 1 << 5, 1 << 28):
                    val = (v1 << 32) | (mrg << 15) | other

                    def leaf(x):
                        if x[0] == 'call' and x[2].endswith('begin_init'):
                            return val
                        if x[0] == 'field' and x[2] in ('0', 'bits'):
                            return leaf(x[1])
                        if x[0] == 'refto':
                            return leaf(x[1])
                        raise Unfoldable(fmt(x)[:80])
                    fo = Folder(leaf)
                    got = set()
                    for p in paths:
                        feasible = True
                        for disc, (kind, vals), _ in p.conds:
                            if not derives_from(disc, lambda y: y[0] == 'call' and y[2].endswith('begin_init')):
                                continue
                            try:
                                v = fo.ev(disc)
                            except Unfoldable:
                                continue
                            if (kind == 'in' and v not in vals) or (kind != 'in' and v in vals):
                                feasible = False
                                break
                        if not feasible:
                            continue
                        agg = p.ret[2][0]
                        if agg[0] == 'agg' and flagged in agg[3]:
                            try:
                                got.add(fo.ev(agg[2][agg[3].index(flagged)]))
                            except Unfoldable as e:
                                got.add('unfoldable:%s' % e)
                    R.tables += 1
                    if got != {int(not v1 and not mrg)}:
                        bad = 'VERSION_1=%d MRG_RXBUF=%d -> legacy (10-byte) header = %s' % (v1, mrg, sorted(got, key=str))
        if bad and 'unfoldable' in bad:
            R.abstain('H5', '%s:%s' % (b['id'], flagged), bad, where)
        else:
            R.check(bad is None, 'H5', '%s:%s' % (b['id'], flagged), where, '10-byte header iff neither VERSION_1 nor MRG_RXBUF negotiated',
                    'network header form does not follow the negotiated features: %s' % bad)


def fold_phi(fo, t):
    """Fold a boolean term that may contain short-circuit phi(false, x) shapes produced by && / ||."""
    if t[0] == 'phi':
        vals = set()
        for a in t[1]:
            vals.add(fold_phi(fo, a))
        # short-circuit &&: phi(const false, rhs) guarded by lhs - evaluate conservatively
        if len(vals) == 1:
            return vals.pop()
        raise Unfoldable('phi')
    return fo.ev(t)


def queue_ctor_flags(F, R, M, rule='H3'):
    """The queue keeps the modes it was constructed with: every boolean field of the queue value built by its constructor is one
    of the constructor's boolean parameters, unmodified, and different fields take different parameters - a mode that is
    additionally made to depend on the transport (`event_idx && !legacy`) no longer follows the negotiated feature."""
    n = 0
    for b in queue_entry_points(F, M):
        if b.get('sig', '').find('-> core::result::Result<%s<' % M.queue_adt) < 0:
            continue
        sg = supergraph(F, b['id'], tag='flat', max_depth=0)
        S = sg.sym
        fn_ = sg.entry_fn
        bparams = [i + 1 for i, l_ in enumerate(fn_['locals'][1:fn_['arg_count'] + 1]) if l_['ty'] == 'bool']
        for nd in sg.nodes:
            if nd.kind != 'assign' or nd.d['rv']['rv'] != 'agg' or nd.d['rv'].get('adt') != M.queue_adt:
                continue
            rv = nd.d['rv']
            btys = {f_['name'] for f_ in F.adts[M.queue_adt]['variants'][0]['fields'] if f_['ty'] == 'bool'}
            used = {}
            bad = None
            for f_, o_ in zip(rv['fields'], rv['ops']):
                if f_ not in btys:
                    continue
                v = strip_conv(S.operand(nd.id, o_))
                n += 1
                if not (v[0] == 'param' and v[1] in bparams):
                    bad = 'mode flag `%s` is stored as %s, not as the constructor\'s argument' % (f_, fmt(v)[:80])
                elif v[1] in used:
                    bad = 'mode flags `%s` and `%s` are both taken from argument %d' % (used[v[1]], f_, v[1])
                else:
                    used[v[1]] = f_
            R.check(bad is None, rule, '%s:ctor-flags-are-arguments' % b['id'], site(sg, nd), 'each boolean mode field is its own constructor argument',
                    'queue construction: %s - the queue then runs in a mode that does not follow the negotiated feature' % bad)
    R.count('queue_mode_flags', n)


@shared_rule
def queue_modes_rule(F, R, M, rule, prefixes):
    """H3 under another property's rule id, restricted to the drivers with the given path prefixes: each queue is constructed
    with indirect / event-index / access-platform = contains(negotiated features, bit 28 / 29 / 33), in that order."""
    qctor = [b['id'] for b in queue_entry_points(F, M) if b.get('sig', '').find('-> core::result::Result<%s<' % M.queue_adt) >= 0]
    h1_constructors(F, RuleProxy(R, {'H3': rule}, only=lambda inst: any(inst.startswith(p_) for p_ in prefixes)), M, qctor)
