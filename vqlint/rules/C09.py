"""C09 - teardown and failed construction free each resource once, after quiescing.

Decided:
 R1 quiesce before release: in every driver struct (and wrapper) the field that carries the transport (or the inner
    driver) is declared - hence dropped - before every device-shared field: queues, owning queues, DMA regions and
    every buffer field that flows into a queue submission/completion operand.
 R2 transports reset on drop: MmioTransport::drop writes Status=0; PciTransport::drop writes device_status=0 and
    loops until it reads 0 (shared with C10.M2 / C11.W3).
 R3 allocation failure is an error, not a panic: no Result that can carry a DMA-allocation failure is unwrapped /
    expected anywhere; constructors propagate it.
 R4 RAII integrity: the DMA owner's fields are written only by its constructor (physical address and pointer from the
    two components of the dma_alloc result, page count from the argument); a zero physical address returns Err before
    the owner exists; Drop passes exactly those fields, in their positions, to dma_dealloc; no leak operation
    (mem::forget, ManuallyDrop, Box::leak) is applied to a value whose type contains the owner.
 R5 no failure window after DRIVER_OK: in every driver constructor, once finish_init (DRIVER_OK) has been called every
    path to a return passes through the construction of the driver value (whose drop order R1 / Drop impl quiesces the
    device first); a `?`/early return between finish_init and that point would drop the constructor's local queues -
    freeing their DMA memory - before the transport parameter is dropped (parameters are dropped after locals).
 R7 Drop disables what was enabled: for every driver whose Drop calls Transport::queue_unset, the set of queue indices
    it unsets equals the set of indices its constructor created queues for (loop ranges with constant bounds are
    expanded); a queue left enabled keeps pointing at memory that is freed right afterwards.
 R8 a DMA region attached to a device resource leaves driver state only after the detach command (C20.Z4).
 R6 driver-owned buffers parked in driver state are released only after their completion was consumed (C04.P8).
 R10 net recycle: the refusal that drops the buffer tests the slot of the newly posted token (= C16.S4 custody).
Not decided: "every k" is not enumerated - R3/R4 make the statement independent of k.
"""
from .common import *
from ..paths import *
from . import C05

EXPLANATION = ("Drop order is computed from struct declarations (Rust drops fields in declaration order) with device-shared fields "
               "found by type and by flow of buffers into queue operands; RAII constructor/Drop of the DMA owner are path-enumerated; "
               "unwrap/expect operands are traced back to allocation-capable callees over the resolved call graph.")
FLOORS = {'unsetting_drops': {'*': 5, 'noalloc': 3}, 'constructors': {'*': 10, 'noalloc': 4}, 'driver_structs': {'*': 12, 'noalloc': 4}, 'unwrap_sites_examined': {'*': 10, 'noalloc': 2}}


def transport_param_fields(F, adt):
    """Fields of `adt` whose type is a bare generic parameter used as Self in Transport calls, or an inner driver."""
    a = F.adts[adt]
    tparams = set()
    for b in F.bodies.values():
        if b.get('impl_adt') == adt:
            for bl in b['blocks']:
                t = bl['term']
                if t['k'] == 'call' and t.get('trait') == TRANSPORT and t.get('self_ty') and len(t['self_ty']) <= 2:
                    tparams.add(t['self_ty'])
    out = []
    for f in a['variants'][0]['fields']:
        if f['ty'] in tparams:
            out.append(f['name'])
    return out


def r5_failure_window(F, R, drivers):
    n = 0
    for b in F.bodies.values():
        if not F.handwritten(b) or b['kind'] != 'AssocFn' or b.get('impl_adt') not in drivers or 'impl_trait' in b:
            continue
        if not any(bl['term']['k'] == 'call' and bl['term'].get('trait') == TRANSPORT and bl['term'].get('method') == 'finish_init' for bl in b['blocks']):
            continue
        n += 1
        sg = supergraph(F, b['id'], tag='flat', max_depth=0)
        fis = [x for x in sg.calls(lambda d: d.get('trait') == TRANSPORT and d.get('method') == 'finish_init')]
        aggs = [x.id for x in sg.nodes if x.kind == 'assign' and x.d['rv']['rv'] == 'agg' and x.d['rv'].get('adt') == b['impl_adt']]
        where = fn_site(F, b['id'])
        bad = None
        for fi in fis:
            r = sg.reach_fwd(list(fi.succ), avoid=aggs)
            ex = [e for e in sg.exits if e in r]
            if ex:
                # name the fallible operation: the last call on such a path
                calls = sorted((x for x in r if sg.nodes[x].kind == 'call' and sg.nodes[x].id != fi.id
                                and any(e in sg.reach_fwd([x], avoid=aggs) for e in ex)), key=lambda x: sg.nodes[x].line)
                names = [sg.nodes[x].d.get('fn', '?').rsplit('::', 2)[-2:] for x in calls
                         if 'Try' not in sg.nodes[x].d.get('fn', '') and 'from_residual' not in sg.nodes[x].d.get('fn', '')]
                bad = 'after finish_init (line %s) the constructor can return without having built %s (fallible: %s); its local queues are then freed while the device is live (DRIVER_OK, queue enabled) and the transport parameter is only dropped afterwards' % (
                    fi.line, b['impl_adt'].rsplit('::', 1)[1], ', '.join('::'.join(x) for x in names[:3]) or '?')
        R.check(bad is None, 'R5', '%s:after-driver-ok' % b['id'], where,
                'every return after finish_init passes through the construction of the driver value', bad or '')
    R.count('constructors', n)


def run(F, R):
    M = model(F)
    M.require_rings()
    api = C05.queue_api(F, M)
    roles = C05.classify_api(api)
    qops = set(roles)
    # driver structs: ADTs with a transport-parameter field and at least one queue field; wrappers: ADTs with a field
    # whose type is such a driver
    drivers = {}
    for name, a in F.adts.items():
        if a['kind'] != 'struct' or name in (M.queue_adt, M.owning_adt, M.dma_adt):
            continue
        tf = transport_param_fields(F, name)
        fields = a['variants'][0]['fields']
        if tf and any(M.queue_adt in f['mentions'] or (M.owning_adt and M.owning_adt in f['mentions']) for f in fields):
            drivers[name] = tf
    wrappers = {}
    for name, a in F.adts.items():
        if a['kind'] != 'struct' or name in drivers:
            continue
        inner = [f['name'] for f in a['variants'][0]['fields'] if any(m in drivers for m in f['mentions']) and f['ty'].split('<')[0] in drivers]
        if inner:
            wrappers[name] = inner
    r5_failure_window(F, R, drivers)
    # R9: R5 takes finish_init as the point where the device goes live: begin_init must not already set DRIVER_OK and
    # no transport may override either (status sequence shared with C08.H0/H1)
    from .C08 import h0 as _h0, h1_begin_finish as _h1
    _h0(F, RuleProxy(R, {'H0': 'R9'}))
    _h1(F, RuleProxy(R, {'H1': 'R9'}))
    r11_no_error_after_add(F, R, M, roles)
    # R10: a driver-owned buffer posted on a live queue is not released: the net driver's recycle refuses (dropping the by-value
    # buffer) only on an occupancy test of the slot of the token it has just posted under - a slot that is empty whenever
    # receive vacated it (C16.S4 custody)
    if 'device::net::dev::VirtIONet' in F.adts:
        from .C16 import s4_custody
        guard(R, 'R10', 'custody', lambda: s4_custody(F, R, M, roles, rule='R10', only=('receive', 'recycle_rx_buffer')))
    # R6: a driver-owned buffer that is still posted is not released: buffers parked in driver state leave it only after
    # the completion was consumed (shared with C04.P8)
    from .C04 import p8_release_after_completion
    p8_release_after_completion(F, RuleProxy(R, {'P8': 'R6'}), M)
    # R8: a DMA region the device was given as resource backing leaves driver state (set to None / taken) only after the
    # device was told to detach it - never before a fallible command whose `?` would free it (shared with C20.Z4)
    if 'device::gpu::VirtIOGpu' in F.adts:
        from .C20 import z3_z4_gpu
        z3_z4_gpu(F, RuleProxy(R, {'Z4': 'R8'}), M, roles)
    for name, carriers in list(drivers.items()) + list(wrappers.items()):
        R.count('driver_structs', 1)
        a = F.adts[name]
        fields = a['variants'][0]['fields']
        order = [f['name'] for f in fields]
        shared = {}
        for f in fields:
            if f['name'] in carriers:
                continue
            ms = f['mentions']
            if M.queue_adt in ms or (M.owning_adt and M.owning_adt in ms) or M.dma_adt in ms:
                shared[f['name']] = 'type %s' % f['ty'][:60]
        # buffers by flow into queue operands
        for b in F.bodies.values():
            if b.get('impl_adt') != name or not F.handwritten(b) or b['kind'] != 'AssocFn':
                continue
            sg = supergraph(F, b['id'], opaque=lambda t, bb: bb['id'] in qops, tag='c09')
            S = sg.sym
            for n in sg.calls(lambda d: d.get('fn') in qops and roles.get(d.get('fn')) in ('add', 'add_notify_wait_pop', 'pop_used')):
                for a_ in n.d['args'][1:]:
                    t = S.operand(n.id, a_)
                    for x in deep_subterms(S, t):
                        if x[0] == 'loc':
                            for pp in x[2]:
                                if pp[0] == 'f' and len(pp) > 2 and pp[2] == name and pp[1] not in carriers:
                                    fty = [ff['ty'] for ff in fields if ff['name'] == pp[1]]
                                    if fty and not is_plain_scalar(fty[0]):
                                        shared.setdefault(pp[1], 'buffer posted to a queue in %s' % b['name'])
        ci = min(order.index(c) for c in carriers)
        late = [(s, why) for s, why in shared.items() if order.index(s) < ci]
        R.check(not late, 'R1', 'drop-order:%s' % name, a['span'].rsplit(':', 3)[0],
                'carrier `%s` is dropped before device-shared fields %s' % (carriers[0], sorted(shared)),
                'field(s) %s are declared before `%s` and are therefore released while the device may still be live on the queue '
                '(the transport / inner driver is what quiesces the device on drop)' % (late, carriers[0]))
    r3_unwrap(F, R, M)
    r4_raii(F, R, M)
    r2_reset(F, R)
    r7_unset_all(F, R, M, drivers)


def is_plain_scalar(ty):
    return ty in ('bool', 'u8', 'u16', 'u32', 'u64', 'usize', 'u128') or ty.startswith('core::option::Option<u')


def r2_reset(F, R):
    for im in F.impls:
        if im.get('trait') != TRANSPORT or im.get('adt') not in F.adts or F.adts[im['adt']]['kind'] != 'struct':
            continue
        adt = im['adt']
        direct = False
        for it in im['items']:
            b = F.bodies.get(it['path'])
            if b and it['name'] == 'set_status':
                sg = supergraph(F, b['id'])
                direct = any('safe_mmio::' in (n.d.get('fn') or '') for n in sg.calls())
        if not direct:
            continue
        drop = F.adts[adt].get('drop_impl')
        if not drop:
            R.violated('R2', 'reset-on-drop:%s' % adt, adt, 'transport %s has no Drop impl and so never resets the device' % adt)
            continue
        sg = supergraph(F, drop)
        zero = False
        for p in PathEnum(sg).run():
            ws = [e for e in p.effects if e[0] == 'call' and 'safe_mmio::' in e[2] and e[2].endswith('::write')]
            if ws and fold_const(ws[0][3][1]) == 0:
                zero = True
        R.check(zero, 'R2', 'reset-on-drop:%s' % adt, fn_site(F, drop), 'Drop writes 0 to the status register',
                'Drop of %s does not write 0 to the device status register' % adt)


def can_alloc(F, M):
    """Functions from which Hal::dma_alloc is reachable (resolved call graph)."""
    callers = {}
    for b in F.bodies.values():
        for bl in b['blocks']:
            t = bl['term']
            if t['k'] == 'call':
                for k in ('fn', 'resolved'):
                    c = t.get(k)
                    if c:
                        callers.setdefault(c, set()).add(b['id'])
    reach = set()
    work = ['hal::Hal::dma_alloc']
    while work:
        x = work.pop()
        for c in callers.get(x, ()):
            if c not in reach:
                reach.add(c)
                work.append(c)
    return reach


def r3_unwrap(F, R, M):
    alloc_fns = can_alloc(F, M)
    n = 0
    for b in F.bodies.values():
        if not F.handwritten(b):
            continue
        sg = None
        for bl in b['blocks']:
            t = bl['term']
            if t['k'] == 'call' and t.get('fn') in ('core::result::Result::<T, E>::unwrap', 'core::result::Result::<T, E>::expect',
                                                   'core::result::Result::<T, E>::unwrap_unchecked'):
                if sg is None:
                    sg = supergraph(F, b['id'], tag='flat', max_depth=0)
                for nd in sg.calls(lambda d: d is t or (d.get('fn') == t['fn'] and d.get('line') == t.get('line'))):
                    n += 1
                    S = sg.sym
                    v = S.operand(nd.id, nd.d['args'][0])
                    bad = [x for x in subterms(v) if x[0] == 'call' and (x[2] in alloc_fns or sg.nodes[x[1]].d.get('resolved') in alloc_fns)]
                    R.check(not bad, 'R3', '%s:unwrap:%s' % (b['id'], bad[0][2] if bad else 'none'), site(sg, nd),
                            'unwrap operand cannot carry an allocation failure',
                            'a Result from %s (which can fail with a DMA allocation error) is unwrapped: allocation failure would panic instead of '
                            'being reported' % (bad[0][2] if bad else ''))
    R.count('unwrap_sites_examined', n)


def r4_accessors(F, R, dma, rule):
    """The owner's accessors hand out exactly the region it owns: the pointer accessor yields base + offset only for
    offset < pages*PAGE_SIZE (else panics), the whole-region slice is (base, pages*PAGE_SIZE), the physical-address
    accessor is the stored physical address."""
    fields = {f['name']: f['ty'] for f in F.adts[dma]['variants'][0]['fields']}
    pgf = [n for n, t in fields.items() if t == 'usize']
    n = 0
    for b in F.bodies.values():
        if b.get('impl_adt') != dma or 'impl_trait' in b or not F.handwritten(b) or b['kind'] != 'AssocFn' or 'NonNull<' not in b.get('sig', '').split('->')[-1]:
            continue
        if not b.get('sig', '').split('(')[1].startswith("&"):
            continue
        sg = supergraph(F, b['id'])
        where = fn_site(F, b['id'])
        try:
            paths = PathEnum(sg).run()
        except PathLimit:
            continue
        n += 1
        is_slice = '[u8]' in b['sig'].split('->')[-1]
        BASE = 0x7000_0000
        bad = None
        rows = 0
        for pages in (1, 2, 5):
            for off in ((0,) if is_slice else (0, 1, 4095, 4096, pages * 4096 - 1, pages * 4096, pages * 4096 + 1)):
                def leaf(t, pages=pages, off=off):
                    if t[0] in ('load0', 'load') and t[1][2] and t[1][2][-1][0] == 'f' and t[1][2][-1][2] == dma:
                        if t[1][2][-1][1] in pgf:
                            return pages
                        return BASE
                    if t == ('param', 2):
                        return off
                    if t[0] == 'discr' and t[1][0] == 'call' and t[1][2].endswith('NonNull::<T>::new'):
                        return 1
                    raise Unfoldable(fmt(t)[:70])
                fo = Folder(leaf)
                try:
                    hit = [p for p in paths if path_holds(fo, p)]
                    if len(hit) != 1:
                        bad = 'pages=%d offset=%d: %d feasible paths' % (pages, off, len(hit))
                        break
                    p = hit[0]
                    rows += 1
                    inside = off < pages * 4096
                    if p.panicked:
                        if inside:
                            bad = 'pages=%d offset=%d: panics for an offset inside the region' % (pages, off)
                            break
                        continue
                    if not inside:
                        bad = 'pages=%d offset=%d: returns a pointer for an offset outside the region' % (pages, off)
                        break
                    news = [e for e in p.effects if e[0] == 'call' and e[2].endswith('NonNull::<T>::new')]
                    if is_slice:
                        sl = [e for e in p.effects if e[0] == 'call' and 'slice_from_raw_parts' in e[2]]
                        ptr = fo.ev(news[0][3][0]) if news else None
                        ln = fo.ev(sl[0][3][1]) if sl else None
                        if ptr != BASE or ln != pages * 4096:
                            bad = 'whole-region slice of a %d-page region at %#x is (%s, %s bytes), expected (%#x, %d)' % (
                                pages, BASE, hex(ptr) if ptr is not None else None, ln, BASE, pages * 4096)
                            break
                    else:
                        ptr = fo.ev(news[-1][3][0]) if news else None
                        if ptr != BASE + off:
                            bad = 'pointer at offset %d of a region at %#x is %s' % (off, BASE, hex(ptr) if ptr is not None else None)
                            break
                except Unfoldable as e:
                    bad = 'unfoldable: %s' % e
                    break
            if bad:
                break
        R.tables += rows
        if bad and bad.startswith('unfoldable'):
            R.abstain(rule, 'accessor:%s' % b['name'], bad, where)
            continue
        R.check(bad is None, rule, 'accessor:%s' % b['name'], where, 'hands out exactly the owned region (%d rows)' % rows, 'DMA owner accessor: %s' % bad)
    R.count('owner_accessors', n)


def r4_raii(F, R, M, rule='R4'):
    dma = M.dma_adt
    if not dma:
        raise Undecided('DMA owner type not found')
    r4_accessors(F, R, dma, rule)
    from .C01 import field_writers
    fields = [f['name'] for f in F.adts[dma]['variants'][0]['fields']]
    ctors = set()
    for f in fields:
        for w, kind in field_writers(F, dma, f):
            if kind == 'store':
                R.violated(rule, 'field-store:%s' % f, w, 'DMA owner field `%s` is assigned outside its constructor (in %s)' % (f, w))
            else:
                ctors.add(w)
    R.check(len(ctors) == 1, rule, 'single-constructor', dma, 'constructed only in %s' % sorted(ctors), 'DMA owner is constructed in several places: %s' % sorted(ctors))
    for c in ctors:
        sg = supergraph(F, c)
        paths = PathEnum(sg).run()
        where = fn_site(F, c)
        fn = sg.entry_fn
        okp = [p for p in paths if err_variant(p.ret) == 'Ok']
        roles = {}
        for p in okp:
            agg = p.ret[2][0]
            for fname, op in zip(agg[3], agg[2]):
                if op[0] == 'field' and op[1][0] == 'call' and op[1][2] == 'hal::Hal::dma_alloc':
                    roles[fname] = 'alloc.%s' % op[2]
                elif op[0] == 'param':
                    roles[fname] = 'param%d' % op[1]
            allocs = [e for e in p.effects if e[0] == 'call' and e[4].get('method') == 'dma_alloc']
            # pages passed to alloc is the pages parameter stored
            # `if paddr == 0` (comparison) or `match .. { (0, _) => .. }` (switch on the component itself, 0 excluded)
            zero_guard = any(c_[0][0] == 'bin' and c_[0][1] in ('Eq', 'Ne') and derives_from(c_[0], lambda x: x[0] == 'field' and x[2] == '0' and x[1][0] == 'call') for c_ in p.conds) or \
                any(strip_conv(c_[0])[0] == 'field' and strip_conv(c_[0])[2] == '0' and strip_conv(c_[0])[1][0] == 'call' and c_[1][0] == 'notin' and 0 in c_[1][1] for c_ in p.conds)
            # the page count handed to dma_alloc is the very value the owner records (and later hands to dma_dealloc)
            stored = [v for k, v in roles.items() if v.startswith('param')]
            if allocs and stored:
                a0 = strip_conv(allocs[0][3][0])
                same = a0[0] == 'param' and ('param%d' % a0[1]) in stored
                R.check(same, rule, 'ctor:allocated-count-is-recorded-count', where, 'dma_alloc(pages) and the recorded page count are the same parameter',
                        'the region is allocated with %s pages but the owner records %s: Drop returns it to the platform with a different page count than it was '
                        'allocated with' % (fmt(allocs[0][3][0])[:60], sorted(stored)))
            R.check(len(allocs) == 1 and zero_guard, rule, 'ctor:zero-address-checked', where, 'one allocation; zero physical address tested before the owner exists',
                    'constructor Ok path: %d allocations, zero-address test present=%s' % (len(allocs), zero_guard))
        errp = [p for p in paths if err_variant(p.ret) not in ('Ok', None)]
        R.check(bool(errp), rule, 'ctor:failure-is-error', where, 'allocation failure returns Err', 'constructor has no Err path for a failed allocation')
        # the owner must not exist on a failure path: its Drop would hand a region that was never allocated to dma_dealloc
        S = sg.sym
        owner_aggs = [n.id for n in sg.nodes if n.kind == 'assign' and n.d['rv']['rv'] == 'agg' and n.d['rv'].get('adt') == dma]
        err_rets = [n.id for n in sg.nodes if n.kind == 'assign' and n.d['rv']['rv'] == 'agg' and n.d['rv'].get('adt') == 'core::result::Result'
                    and n.d['rv'].get('variant') == 'Err']
        # also `?`-style residual returns
        err_rets += [n.id for n in sg.calls(lambda d: 'from_residual' in d.get('fn', ''))]
        live = sg.live_nodes()
        after_owner = set()
        for a in owner_aggs:
            after_owner |= sg.reach_fwd(list(sg.nodes[a].succ))
        bad = [e for e in err_rets if e in after_owner and e in live]
        R.check(bool(owner_aggs) and not bad, rule, 'ctor:no-owner-on-failure-path', where,
                'no Err return is reachable after the owner value has been built (%d constructions, %d Err returns)' % (len(owner_aggs), len(err_rets)),
                'the RAII owner is built before the failure test (Err return at %s reachable after its construction): on a failed allocation the owner is dropped '
                'and its Drop passes a region that was never allocated (physical address 0) to dma_dealloc' % (site(sg, sg.nodes[bad[0]]) if bad else '?'))
        inv = {v: k for k, v in roles.items()}
        drop = F.adts[dma].get('drop_impl')
        if not drop:
            R.violated(rule, 'drop:exists', dma, 'DMA owner has no Drop: allocations are never returned')
            continue
        dsg = supergraph(F, drop)
        dpaths = [p for p in PathEnum(dsg).run() if not p.panicked]
        for p in dpaths:
            de = [e for e in p.effects if e[0] == 'call' and e[4].get('method') == 'dma_dealloc']
            ok = len(de) == 1
            det = ''
            if ok:
                args = de[0][3]

                def fld(t):
                    t = strip_conv(t)
                    return t[1][2][-1][1] if t[0] == 'load0' and t[1][2] and t[1][2][-1][0] == 'f' else None
                got = [fld(a) for a in args[:3]]
                pages_param = [k for k, v in roles.items() if v.startswith('param') and F.adts[dma]['variants'][0]['fields'][fields.index(k)]['ty'] == 'usize']
                want = [inv.get('alloc.0'), inv.get('alloc.1'), pages_param[0] if pages_param else None]
                ok = got == want
                det = 'dealloc(%s), expected (%s)' % (got, want)
            R.check(ok, rule, 'drop:dealloc-arguments', fn_site(F, drop), 'Drop returns (paddr, vaddr, pages) exactly as allocated',
                    'Drop of the DMA owner does not return the allocation with its original address, pointer and page count: %s' % det)
    # no leaks of owners
    owners = {dma, M.queue_adt, M.owning_adt}
    for b in F.bodies.values():
        if not F.handwritten(b):
            continue
        for bl in b['blocks']:
            t = bl['term']
            if t['k'] == 'call' and (t.get('fn') in ('core::mem::forget', 'core::mem::ManuallyDrop::<T>::new') or t.get('fn', '').endswith('::leak')):
                tys = ' '.join(t.get('arg_tys', []))
                bad = [o for o in owners if o and o in tys]
                R.check(not bad, rule, '%s:no-leak' % b['id'], fn_site(F, b['id']), 'leak operation on %s' % tys[:60],
                        'a value containing %s is leaked with %s: its DMA memory is never returned' % (bad, t['fn']))


def range_values(S, t):
    """Values of a loop variable bound by `for v in a..b` / `a..=b` with constant bounds, or None."""
    nxt = [x for x in subterms(t) if x[0] == 'call' and x[2].endswith('::next') and x[3]]
    for c in nxt:
        for y in deep_subterms(S, c[3][0], depth=5):
            if y[0] == 'agg' and 'core::ops::Range' in y[1] and len(y[2]) >= 2:
                a, b = fold_const(y[2][0]), fold_const(y[2][1])
                if a is None or b is None:
                    return None
                if 'RangeInclusive' in y[1]:
                    return list(range(a, b + 1))
                return list(range(a, b))
            if y[0] == 'call' and y[2].endswith('RangeInclusive::<Idx>::new') and len(y[3]) == 2:
                a, b = fold_const(y[3][0]), fold_const(y[3][1])
                return None if a is None or b is None else list(range(a, b + 1))
    return None


def r7_unset_all(F, R, M, drivers):
    qctor = set(b['id'] for b in queue_entry_points(F, M) if b.get('sig', '').find('-> core::result::Result<%s<' % M.queue_adt) >= 0)
    n = 0
    for adt in sorted(drivers):
        drops = [b for b in F.bodies.values() if b.get('impl_adt') == adt and b.get('impl_trait') == 'core::ops::Drop' and F.handwritten(b)]
        if not drops:
            continue
        sgd = supergraph(F, drops[0]['id'])
        Sd = sgd.sym
        unset = set()
        unknown = None
        calls = [c for c in sgd.calls(lambda d: d.get('trait') == TRANSPORT and d.get('method') == 'queue_unset')]
        if not calls:
            continue
        for c in calls:
            t = Sd.operand(c.id, c.d['args'][1])
            k = fold_const(t)
            if k is not None:
                # only an unset that happens on every path of Drop counts (a queue stays registered with the device whether
                # or not a request happens to be outstanding)
                same = [c2.id for c2 in calls if fold_const(Sd.operand(c2.id, c2.d['args'][1])) == k]
                if all(sgd.always_before(same, e_) for e_ in sgd.exits):
                    unset.add(k)
                continue
            vs = range_values(Sd, t)
            if vs is None:
                unknown = fmt(t)[:80]
            else:
                unset |= set(vs)
        created = set()
        for b in F.bodies.values():
            if b.get('impl_adt') != adt or 'impl_trait' in b or b['kind'] != 'AssocFn' or not F.handwritten(b):
                continue
            if not any(bl['term']['k'] == 'call' and bl['term'].get('trait') == TRANSPORT and bl['term'].get('method') == 'finish_init' for bl in b['blocks']):
                continue
            sgc = supergraph(F, b['id'], opaque=lambda t_, bb: bb['id'] in qctor, tag='r7')
            Sc = sgc.sym
            for c in sgc.calls(lambda d: d.get('fn') in qctor):
                k = fold_const(Sc.operand(c.id, c.d['args'][1]))
                if k is None:
                    unknown = unknown or 'queue index %s' % fmt(Sc.operand(c.id, c.d['args'][1]))[:60]
                else:
                    created.add(k)
        n += 1
        where = fn_site(F, drops[0]['id'])
        if unknown:
            R.abstain('R7', '%s:unset-all' % adt, 'cannot evaluate a queue index: %s' % unknown, where)
            continue
        R.check(created <= unset, 'R7', '%s:unset-all' % adt, where, 'Drop unsets queues %s = queues created %s' % (sorted(unset), sorted(created)),
                'Drop disables queues %s but the constructor enabled queues %s: queue(s) %s stay enabled and keep pointing at DMA memory that is freed immediately '
                'afterwards (on a transport that does not reset on drop the device is still live on them)' % (sorted(unset), sorted(created), sorted(created - unset)))
    R.count('unsetting_drops', n)


def r11_no_error_after_add(F, R, M, roles):
    # R11: a non-blocking submission that has put the caller's buffer on the queue returns its token: no error return after a
    # successful add - the caller would keep (or free) a buffer the device still owns, with no token to complete it
    n11 = 0
    for b_ in sorted(F.bodies.values(), key=lambda x: x['id']):
        if not F.handwritten(b_) or b_['kind'] != 'AssocFn' or not b_.get('pub') or b_.get('impl_adt') in (M.queue_adt, M.owning_adt) or \
                not re.search(r'-> core::result::Result<u16, ', b_.get('sig', '')):
            continue
        sg_ = supergraph(F, b_['id'], opaque=lambda t, bb: bb['id'] in roles or (bb.get('pub') and bb['id'] != b_['id']) or has_loop(bb), tag='r11')
        if not any(True for _ in sg_.calls(lambda d: roles.get(d.get('fn')) == 'add')):
            continue
        try:
            paths_ = [p for p in PathEnum(sg_).run() if not p.panicked]
        except PathLimit:
            continue
        n11 += 1
        bad_ = None
        for p in paths_:
            adds_ = [e for e in p.effects if e[0] == 'call' and roles.get(e[2]) == 'add']
            if not adds_:
                continue
            ok_add = any(c[0][0] == 'discr' and any(x[0] == 'call' and x[1] == adds_[0][1] for x in subterms(c[0])) and c[1] == ('in', (0,)) for c in p.conds)
            ev_ = err_variant(p.ret)
            if ok_add and ev_ not in ('Ok', None):
                bad_ = 'returns %s after the add succeeded' % ev_
        R.check(bad_ is None, 'R11', '%s:no-error-after-add' % b_['id'], fn_site(F, b_['id']), 'every check that can refuse the request precedes the add',
                '%s %s: the buffer stays on the live queue while the caller is told the submission failed (and may free it)' % (b_['name'], bad_))
    R.count('token_submitters', n11)
