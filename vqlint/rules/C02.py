"""C02 - the device never sees an available index covering an incomplete entry.

Decided on the polymorphic MIR (holds for every SIZE, Hal, Transport, history):
 O1 order: every device-visible data store (descriptor table, indirect table, avail.ring) that can precede
    the avail.idx store is separated from it by a release barrier on every path; none follows it.
 O2 barrier strength: fence(Release|AcqRel|SeqCst) between, or the idx store itself Release/SeqCst.
 O3 monotone: the only writers of avail.idx / its trusted copy are the constructor (0) and add, stored value =
    wrapping_add(previous trusted value, 1).
 O4 indirect tables are finished before they are handed to the device (no store after Leak).
 O5 consumer side: used.ring loads are dominated by an Acquire/SeqCst load of used.idx.
 O7 descriptor fields are overwritten, not merged, with this submission's values (C01.F1 fold over old contents).
 O8 a submission is admitted only when its descriptors / ring slot are free (capacity table, C03.E3).
 O9 descriptors of unconsumed entries are not reissued (free-list relink rules, C03.E6).  O3 also: avail.idx is fed
    by the single private submission counter.
 O6 completeness: on the submission path every descriptor field (addr,len,flags,next) is copied shadow->device
    table before the index store, so no published chain contains a stale field.
 O12 the device reads the available index where it was told (transports' queue_set register traces, = C10.M2 / C11.W3);
     O11 also carries C06.L3's accessor / ring-pointer obligations.
"""
from .common import *

EXPLANATION = ("Static order/barrier analysis over the inlined, drop-elaborated MIR of every queue entry point: "
               "device-visible stores are classified by ring-type layout signature and pointer provenance; path "
               "queries (reachability with removal) decide 'barrier on every path between data stores and the "
               "avail.idx store', 'no data store after publication', 'acquire load of used.idx dominates used-ring "
               "loads'; who-may-write decides monotonicity of the published index. Independent of SIZE, Hal, "
               "Transport and history because the single polymorphic body is analysed.")
ASSUMPTIONS = ["the device observes guest memory at least as strongly as another CPU under the Rust/C++ memory model",
               "plain stores before a fence cannot be moved across it by the compiler"]
FLOORS = {'idx_store': 1, 'data_store_classes': 3, 'used_ring_loads': 2}

REL = ('Release', 'AcqRel', 'SeqCst')
ACQ = ('Acquire', 'AcqRel', 'SeqCst')


def is_itable_store(M, acc_loc):
    # store into a Descriptor that is neither the shadow table nor the device table
    return any(p[0] == 'f' and len(p) > 2 and p[2] == M.desc_adt for p in acc_loc[2])


def run(F, R):
    M = model(F)
    M.require_rings()
    # O7: a descriptor is 'completely written' only if each field is overwritten with this submission's value
    # (nothing of the previous occupant survives): the filling function folded over old contents (shared with C01.F1)
    from .C01 import share_fn_rule
    share_fn_rule(F, R, 'O7')
    # O8: a submission is admitted only when the descriptors (and ring slot) it will write are free: otherwise it
    # overwrites descriptors / the ring slot of entries the device has not consumed yet, i.e. entries below the
    # published index are no longer completely written by their own submission (capacity table shared with C03.E3)
    # O9: descriptors of entries the device has not consumed are not handed out again: the release path links the freed
    # chain to the previous free list (shared with C03.E6)
    from .C03 import e6_relink
    from . import C05 as _c5r
    for _k, _v in _c5r.classify_api(_c5r.queue_api(F, M)).items():
        if _v == 'pop_used':
            e6_relink(F, R, M, _k, rule='O9')
    from .C03 import e3_capacity
    from . import C05 as _c5b
    _r = _c5b.classify_api(_c5b.queue_api(F, M))
    for _k, _v in _r.items():
        if _v == 'add':
            e3_capacity(F, R, M, _k, rule='O8', rule1='O8')
    # O10: "never moves backwards" and slot selection rely on the free-running indices being advanced by wrapping arithmetic only
    from .C03 import counters_rule
    counters_rule(F, R, 'O10')
    # O11: "its ring slot completely written" is relative to the size the device was told (C06.L3 queue_set arguments)
    from .C06 import registration_rule
    # O14: "its descriptors completely written": the writers count descriptors by the list lengths, the iterator that feeds them yields
    # one item per buffer (C01.F13)
    from .C01 import buffer_iter_rule
    buffer_iter_rule(F, R, 'O14')
    registration_rule(F, R, 'O11')
    # O12: the device reads the available index at the address it was told: transports' queue_set register traces (C10.M2 / C11.W3)
    transport_registration_rule(F, R, 'O12')
    transport_registration_rule(F, R, 'O12', op='queue_used')      # a live queue is reported as in use (so it is never set up over a running ring)
    # O13: an entry the available index covers stays written until the device has completed it: chains are torn down only
    # through the token-checked completion function (C03.E15)
    from .C03 import release_rule
    release_rule(F, R, 'O13')
    # O15: an entry is complete for the device that reads it: a queue built in a mode the device did not negotiate publishes entries
    # whose buffers that device never finds (C08.H3)
    from .C08 import queue_modes_rule
    queue_modes_rule(F, R, M, 'O15', ['device::'])
    eps = queue_api_entry_points(F, M)
    R.count('entry_points', len(eps))
    idx_writer_fns = []
    idx_fields = {}
    for b in eps:
        sg = supergraph(F, b['id'])
        acc = device_accesses(sg, M)
        live = sg.live_nodes()
        S = sg.sym
        idx_stores = [a for a in acc if a.kind == 'store' and a.area == 'avail.idx' and a.node in live]
        # descriptor stores that are not device/shadow: indirect table
        it_stores = []
        for n in sg.nodes:
            if n.kind == 'assign' and n.d['place']['p'] and n.id in live:
                loc = S.place_loc(n.id, n.d['place'])
                if is_itable_store(M, loc) and not M.is_shadow_loc(loc) and not M.loc_area(loc):
                    it_stores.append((n.id, loc))
        data = [a for a in acc if a.kind in ('store',) and a.node in live and (a.area.startswith('desc') or a.area == 'avail.ring')]
        data += [a for a in acc if a.kind.startswith('escape') and a.node in live and (a.area.startswith('desc') or a.area.startswith('avail'))]
        fs = fences(sg)
        if idx_stores:
            idx_writer_fns.append(b['id'])
            R.count('idx_store', len(idx_stores))
            classes = set(a.area.split('.')[0] if a.area.startswith('desc') else a.area for a in data)
            if it_stores:
                classes.add('itable')
            R.count('data_store_classes', len(classes))
            strong_f = [n for (n, kind, o) in fs if kind == 'fence' and o in REL]
            for ist in idx_stores:
                self_rel = ist.atomic and ist.ordering in ('Release', 'SeqCst')
                # O2
                between_ok = False
                inst = '%s:avail.idx-store' % b['id']
                # O1 for every data store that can reach the idx store
                all_data = [(a.node, a.area) for a in data] + [(n, 'itable') for n, _ in it_stores]
                bad_after = []
                for dn, area in all_data:
                    reach = sg.reach_fwd(sg.nodes[dn].succ)
                    if ist.node in reach:
                        if self_rel:
                            ok = True
                        else:
                            ok = sg.between_always(dn, ist.node, strong_f)
                        R.check(ok, 'O1', '%s:%s-store-before-idx' % (b['id'], area), site(sg, dn),
                                'release barrier on every path from this %s store to the avail.idx store' % area,
                                'a path from this %s store to the avail.idx store at %s has no release barrier '
                                '(fence(Release|AcqRel|SeqCst) between, or Release/SeqCst idx store)' % (area, site(sg, ist.node)))
                    # after publication?
                    # after publication, before the function containing the idx store returns
                    ictx = sg.nodes[ist.node].ctx
                    r2 = sg.reach_fwd(sg.nodes[ist.node].succ, avoid=sg.ctxs[ictx].rets)
                    if dn in r2:
                        bad_after.append((dn, area))
                for dn, area in bad_after:
                    R.violated('O1', '%s:%s-store-after-idx' % (b['id'], area), site(sg, dn),
                               'device-visible %s store is reachable after the avail.idx store at %s within the same '
                               'submission' % (area, site(sg, ist.node)))
                if not bad_after:
                    R.held('O1', '%s:no-data-store-after-idx' % b['id'], site(sg, ist.node),
                           '%d data stores checked, none reachable after publication' % len(all_data))
                # O2 barrier exists at all
                fence_between = any(sg.always_before([f], ist.node) or True for f in strong_f) and bool(strong_f)
                has_fence_path = bool(strong_f) and sg.always_before(strong_f, ist.node)
                R.check(self_rel or has_fence_path, 'O2', inst, site(sg, ist.node),
                        'barrier: idx store ordering=%s atomic=%s; release fences dominating it: %d' % (ist.ordering, ist.atomic, len(strong_f)),
                        'avail.idx store is not a Release/SeqCst atomic store (ordering=%s, atomic=%s) and no '
                        'Release/AcqRel/SeqCst fence precedes it on every path' % (ist.ordering, ist.atomic))
                # O3 value stored = wrapping_add(prev trusted, 1)
                v = ist.value
                ok3, why3 = monotone_value(sg, ist, v)
                R.check(ok3, 'O3', inst + ':value', site(sg, ist.node), why3, why3)
                # one private counter feeds avail.idx: the field the submission path increments, nothing else
                flds = sorted(set(x[1][2][-1][1] for x in subterms(v) if x[0] in ('load', 'load0') and x[1][2] and x[1][2][-1][0] == 'f'
                                  and x[1][2][-1][2] == M.queue_adt))
                idx_fields.setdefault(tuple(flds), []).append((b['id'], site(sg, ist.node)))
            # O6 every descriptor field the device follows is refreshed from the shadow table before publication
            from .C01 import f6_coherence
            f6_coherence(F, R, M, sg, acc, rule='O6')
            # O4
            leaks = [n for n in sg.calls(lambda d: d.get('fn', '').startswith('alloc::boxed::Box::<') and d['fn'].endswith('::leak')
                                         or d.get('fn', '').endswith('::into_raw') and 'Box' in d.get('fn', '')
                                         or d.get('fn') == 'core::mem::forget')]
            for ln in leaks:
                if ln.id not in live:
                    continue
                r = sg.reach_fwd(ln.succ)
                late = [n for n, _ in it_stores if n in r]
                R.count('leaks', 1)
                R.check(not late, 'O4', '%s:leak' % b['id'], site(sg, ln),
                        'no indirect-table store after the table is leaked/shared',
                        'indirect-table store at %s happens after the table was handed over' % (site(sg, late[0]) if late else ''))
        else:
            # entry point without idx store must not write avail.idx trusted copy either (checked in O3 who-may-write)
            pass
        # O5
        ring_loads = [a for a in acc if a.kind == 'load' and a.area.startswith('used.ring') and a.node in live]
        if ring_loads:
            idx_loads = [a for a in acc if a.kind == 'load' and a.area == 'used.idx' and a.atomic and a.ordering in ACQ]
            for rl in ring_loads:
                R.count('used_ring_loads', 1)
                ok = sg.always_before([a.node for a in idx_loads], rl.node)
                R.check(ok, 'O5', '%s:%s-load' % (b['id'], rl.area), site(sg, rl.node),
                        'dominated by an acquire load of used.idx',
                        'used-ring load is not dominated by an Acquire/SeqCst load of used.idx in this entry point')
    # O3 who-may-write avail.idx (device) across the whole crate
    writers = set()
    for b in F.bodies.values():
        if not F.handwritten(b):
            continue
        sg0 = supergraph(F, b['id'], tag='flat', max_depth=0)
        for a in device_accesses(sg0, M):
            if a.kind == 'store' and a.area == 'avail.idx':
                writers.add(b['id'])
    allowed = set()
    for w in writers:
        wb = F.bodies[w]
        if wb.get('impl_adt') == M.queue_adt:
            allowed.add(w)
    R.check(writers <= allowed and len(writers) >= 1, 'O3', 'who-may-write:avail.idx', '',
            'writers of avail.idx: %s' % sorted(writers),
            'avail.idx is written outside the queue type: %s' % sorted(writers - allowed))
    R.count('idx_writer_fns', len(idx_writer_fns))
    from . import C05 as _c5
    _roles = _c5.classify_api(_c5.queue_api(F, M))
    _adds = [k for k, v_ in _roles.items() if v_ == 'add']
    tfield = _c5.trusted_avail_field(F, M, _adds[0]) if _adds else None
    other = {k: v_ for k, v_ in idx_fields.items() if k != (tfield,)}
    R.check(tfield is not None and not other and (tfield,) in idx_fields, 'O3', 'avail.idx:single-source', '',
            'every avail.idx store publishes the private submission counter `%s` (%d stores)' % (tfield, sum(len(v_) for v_ in idx_fields.values())),
            'avail.idx is also written from %s at %s: the device-visible available index can move backwards / cover entries that were never written' % (
                [list(k) for k in other], [w for v_ in other.values() for _, w in v_][:2]))


def publication_rule(F, R, rule):
    """O3's first clause under another rule id: the device-visible available index is written by plain stores of the queue type (at
    least one, none elsewhere) - not by a read-modify-write such as fetch_max, which stops publishing once the 16-bit index wraps."""
    M = model(F)
    M.require_rings()
    writers = set()
    rmw = []
    for b in F.bodies.values():
        if not F.handwritten(b):
            continue
        sg0 = supergraph(F, b['id'], tag='flat', max_depth=0)
        for a in device_accesses(sg0, M):
            if a.area == 'avail.idx' and a.kind == 'store':
                writers.add(b['id'])
            elif a.area == 'avail.idx' and a.kind not in ('load', 'store'):
                rmw.append((b['id'], a.kind))
    allowed = set(w for w in writers if F.bodies[w].get('impl_adt') == M.queue_adt)
    R.check(writers <= allowed and len(writers) >= 1 and not rmw, rule, 'avail.idx:published-by-store', '', 'writers of avail.idx: %s' % sorted(writers),
            'the available index is not published by a plain store of the queue type (stores: %s, other accesses: %s): submissions after the index wraps '
            '(or all of them) never become visible to the device although the driver notifies it' % (sorted(writers), rmw[:2]))


def monotone_value(sg, ist, v):
    """The stored value must be wrapping_add(previous trusted copy, 1) where the trusted copy is a private field."""
    v0 = v
    # forward through the trusted copy if the value is a load of a field
    for _ in range(3):
        if isinstance(v, tuple) and v[0] == 'load':
            v = mem_value(sg, v[1], ist.node)
        else:
            break
    if isinstance(v, tuple) and v[0] == 'call' and v[2].endswith('::wrapping_add'):
        a, b = v[3]
        if const_int(b) == 1 and a[0] == 'load':
            # the operand must be the same trusted field that was stored
            if v0[0] == 'load' and a[1] == v0[1]:
                return True, 'stored value = wrapping_add(%s, 1) via trusted copy %s' % (fmt(a), fmt(v0))
            if v0[0] != 'load':
                return True, 'stored value = wrapping_add(%s, 1)' % fmt(a)
        return False, 'avail.idx is advanced by %s, not by exactly 1 with wrapping arithmetic: %s' % (fmt(b), fmt(v))
    return False, 'value stored to avail.idx is not wrapping_add(previous trusted index, 1): %s' % fmt(v)
