"""C13 - configuration-space access is bounds-checked and multi-field reads are never torn.

Decided:
 G1 bounds guard: every read_config_space / write_config_space of a transport that owns its window (MMIO, PCI) is
    path-enumerated and folded over (window length, offset, size_of T, align_of T) including offsets near usize::MAX:
    the access is performed iff offset + size_of T <= window length in bytes - exactly, with no wrap-around and no
    panic - otherwise ConfigSpaceTooSmall (or ConfigSpaceMissing when there is no window) is returned and no access is
    made; the access is at window base + offset.
 G2 retry loop: read_consistent reads the generation, runs the closure, reads the generation again and returns the
    closure's value only on the edge where the two *different* reads are equal; otherwise it loops.
 G3 multi-field values are wrapped: block capacity, socket CID, console size, MAC address and the 9P mount tag are
    computed inside closures passed to read_consistent, and a function that uses read_consistent performs no
    configuration read of that transport outside the closure (no partially wrapped value).
 G5 window extent: wherever a typed slice window is built from a capability's byte length
    (slice_from_raw_parts(ptr, f(length, size_of T))), the element count is folded over (length, size_of T):
    count * size_of T <= length, so the length the accessors bounds-check against never exceeds the device's region.
 G6 generation register: each transport's read_config_generation reads exactly the ConfigGeneration register (MMIO 0x0fc,
    PCI common configuration offset 21) - shared register traces of C10.M2 / C11.W3.
 G4 direction typing (thorough tier, compile-fail witnesses): read_config! on a WriteOnly field and write_config! on a
    ReadOnly field do not type-check.
 G7 a config window carved out of a (pointer, size) region at a constant offset ends inside the region (folded over sizes).
"""
from .common import *
from ..paths import *

EXPLANATION = ("The four window accessors are generic straight-line functions: their guarded expressions are folded over a table of "
               "window lengths, offsets (including 2^64-boundary values) and value sizes; the retry loop and the closure wrapping "
               "are decided by path enumeration of read_consistent and by closure-creation links in the drivers' MIR.")
FLOORS = {'region_windows': 1, 'window_builders': 1, 'accessors': 4, 'guard_rows': 800, 'wrapped_values': 5}

WRAPPED = {  # driver ADT -> what is read consistently
    'device::blk::VirtIOBlk': 'capacity', 'device::socket::vsock::VirtIOSocket': 'guest CID', 'device::console::VirtIOConsole': 'size',
    'device::net::dev_raw::VirtIONetRaw': 'MAC address', 'device::virtio_9p::VirtIO9p': 'mount tag',
}


def run(F, R):
    g1_bounds(F, R)
    g5_window_extent(F, R)
    g7_region_window(F, R)
    g2_retry(F, R)
    g3_wrapped(F, R)
    g6_generation_register(F, R)
    # G8: the window the bounds refer to is the one the device offers first: the PCI capability scan keeps the first device-configuration
    # capability (later ones do not replace it) - C11.W2 first-match
    from . import C11 as _c11
    _t = _c11.find_pci(F)
    if _t[0]:
        guard(R, 'G8', 'first-match', lambda: _c11.w2_scan(F, RuleProxy(R, {'W2': 'G8'}, only=lambda inst: inst.endswith(':first-match')), _t[0]))


def g6_generation_register(F, R):
    """The generation the retry loop compares is the device's ConfigGeneration register (register traces shared with
    C10.M2 / C11.W3): a transport that reads another register there never sees a change and never retries."""
    from . import C10 as _c10, C11 as _c11
    _gen = lambda inst: 'read_config_generation' in inst
    _c10.ONLY_OPS = {'read_config_generation'}
    try:
        _c10.run(F, RuleProxy(R, {'M2': 'G6'}, only=_gen))
    finally:
        _c10.ONLY_OPS = None
    _c11.run(F, RuleProxy(R, {'W3': 'G6'}, only=_gen))


def accessor_impls(F):
    out = []
    for im in F.impls:
        if im.get('trait') != TRANSPORT or im.get('adt') not in F.adts:
            continue
        if F.adts[im['adt']]['kind'] != 'struct':
            continue
        for it in im['items']:
            if it['name'] in ('read_config_space', 'write_config_space') and it['path'] in F.bodies:
                out.append((im['adt'], it['name'], F.bodies[it['path']]))
    return out


def g1_bounds(F, R):
    for adt, meth, b in accessor_impls(F):
        sg = supergraph(F, b['id'])
        where = fn_site(F, b['id'])
        # only transports that access a window themselves
        acc_calls = [n for n in sg.calls(lambda d: 'safe_mmio::' in d.get('fn', '') and d['fn'].rsplit('::', 1)[1] in ('read_unsafe', 'write_unsafe', 'read', 'write'))]
        if not acc_calls:
            R.note('G1: %s::%s performs no direct window access (delegating transport); not part of the MMIO/PCI anchors' % (adt, meth))
            continue
        R.count('accessors', 1)
        try:
            paths = PathEnum(sg).run()
        except PathLimit as e:
            R.abstain('G1', '%s:%s' % (adt, meth), str(e), where)
            continue
        has_missing = any(err_variant(p.ret) not in ('Ok', 'ConfigSpaceTooSmall', None) for p in paths)
        unit = 1
        for p in paths:
            for c in p.conds:
                if derives_from(c[0], lambda x: x[0] == 'sizeof' and x[1] == 'u32'):
                    unit = 4
        rows = 0
        bad = None
        M64 = 2**64
        for present in ((1, 0) if has_missing else (1,)):
            for ln in (0, 1, 2, 3, 4, 8, 16):
                for szt, alt in ((1, 1), (2, 2), (4, 4), (8, 4), (6, 1), (2, 1)):
                    offs = [0, 1, 2, 3, 4, 6, 8, 12, 15, 16, 17, 20, 60, 64, 68] + [M64 - 1, M64 - 2, M64 - 4, M64 - 8, M64 - 16, 2**63, M64 - 64]
                    for off in offs:
                        if off % alt:
                            continue
                        rows += 1
                        bytes_ = ln * unit
                        want = 'ConfigSpaceMissing' if not present else ('Ok' if off + szt <= bytes_ else 'ConfigSpaceTooSmall')
                        got, accessed, at = eval_access(paths, present, ln, off, szt, alt)
                        desc = 'window %d bytes%s, offset %#x, size_of<T>=%d' % (bytes_, '' if present else ' (absent)', off, szt)
                        if got == 'unfoldable':
                            R.abstain('G1', '%s:%s' % (adt, meth), 'cannot fold guard: %s' % accessed, where)
                            bad = 'abstain'
                            break
                        if got == 'panic':
                            bad = '%s: panics instead of returning %s' % (desc, want)
                        elif got != want:
                            bad = '%s: returns %s, expected %s' % (desc, got, want)
                        elif accessed and want != 'Ok':
                            bad = '%s: the window is accessed although the access lies outside it' % desc
                        elif want == 'Ok' and (not accessed or at != off):
                            bad = '%s: access performed=%s at byte offset %s' % (desc, accessed, at)
                        if bad:
                            break
                    if bad:
                        break
                if bad:
                    break
            if bad:
                break
        if bad == 'abstain':
            continue
        R.count('guard_rows', rows if not bad else 100000)
        R.tables += rows
        R.check(bad is None, 'G1', '%s:%s:guard' % (adt, meth), where,
                'access iff offset+size <= window length, otherwise TooSmall/Missing and no access (%d rows incl. offsets near 2^64)' % rows,
                'config-space bounds guard: %s' % bad)


def g5_window_extent(F, R, rule='G5'):
    n = 0
    for b in F.bodies.values():
        if not F.handwritten(b) or 'transport' not in b['id']:
            continue
        if not any(bl['term']['k'] == 'call' and 'slice_from_raw_parts' in bl['term'].get('fn', '') for bl in b['blocks']):
            continue
        sg = supergraph(F, b['id'], tag='flat', max_depth=0)
        S = sg.sym
        for nd in sg.calls(lambda d: 'slice_from_raw_parts' in d.get('fn', '')):
            cnt = S.operand(nd.id, nd.d['args'][1])
            is_len = lambda x: x[0] in ('load', 'load0') and x[1][2] and x[1][2][-1][0] == 'f' and x[1][2][-1][1] == 'length'
            if not derives_from(cnt, is_len):
                continue
            n += 1
            where = site(sg, nd)
            inst = '%s:slice-count' % b['id']
            bad = None
            rows = 0
            for ln in list(range(0, 20)) + [0x38, 0x3f, 0x40, 0x41, 0xffff, 0x10000, 0xffffffff]:
                for sz in (1, 2, 4, 8, 6):
                    def leaf(t, ln=ln):
                        if is_len(t):
                            return ln
                        raise Unfoldable(fmt(t)[:80])
                    try:
                        got = Folder(leaf, generic={'T': sz}).ev(cnt)
                    except Unfoldable as e:
                        bad = 'unfoldable: %s' % e
                        break
                    rows += 1
                    if got * sz > ln:
                        bad = 'capability length %d bytes, size_of<T>=%d: window of %d elements = %d bytes extends past the region' % (ln, sz, got, got * sz)
                        break
                if bad:
                    break
            R.tables += rows
            if bad and bad.startswith('unfoldable'):
                R.abstain(rule, inst, bad, where)
                continue
            R.check(bad is None, rule, inst, where, 'count*size_of<T> <= capability length for %d (length,size) rows: %s' % (rows, fmt(cnt)[:80]),
                    'configuration window extent: %s' % bad)
    R.count('window_builders', n)


def g7_region_window(F, R, rule='G7'):
    """A configuration window carved out of a caller-described region (pointer + size parameters) at a constant offset ends where
    the region ends: for every region size, on each feasible path that builds the window, offset + window length <= size, and a
    region smaller than the offset builds no window."""
    n = 0
    for b in sorted(F.bodies.values(), key=lambda x: x['id']):
        if not F.handwritten(b) or 'transport' not in b['id'] or b['kind'] not in ('AssocFn', 'Fn'):
            continue
        if not any(bl['term']['k'] == 'call' and 'slice_from_raw_parts' in bl['term'].get('fn', '') for bl in b['blocks']):
            continue
        szp = [i + 1 for i, l in enumerate(b['locals'][1:b['arg_count'] + 1]) if l['ty'] == 'usize']
        if len(szp) != 1:
            continue
        sg = supergraph(F, b['id'], opaque=lambda t, bb: True, tag='g7', max_depth=0)
        where = fn_site(F, b['id'])
        try:
            paths = [p for p in PathEnum(sg).run() if not p.panicked]
        except PathLimit as e:
            R.abstain(rule, '%s:region-window' % b['id'], str(e), where)
            continue
        builds = [(p, e) for p in paths for e in p.effects if e[0] == 'call' and 'slice_from_raw_parts' in e[2]]
        if not builds:
            continue
        # constant offset of the window inside the region: the byte_add / add applied to the pointer operand
        offs = set()
        for p, e in builds:
            for x in subterms(e[3][0]):
                if x[0] == 'call' and x[2].rsplit('::', 1)[-1] in ('byte_add', 'add', 'offset', 'byte_offset') and len(x[3]) > 1 and fold_const(x[3][1]) is not None:
                    offs.add(fold_const(x[3][1]))
        if len(offs) != 1 or not all(derives_from(e[3][1], lambda y: y == ('param', szp[0])) or fold_const(e[3][1]) is not None for p, e in builds):
            continue      # not a window at a constant offset of a size-described region
        off = offs.pop()
        n += 1
        bad = None
        rows = 0
        for size in sorted(set([0, 1, off - 1, off, off + 1, off + 8, 2 * off - 1, 2 * off, 2 * off + 1, 0x1000, 0x10000])):
            if size < 0:
                continue
            def leaf(t, size=size):
                if t == ('param', szp[0]):
                    return size
                raise Unfoldable(fmt(t)[:80])
            fo = Folder(leaf)
            try:
                hit = [p for p in paths if path_holds(fo, p)]
                rows += 1
                for p in hit:
                    for e in p.effects:
                        if e[0] == 'call' and 'slice_from_raw_parts' in e[2]:
                            ln = fo.ev(e[3][1])
                            if off + ln > size:
                                bad = 'region of %#x bytes: the window starts at offset %#x and is %#x bytes long - it extends %#x bytes past the region' % (
                                    size, off, ln, off + ln - size)
            except Unfoldable as e_:
                bad = 'unfoldable: %s' % e_
                break
            if bad:
                break
        R.tables += rows
        if bad and bad.startswith('unfoldable'):
            R.abstain(rule, '%s:region-window' % b['id'], bad, where)
            continue
        R.check(bad is None, rule, '%s:region-window' % b['id'], where, 'offset %#x + window length <= region size for %d sizes' % (off, rows),
                'configuration window of a size-described region: %s' % bad)
    R.count('region_windows', n)


def eval_access(paths, present, ln, off, szt, alt):
    def leaf(t):
        if t == ('param', 2):
            return off
        if t[0] == 'call' and t[2].endswith('::len'):
            return ln
        if t[0] == 'discr' and t[1][0] == 'call' and (t[1][2].endswith('::as_ref') or t[1][2].endswith('::as_mut')):
            return present
        if t[0] == 'load0' and 'promoted' in fmt(t):
            return 0
        raise Unfoldable(fmt(t)[:100])
    fo = Folder(leaf, generic={'T': szt, 'alignof:T': alt})

    class FO(Folder):
        pass
    # size_of / align_of of T differ: patch the generic lookup
    orig_ev = fo.ev

    def ev(t):
        if t[0] == 'alignof' and t[1] == 'T':
            return alt
        return orig_ev(t)
    fo.ev = ev
    try:
        for p in paths:
            if path_holds(fo, p):
                accessed = False
                at = None
                for e in p.effects:
                    if e[0] == 'call' and 'safe_mmio::' in e[2] and e[2].rsplit('::', 1)[1] in ('read_unsafe', 'write_unsafe'):
                        accessed = True
                    if e[0] == 'call' and e[2].endswith('::byte_add'):
                        at = fo.ev(e[3][1])
                if p.panicked:
                    # alignment asserts are documented preconditions: only arithmetic panics count
                    kind = p.end[2] if p.end and p.end[0] == 'assert' else 'explicit'
                    if kind == 'Overflow':
                        return 'panic', accessed, at
                    return 'precondition', accessed, at
                return err_variant(p.ret) or 'Err', accessed, at
    except Unfoldable as e:
        return 'unfoldable', str(e), None
    return 'nopath', False, None


def g2_retry(F, R):
    fid = 'transport::Transport::read_consistent'
    b = F.bodies.get(fid)
    if b is None:
        cands = [x for x in F.bodies.values() if x.get('in_trait') == TRANSPORT and 'Fn' in x.get('sig', '') and has_loop(x)]
        if not cands:
            raise Undecided('read_consistent (provided Transport method with a retry loop) not found')
        b = cands[0]
        fid = b['id']
    ov = F.overrides.get((TRANSPORT, b['name']))
    R.check(not ov, 'G2', 'no-override', fn_site(F, fid), 'no Transport impl overrides %s' % b['name'], '%s is overridden by %s' % (b['name'], ov))
    sg = supergraph(F, fid)
    paths = PathEnum(sg).run()
    where = fn_site(F, fid)
    rets = [p for p in paths if p.end and p.end[0] == 'return']
    loops = [p for p in paths if p.end and p.end[0] == 'loop']
    ok = bool(rets) and bool(loops)
    det = ''
    for p in rets:
        gens = [e for e in p.effects if e[0] == 'call' and e[4].get('method') == 'read_config_generation']
        calls = [e for e in p.effects if e[0] == 'call' and e[4].get('trait') in ('core::ops::Fn', 'core::ops::FnMut', 'core::ops::FnOnce')]
        order = [('gen' if e in gens else 'call') for e in p.effects if e in gens or e in calls]
        eqs = [c for c in p.conds if c[0][0] == 'bin' and c[0][1] in ('Eq', 'Ne')]
        good_cmp = False
        for c in eqs:
            a, b_ = c[0][2], c[0][3]
            if a[0] == 'call' and b_[0] == 'call' and a[1] != b_[1] and {a[1], b_[1]} == {gens[0][1], gens[-1][1]} if len(gens) >= 2 else False:
                eq_edge = (c[0][1] == 'Eq' and ((c[1][0] == 'notin' and 0 in c[1][1]) or (c[1][0] == 'in' and c[1][1] == (1,)))) or \
                          (c[0][1] == 'Ne' and c[1][0] == 'in' and c[1][1] == (0,))
                good_cmp = eq_edge
        ret_is_closure = p.ret is not None and calls and p.ret[0] == 'call' and p.ret[1] == calls[0][1]
        if order != ['gen', 'call', 'gen'] or not good_cmp or not ret_is_closure:
            ok = False
            det = 'order=%s compares-two-distinct-generation-reads-on-equal-edge=%s returns-closure-result=%s' % (order, good_cmp, ret_is_closure)
    R.check(ok, 'G2', 'retry-loop', where, 'generation, closure, generation; return only if the two reads are equal, else retry',
            'read_consistent does not implement the generation retry protocol: %s (returning paths %d, retry paths %d)' % (det, len(rets), len(loops)))
    # bracket on every iteration (also after a retry): the value returned is produced by a closure call that lies between
    # the two generation reads that are compared
    S = sg.sym
    gens = [n.id for n in sg.calls(lambda d: d.get('method') == 'read_config_generation')]
    clos = [n.id for n in sg.calls(lambda d: d.get('trait') in ('core::ops::Fn', 'core::ops::FnMut', 'core::ops::FnOnce'))]
    cmps = []
    for n in sg.nodes:
        if n.kind == 'assign' and n.d['rv']['rv'] == 'bin':
            t = S.rvalue(n.id, n.d['rv'])
            if t[1] in ('Eq', 'Ne'):
                xs = set(x[1] for x in subterms(t[2]) if x[0] == 'call' and x[1] in gens)
                ys = set(x[1] for x in subterms(t[3]) if x[0] == 'call' and x[1] in gens)
                if xs and ys:
                    cmps.append((n.id, xs, ys))
    good = bool(cmps) and bool(clos)
    why = 'no comparison of two generation reads' if not cmps else ''
    for cid, xs, ys in cmps:
        def oriented(db, da):
            if db & da:
                return 'the same generation read feeds both sides of the comparison'
            for b_ in db:
                if not sg.between_always(b_, cid, clos):
                    return 'the "before" generation read at %s can reach the comparison without the closure running in between' % site(sg, sg.nodes[b_])
            for c_ in clos:
                if cid in sg.reach_fwd(sg.nodes[c_].succ) and not sg.between_always(c_, cid, da):
                    return 'the closure call at %s can reach the comparison without a later generation read' % site(sg, sg.nodes[c_])
            return None
        w1, w2 = oriented(xs, ys), oriented(ys, xs)
        if w1 is not None and w2 is not None:
            good = False
            why = w1
    R.check(good, 'G2', 'retry-loop:bracket', where, 'on every iteration the closure runs between the two compared generation reads (%d reads, %d closure calls)' % (len(gens), len(clos)),
            'read_consistent can return a value that was not bracketed by the two generation reads it compares: %s - a configuration change during that read goes unnoticed (torn value)' % why)


def g3_wrapped(F, R):
    rc = 'transport::Transport::read_consistent'
    found = {}
    for b in F.bodies.values():
        if not F.handwritten(b) or b['kind'] == 'Closure':
            continue
        sg = supergraph(F, b['id'], tag='flat', max_depth=0)
        S = sg.sym
        rcs = [n for n in sg.calls(lambda d: d.get('trait') == TRANSPORT and d.get('method') == 'read_consistent')]
        if not rcs:
            continue
        # closure handed to read_consistent
        for n in rcs:
            clo = S.operand(n.id, n.d['args'][1])
            cid = None
            for x in subterms(clo):
                if x[0] == 'agg' and x[1].startswith('closure:'):
                    cid = x[1][len('closure:'):]
            adt = b.get('impl_adt')
            key = adt or b['id']
            if cid and cid in F.bodies:
                csg = supergraph(F, cid)
                reads = [m for m in csg.calls(lambda d: d.get('trait') == TRANSPORT and d.get('method') == 'read_config_space')]
                found.setdefault(key, []).append((b['id'], cid, len(reads)))
                R.check(len(reads) >= 1, 'G3', '%s:closure-reads' % b['id'], site(sg, n), 'closure performs %d config read site(s)' % len(reads),
                        'closure passed to read_consistent performs no configuration read')
        # the closure must not capture a value that was itself read from configuration space outside it
        deep = supergraph(F, b['id'], opaque=lambda t, bb: bb['kind'] == 'Closure' or bb['id'] == rc, tag='g3')
        DS = deep.sym

        def from_cfg(t, depth=0):
            if derives_from(t, lambda x: x[0] == 'call' and deep.nodes[x[1]].d.get('trait') == TRANSPORT and deep.nodes[x[1]].d.get('method') == 'read_config_space'):
                return True
            if depth > 3:
                return False
            for x in subterms(t):
                if x[0] == 'loc' and x[1][0] == 'local':
                    _, cx, l = x[1]
                    for dn, part in DS.defs.get((cx, l), []):
                        if not part and from_cfg(DS.def_value(dn, cx, l), depth + 1):
                            return True
            return False
        for n in deep.calls(lambda d: d.get('trait') == TRANSPORT and d.get('method') == 'read_consistent'):
            clo = DS.operand(n.id, n.d['args'][1])
            bad = None
            for x in subterms(clo):
                if x[0] == 'agg' and x[1].startswith('closure:'):
                    for up in x[2]:
                        if from_cfg(up):
                            bad = up
            R.check(bad is None, 'G3', '%s:closure-captures-no-config-value' % b['id'], site(deep, n),
                    'the consistent-read closure captures no value read from configuration space outside it',
                    'the closure passed to read_consistent uses a value (%s) that was read from configuration space outside the closure, '
                    'so the assembled value can be torn by a configuration change between the reads' % (fmt(bad)[:120] if bad else ''))
        # one value is one snapshot: no arithmetic combination (or / shift / add ...) of the results of two different consistent
        # reads - each is generation-checked on its own, nothing ties the generation of one to that of the other
        rcids = set(n.id for n in deep.calls(lambda d: d.get('trait') == TRANSPORT and d.get('method') == 'read_consistent'))
        if len(rcids) >= 2:
            def snaps(t):
                return set(x[1] for x in deep_subterms(DS, t) if x[0] == 'call' and x[1] in rcids)
            badc = None
            for nd in deep.nodes:
                if nd.ctx != 0 or nd.kind != 'assign' or nd.d['rv']['rv'] != 'bin' or nd.d['rv']['op'] in ('Eq', 'Ne', 'Lt', 'Le', 'Gt', 'Ge'):
                    continue
                a, b_ = snaps(DS.operand(nd.id, nd.d['rv']['a'])), snaps(DS.operand(nd.id, nd.d['rv']['b']))
                if a and b_ and len(a | b_) >= 2:
                    badc = nd
            R.check(badc is None, 'G3', '%s:one-value-one-snapshot' % b['id'], site(deep, badc) if badc else fn_site(F, b['id']),
                    'no value is assembled from the results of two separate consistent reads',
                    'a value is assembled (%s) from the results of two separate read_consistent calls: a configuration change between the two '
                    'calls yields a combination the device never exposed' % (badc.d['rv']['op'] if badc else ''))
    # the five named values
    for adt, what in WRAPPED.items():
        mod = adt.rsplit('::', 1)[0]
        if not any(k.startswith(mod + '::') for k in F.bodies):
            R.note('G3: %s is not part of this configuration (%s)' % (adt, F.cfg))
            R.count('wrapped_values', 1)
            continue
        hits = [v for k, v in found.items() if k == adt or (isinstance(k, str) and k.startswith(adt.rsplit('::', 1)[0] + '::') and adt not in F.adts)]
        if adt not in F.adts:
            # free function (9P mount tag reader) lives in the driver's module
            mod = adt.rsplit('::', 1)[0]
            hits = [v for k, v in found.items() if isinstance(k, str) and k.startswith(mod + '::')]
        n = sum(len(h) for h in hits)
        if n == 0:
            mod = adt.rsplit('::', 1)[0]
            hits = [v for k, v in found.items() if isinstance(k, str) and k.startswith(mod + '::')]
            n = sum(len(h) for h in hits)
        R.count('wrapped_values', min(n, 1))
        R.check(n >= 1, 'G3', 'wrapped:%s' % what.replace(' ', '-'), adt, '%s is read under read_consistent' % what,
                'the %s (%s) is no longer read inside a closure passed to read_consistent' % (what, adt))


def thorough_extra(R, here):
    run_witnesses(R, here, {'C13G4ReadWriteOnly': 'read_config! on a WriteOnly field', 'C13G4WriteReadOnly': 'write_config! on a ReadOnly field'}, 'G4')
