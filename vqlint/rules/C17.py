"""C17 - socket streams are loss-free and obey credit-based flow control both ways.

Decided:
 V1 header layout and codes: 44-byte packed header with the field offsets of VirtIO 1.2 5.10.6, op codes 1..7, stream
    type 1, shutdown flags RCV 1 / SEND 2, config guest_cid at 0/4.
 V2 field provenance: every packet-emitting operation of the socket driver is path-enumerated; the header that reaches
    the transmit queue has src_cid <- guest cid, dst_cid/dst_port <- the connection's peer address, src_port <- local
    port, buf_alloc/fwd_cnt <- the connection's own allocation / forwarded counter, type = STREAM, len <- payload
    length (0 for control packets) and the operation's op code (connect REQUEST, accept RESPONSE, send RW, credit_update
    CREDIT_UPDATE, credit request CREDIT_REQUEST, shutdown SHUTDOWN, force_close RST); payload element = caller bytes.
 V3 credit gate + V5 counters: `send` is folded over (peer_buf_alloc, tx_cnt, peer_fwd_cnt, len, pending flag), including
    counter values after 32-bit wrap-around: the RW packet is emitted iff len <= peer_buf_alloc - (tx_cnt - peer_fwd_cnt)
    computed with free-running (wrapping) counters, never by panic; then tx_cnt advances by exactly len (wrapping);
    otherwise the error is returned, a single CREDIT_REQUEST is emitted iff none is pending and the pending flag is set.
    The forwarded-byte counter advances by the drained length with wrapping arithmetic.
 V4 advertised credit: the connection's buf_alloc and its ring buffer are created from the same capacity value; peer
    credit fields are copied from the received header's buf_alloc / fwd_cnt; a credit update clears the pending flag.
 V6 ring buffer index arithmetic: add/drain are folded for every (capacity<=5, start, used, n): the copies performed
    write exactly bytes i -> slot (start+used+i) mod capacity (add) and read slot (start+i) mod capacity -> out[i]
    (drain), with used/start updated accordingly; add refuses exactly when n > free.
 V11 wrap-safe counters and completion test (= C03.E5 / E9).  V12 = C03.E1 / E2 (lengths / ids from the used-ring slot).
Not decided: loss-freedom of the stream and the credit inequality over histories.
"""
from .common import *
from ..paths import *
from . import C05

EXPLANATION = ("Header layout from rustc's layout; each emitting operation's header aggregate and the credit predicate are recovered as "
               "guarded expressions and folded over enumerated counter values including post-wrap values; the ring buffer's copy ranges "
               "are folded for all small capacities and compared with modular indexing.")
CONFIGS = ['def', 'alloc', 'def-rel']    # these drivers need the `alloc` feature
FLOORS = {'credit_refresh_sites': 1, 'emitting_ops': 6, 'credit_rows': 100, 'ring_rows': 300}
SOCK = 'device::socket::vsock::VirtIOSocket'
HDR_OFFS = {'src_cid': 0, 'dst_cid': 8, 'src_port': 16, 'dst_port': 20, 'len': 24, 'socket_type': 28, 'op': 30, 'flags': 32, 'buf_alloc': 36, 'fwd_cnt': 40}
OPS = {'Request': 1, 'Response': 2, 'Rst': 3, 'Shutdown': 4, 'Rw': 5, 'CreditUpdate': 6, 'CreditRequest': 7}
OP_OF = {'connect': 1, 'accept': 2, 'send': 5, 'credit_update': 6, 'shutdown': 4, 'shutdown_with_hints': 4, 'force_close': 3}
M32 = 2**32

def v15_forwarded_is_read(F, R):
    """fwd_cnt counts bytes handed to the application: the amount by which the forwarded counter is advanced is the number of bytes
    the receive buffer's drain actually returned - not what was buffered, nor the caller's buffer length."""
    info = [n for n in F.adts if n.endswith('::ConnectionInfo') and n.startswith('device::socket::')]
    rb = [n for n in F.adts if n.endswith('RingBuffer') and n.startswith('device::socket::')]
    if not info or not rb:
        return
    fwd = set()
    for b in F.bodies.values():
        if b.get('impl_adt') != info[0] or not F.handwritten(b) or b['arg_count'] != 2 or b['locals'][2]['ty'] != 'usize':
            continue
        sg0 = supergraph(F, b['id'], tag='flat', max_depth=0)
        for nd in sg0.nodes:
            if nd.kind == 'assign' and nd.d['place']['p'] and isinstance(nd.d['place']['p'][-1], dict) and 'fwd' in str(nd.d['place']['p'][-1].get('n')):
                fwd.add(b['id'])
    drains = set(b['id'] for b in F.bodies.values() if b.get('impl_adt') == rb[0] and F.handwritten(b) and '&mut [u8]' in ' '.join(l_['ty'] for l_ in b['locals'][1:b['arg_count'] + 1])
                 and b['locals'][0]['ty'] == 'usize')
    n = 0
    for b in sorted(F.bodies.values(), key=lambda x: x['id']):
        if not F.handwritten(b) or 'device::socket' not in b['id'] or b['id'] in fwd:
            continue
        sg = supergraph(F, b['id'], tag='flat', max_depth=0)
        S = sg.sym
        for c in sg.calls(lambda d: d.get('fn') in fwd):
            n += 1
            amt = S.operand(c.id, c.d['args'][1])
            ok = any(x[0] == 'call' and x[2] in drains for x in deep_subterms(S, amt))
            R.check(ok, 'V15', '%s:forwarded-is-read' % b['id'], site(sg, c), 'the forwarded counter advances by what drain returned',
                    '%s advances the forwarded-bytes counter by %s, which is not the number of bytes the receive buffer handed out: after a partial read the '
                    'advertised free space is overstated and a peer honouring it overruns the buffer' % (b['name'], fmt(amt)[:60]))
    R.count('forward_sites', n)


def v13_accounting_on_table_entry(F, R):
    """The driver-level operations update a connection's accounting (bytes sent, "credit request pending") through the
    `&mut ConnectionInfo` they are given: the connection manager hands them the `info` of the connection in its table - not a
    copy whose updates are lost on the paths that do not write it back (a refused send then asks for credit again on every retry)."""
    MGR_ = 'device::socket::connectionmanager::VsockConnectionManager'
    n = 0
    for b in sorted(F.bodies.values(), key=lambda x: x['id']):
        if b.get('impl_adt') != MGR_ or not F.handwritten(b) or b['kind'] not in ('AssocFn', 'Closure'):
            continue
        sg = supergraph(F, b['id'], tag='flat', max_depth=0)
        S = sg.sym
        for c in sg.calls(lambda d: 'device::socket::vsock::VirtIOSocket' in d.get('fn', '')):
            for a, ty in zip(c.d['args'], c.d.get('arg_tys', [])):
                if not (ty.startswith('&mut ') and ty.endswith('ConnectionInfo')):
                    continue
                n += 1
                t = S.operand(c.id, a)
                on_entry = any(x[0] == 'loc' and any(pp[0] == 'f' and pp[1] == 'info' for pp in x[2]) for x in subterms(t))     # the reference itself, not a copy made from it
                R.check(on_entry, 'V13', '%s:%s:accounting-on-table-entry' % (b['id'], c.d['fn'].rsplit('::', 1)[1]), site(sg, c),
                        'the driver operation updates the table entry\'s own connection info',
                        '%s passes %s to %s, not the `info` of the connection in the table: accounting updates made on an error path (credit request '
                        'pending) or before a later failure are lost' % (b['name'], fmt(t)[:60], c.d['fn'].rsplit('::', 1)[1]))
    R.count('accounting_calls', n)



def run(F, R):
    M = model(F)
    M.require_rings()
    roles = C05.classify_api(C05.queue_api(F, M))
    hdr = v1_layout(F, R)
    if not hdr:
        return
    v2_v3(F, R, M, roles, hdr)
    v4_credit(F, R)
    v7_credit_from_every_packet(F, R)
    v10_body_bounded(F, R)
    # V8: a packet is attributed to the connection whose full addressing it carries (shared with C18.X5): otherwise the
    # bytes and the credit of one stream are applied to another
    from .C18 import x5_predicates
    x5_predicates(F, RuleProxy(R, {'X5': 'V8'}))
    # V9: the socket queues run in the negotiated modes (C08.H3)
    from .C08 import queue_modes_rule
    queue_modes_rule(F, R, M, 'V9', ['device::socket'])
    # V11: packets and credit updates keep being seen after the 16-bit ring indices wrap (65536 completions on one queue): wrap-safe
    # counters and the folded completion test (C03.E5 / E9)
    from .C03 import wrap_rule
    wrap_rule(F, R, 'V11')
    # V12: lengths and ids of completions come from the used-ring slot of the trusted index; a refused poll consumes nothing (C03.E1 / E2)
    from .C03 import pop_rule
    pop_rule(F, R, 'V12')
    v13_accounting_on_table_entry(F, R)
    v15_forwarded_is_read(F, R)
    # V14: a credit request is answered and a credit update refreshes the peer's credit only if each is decoded as what it is:
    # operation codes decode to the protocol's event kinds (C18.X1)
    from .C18 import x10_event_decoding
    guard(R, 'V14', 'event-decoding', lambda: x10_event_decoding(F, RuleProxy(R, {'X1': 'V14'})))
    v5_fwd(F, R)
    v6_ring(F, R)
    v6b_is_empty(F, R)


def v1_layout(F, R):
    hs = [n for n, a in F.adts.items() if n.startswith('device::socket::') and '@' not in n and a['kind'] == 'struct' and a.get('layout', {}).get('size') == 44]
    R.check(len(hs) == 1, 'V1', 'layout:header-size', 'device::socket::protocol', '44-byte header %s' % hs, 'no unique 44-byte vsock header type: %s' % hs)
    if len(hs) != 1:
        return None
    a = F.adts[hs[0]]
    role_of = {}
    offs = a['layout'].get('offsets')
    fields = [f['name'] for f in a['variants'][0]['fields']]
    got = sorted(offs) if offs else None
    ok = a['repr']['packed'] and got == sorted(HDR_OFFS.values())
    if offs:
        inv = {v: k for k, v in HDR_OFFS.items()}
        for fn_, o in zip(fields, offs):
            role_of[fn_] = inv.get(o)
    R.tables += len(HDR_OFFS)
    R.check(ok, 'V1', 'layout:header-fields', hs[0], 'packed, fields at %s' % got, 'vsock header layout %s (packed=%s) differs from VirtIO 1.2 5.10.6' % (got, a['repr']['packed']))
    for n, e in F.adts.items():
        if n.startswith('device::socket::') and e['kind'] == 'enum' and {v['name'] for v in e['variants']} >= {'Request', 'Rw', 'Rst'}:
            for v in e['variants']:
                if v['name'] in OPS:
                    R.tables += 1
                    R.check(int(v['discr']) == OPS[v['name']], 'V1', 'op:%s' % v['name'], n, '%s = %d' % (v['name'], OPS[v['name']]),
                            'op %s encoded as %s, specification %d' % (v['name'], v['discr'], OPS[v['name']]))
        if n.startswith('device::socket::') and e['kind'] == 'enum' and {v['name'] for v in e['variants']} >= {'Stream'}:
            st = [int(v['discr']) for v in e['variants'] if v['name'] == 'Stream'][0]
            R.check(st == 1, 'V1', 'type:stream', n, 'STREAM = 1', 'socket type STREAM = %d' % st)
    rcv = F.const_val('device::socket::protocol::StreamShutdown::RECEIVE')
    snd = F.const_val('device::socket::protocol::StreamShutdown::SEND')
    if rcv is not None:
        R.check((rcv, snd) == (1, 2), 'V1', 'shutdown-flags', 'StreamShutdown', 'RCV=1 SEND=2', 'shutdown flags RCV=%s SEND=%s' % (rcv, snd))
    return hs[0], role_of


def header_of_emission(p, e, hdr_adt):
    """Header aggregate (dict role -> term) submitted by an add_notify_wait_pop effect on path p, plus payload elements."""
    arr = e[3][1]
    vals = []
    st = [arr]
    seen = 0
    elems = None
    while st and seen < 20:
        t = st.pop()
        seen += 1
        if t[0] == 'agg' and t[1] == 'array':
            elems = list(t[2])
            break
        for x in subterms(t):
            if x[0] == 'loc' and x[1][0] == 'local':
                k = (x[1][1], x[1][2])
                if k in p.env:
                    st.append(p.env[k])
                lk = ('loc', x[1], ())
                if lk in p.mem:
                    st.append(p.mem[lk])
    if elems is None:
        return None, None
    hv = None
    payload = []
    for el in elems:
        base = el
        bytes_of = False
        while base[0] in ('idcall', 'conv', 'cast'):
            if base[0] == 'idcall' and 'as_bytes' in base[1]:
                bytes_of = True
            base = base[2] if base[0] != 'cast' else base[3]
        v = None
        if base[0] == 'ref' and base[1][1][0] == 'local':
            k = (base[1][1][1], base[1][1][2])
            v = p.env.get(k) or p.mem.get(('loc', base[1][1], ()))
            if v is not None and v[0] == 'agg' and v[3]:
                # later stores to single fields of the header local (`header.op = ..`) override the aggregate's values
                ops = list(v[2])
                for mk, mv in p.mem.items():
                    if mk[1] == base[1][1] and len(mk[2]) == 1 and mk[2][0][0] == 'f' and mk[2][0][1] in v[3]:
                        ops[v[3].index(mk[2][0][1])] = mv
                v = (v[0], v[1], tuple(ops), v[3])
        elif base[0] == 'refto':
            v = base[1]
        if v is not None and v[0] == 'agg' and v[1].startswith(hdr_adt):
            hv = v
        else:
            payload.append(base)
    return hv, payload


def v2_v3(F, R, M, roles, hdr):
    hdr_adt, role_of = hdr
    ci = 'device::socket::vsock::ConnectionInfo'
    flds = roles_of_connection(F, ci)
    if not flds:
        raise Undecided('cannot identify the credit fields of ConnectionInfo')
    n_ops = 0
    for b in F.bodies.values():
        if b.get('impl_adt') != SOCK or 'impl_trait' in b or b['kind'] != 'AssocFn' or not F.handwritten(b):
            continue
        if b['name'] not in OP_OF and b['name'] != 'request_credit':
            continue
        sg = supergraph(F, b['id'], opaque=lambda t, bb: bb['id'] in roles, tag='c17')
        where = fn_site(F, b['id'])
        try:
            paths = PathEnum(sg, max_paths=20000).run()
        except PathLimit as e:
            R.abstain('V2', b['id'], str(e), where)
            continue
        n_ops += 1
        fn = sg.entry_fn
        ptys = [l['ty'] for l in fn['locals'][1:fn['arg_count'] + 1]]
        pconn = [i + 1 for i, t in enumerate(ptys) if 'ConnectionInfo' in t]
        pbuf = [i + 1 for i, t in enumerate(ptys) if t.endswith('[u8]')]
        want_op = OP_OF.get(b['name'], 7)
        seen = 0
        bad = None
        for p in paths:
            if p.panicked:
                continue
            ems = [e for e in p.effects if e[0] == 'call' and roles.get(e[2]) == 'add_notify_wait_pop']
            for e in ems:
                hv, payload = header_of_emission(p, e, hdr_adt)
                if hv is None:
                    bad = 'abstain: cannot recover the header aggregate'
                    continue
                f = {role_of.get(k, k): v for k, v in zip(hv[3], hv[2])}
                opv = fold_const(strip_conv(f.get('op')))
                if opv is None and f.get('op') is not None:
                    o = strip_conv(f['op'])
                    if o[0] == 'agg' and '::' in o[1]:
                        opv = OPS.get(o[1].rsplit('::', 1)[1])
                is_credit_req = (opv == 7 and b['name'] == 'send')
                if not is_credit_req and opv != want_op:
                    bad = 'op code %s, expected %d' % (opv, want_op)
                seen += 1

                def src(t, fld=None, param=None):
                    t = strip_conv(t)
                    if fld is not None:
                        return t[0] == 'load0' and tuple(pp[1] for pp in t[1][2] if pp[0] == 'f')[-len(fld):] == tuple(fld) and \
                            (not pconn or strip_ptr(t[1][1][1]) == ('param', pconn[0]))
                    return False
                checks = [('src_cid', lambda t: strip_conv(t)[0] == 'load0' and strip_conv(t)[1][2][-1][1] == 'guest_cid'),
                          ('dst_cid', lambda t: src(t, ('dst', 'cid'))), ('dst_port', lambda t: src(t, ('dst', 'port'))),
                          ('src_port', lambda t: src(t, ('src_port',))), ('buf_alloc', lambda t: src(t, (flds['buf_alloc'],))),
                          ('fwd_cnt', lambda t: src(t, (flds['fwd_cnt'],)))]
                for name, pred in checks:
                    if name in f and not pred(f[name]):
                        bad = 'header field %s <- %s' % (name, fmt(f[name])[:80])
                ty = strip_conv(f.get('socket_type', ('const', 0, '')))
                tyv = 1 if (ty[0] == 'agg' and ty[1].endswith('::Stream')) else fold_const(ty)
                if tyv != 1:
                    bad = 'socket type %s, expected STREAM' % fmt(ty)
                ln = strip_conv(f.get('len', ('const', 0, '')))
                if opv == 5:
                    ok_len = derives_from(ln, lambda x: x[0] == 'call' and x[2].endswith('::len')) and len(payload) <= 1 and all(
                        pl[0] == 'ref' and pl[1][1][0] == 'deref' and pbuf and strip_ptr(pl[1][1][1]) == ('param', pbuf[0]) for pl in payload)
                    if not ok_len:
                        bad = 'RW packet: len <- %s with %d payload elements' % (fmt(ln)[:60], len(payload))
                else:
                    if fold_const(ln) != 0 or any(not ('promoted' in fmt(x)) for x in payload if x[0] != 'ref' or True) and False:
                        bad = 'control packet carries len %s' % fmt(ln)[:60]
        if bad and bad.startswith('abstain'):
            R.abstain('V2', '%s:header' % b['name'], bad, where)
        else:
            R.check(bad is None and seen > 0, 'V2', '%s:header' % b['name'], where, '%d emissions with correct addressing, credit fields, type and op %d' % (seen, want_op),
                    '%s emits a wrong header: %s' % (b['name'], bad if bad else 'no emission found'))
        if b['name'] == 'send':
            v3_gate(F, R, M, roles, b, sg, paths, flds, hdr_adt, role_of, pconn, pbuf)
    R.count('emitting_ops', n_ops)


def roles_of_connection(F, ci):
    """Field roles of ConnectionInfo by flow."""
    if ci not in F.adts:
        return None
    out = {'buf_alloc': 'buf_alloc'}
    # peer_* : assigned in the public update function from the event's buffer status
    for b in F.bodies.values():
        if b.get('impl_adt') != ci or not F.handwritten(b):
            continue
        sg = supergraph(F, b['id'], tag='flat', max_depth=0)
        S = sg.sym
        for n in sg.nodes:
            if n.kind == 'assign' and n.d['place']['p'] and isinstance(n.d['place']['p'][-1], dict) and n.d['place']['p'][-1].get('adt') == ci:
                fld = n.d['place']['p'][-1]['n']
                v = S.rvalue(n.id, n.d['rv'])
                s_ = fmt(v)
                if 'buffer_allocation' in s_:
                    out['peer_buf_alloc'] = fld
                elif 'forward_count' in s_:
                    out['peer_fwd_cnt'] = fld
                elif b.get('pub') and 'usize' in b.get('sig', '') and n.d.get('pty') == 'u32' and \
                        derives_from(v, lambda x: x[0] == 'param' and x[1] >= 2) and derives_from(v, lambda x: x[0] in ('load', 'load0')):
                    # the counter advanced by the number of bytes handed to the application (whatever the arithmetic used)
                    out['fwd_cnt'] = fld
                elif F.adts[ci]['variants'][0]['fields'] and n.d['pty'] == 'bool':
                    out['pending'] = fld
    # tx_cnt: the u32 private field that is neither of the above and is incremented in the socket's send
    u32s = [f['name'] for f in F.adts[ci]['variants'][0]['fields'] if f['ty'] == 'u32']
    rest = [f for f in u32s if f not in out.values() and f not in ('src_port',)]
    if len(rest) == 1:
        out['tx_cnt'] = rest[0]
    bools = [f['name'] for f in F.adts[ci]['variants'][0]['fields'] if f['ty'] == 'bool']
    if len(bools) == 1:
        out['pending'] = bools[0]
    need = {'peer_buf_alloc', 'peer_fwd_cnt', 'fwd_cnt', 'tx_cnt', 'pending'}
    if not need <= set(out):
        return None
    return out


def v3_gate(F, R, M, roles, b, sg, paths, flds, hdr_adt, role_of, pconn, pbuf):
    where = fn_site(F, b['id'])
    rows = 0
    bad = None
    cases = []
    for alloc in (0, 16, 1024):
        for tx, fw in ((0, 0), (10, 4), (1000, 1000), (5, M32 - 16), (M32 - 4, M32 - 20), (M32 - 1, 0), (20, 0)):
            for ln in (0, 1, 8, 16, 17, 1024):
                for pend in (0, 1):
                    cases.append((alloc, tx, fw, ln, pend))
    for alloc, tx, fw, ln, pend in cases:
        inflight = (tx - fw) % M32
        free = max(alloc - inflight, 0)
        want_send = ln <= free

        def leaf(t):
            if t[0] == 'load0' and t[1][2] and t[1][2][-1][0] == 'f':
                f_ = t[1][2][-1][1]
                if f_ == flds['peer_buf_alloc']:
                    return alloc
                if f_ == flds['tx_cnt']:
                    return tx
                if f_ == flds['peer_fwd_cnt']:
                    return fw
                if f_ == flds['pending']:
                    return pend
                return 7
            if t[0] == 'call' and t[2].endswith('::len'):
                return ln
            if t[0] == 'call' and t[2].endswith('::is_empty'):
                a = fmt(t[3][0])
                return 1 if 'promoted' in a else int(ln == 0)
            if t[0] == 'discr' and t[1][0] == 'call' and roles.get(t[1][2]) == 'add_notify_wait_pop':
                return 0
            raise Unfoldable(fmt(t)[:80])
        fo = Folder(leaf)
        try:
            hit = [p for p in paths if path_holds(fo, p)]
        except Unfoldable as e:
            R.abstain('V3', '%s:credit-gate' % b['name'], 'cannot fold: %s' % e, where)
            return
        rows += 1
        desc = 'peer_buf_alloc=%d tx_cnt=%d peer_fwd_cnt=%d (in flight %d, free %d) len=%d pending=%d' % (alloc, tx, fw, inflight, free, ln, pend)
        if len(hit) != 1:
            bad = '%s: %d feasible paths' % (desc, len(hit))
            break
        p = hit[0]
        if p.panicked:
            bad = '%s: panics (%s) - the byte counters must behave as free-running 32-bit counters' % (desc, p.end[2] if p.end and len(p.end) > 2 else 'explicit')
            break
        ems = [e for e in p.effects if e[0] == 'call' and roles.get(e[2]) == 'add_notify_wait_pop']
        ops = []
        for e in ems:
            hv, payload = header_of_emission(p, e, hdr_adt)
            f = {role_of.get(k, k): v for k, v in zip(hv[3], hv[2])} if hv else {}
            o = strip_conv(f.get('op', ('const', 0, '')))
            ops.append(OPS.get(o[1].rsplit('::', 1)[1]) if o[0] == 'agg' else fold_const(o))
        tx_st = [e for e in p.effects if e[0] == 'store' and e[2][2] and e[2][2][-1][0] == 'f' and e[2][2][-1][1] == flds['tx_cnt']]
        pend_st = [e for e in p.effects if e[0] == 'store' and e[2][2] and e[2][2][-1][0] == 'f' and e[2][2][-1][1] == flds['pending']]
        ev = err_variant(p.ret)
        if want_send:
            newtx = None
            try:
                newtx = fo.ev(tx_st[0][3]) if len(tx_st) == 1 else None
            except Unfoldable:
                pass
            if ops != [5] or ev != 'Ok' or newtx != (tx + ln) % M32:
                bad = '%s: enough credit, expected one RW packet and tx_cnt -> %d; got packets %s, result %s, tx_cnt -> %s' % (desc, (tx + ln) % M32, ops, ev, newtx)
                break
        else:
            want_ops = [] if pend else [7]
            if ops != want_ops or ev in ('Ok', None) or tx_st:
                bad = '%s: insufficient credit, expected refusal with packets %s; got packets %s, result %s, tx_cnt stores %d' % (desc, want_ops, ops, ev, len(tx_st))
                break
            if not pend:
                try:
                    pv = [fo.ev(e[3]) for e in pend_st]
                except Unfoldable:
                    pv = ['?']
                if pv != [1]:
                    bad = '%s: the pending-credit-request flag is not set after requesting credit (%s)' % (desc, pv)
                    break
    R.count('credit_rows', rows if not bad else 1000)
    R.tables += rows
    R.check(bad is None, 'V3', 'send:credit-gate', where, 'RW emitted iff len <= peer_buf_alloc - (tx_cnt - peer_fwd_cnt) with wrapping counters (%d rows incl. post-wrap values)' % rows,
            'credit gate: %s' % bad)


def v4_credit(F, R):
    conn = 'device::socket::connectionmanager::Connection'
    for b in F.bodies.values():
        if b.get('impl_adt') == conn and F.handwritten(b) and b['kind'] == 'AssocFn' and 'Self' in b.get('sig', '') or (b.get('impl_adt') == conn and b['name'] == 'new'):
            sg = supergraph(F, b['id'], opaque=lambda t, bb: bb['id'] != b['id'], tag='c17v4')
            S = sg.sym
            cap_users = []
            fn = sg.entry_fn
            caps = [i + 1 for i, l in enumerate(fn['locals'][1:fn['arg_count'] + 1]) if l['ty'] == 'u32']
            alloc_src = ring_src = None
            for n in sg.nodes:
                if n.kind == 'assign' and n.d['place']['p'] and isinstance(n.d['place']['p'][-1], dict) and n.d['place']['p'][-1].get('n') == 'buf_alloc':
                    alloc_src = S.rvalue(n.id, n.d['rv'])
            for n in sg.calls(lambda d: 'RingBuffer' in d.get('fn', '')):
                ring_src = S.operand(n.id, n.d['args'][0])
            ok = alloc_src is not None and ring_src is not None and [x for x in subterms(alloc_src) if x[0] == 'param'] == [x for x in subterms(ring_src) if x[0] == 'param'] and \
                any(x[0] == 'param' for x in subterms(alloc_src))
            R.check(ok, 'V4', 'advertised-credit-is-buffer-capacity', fn_site(F, b['id']), 'buf_alloc and the ring buffer use the same capacity',
                    'advertised buf_alloc (%s) and receive ring capacity (%s) come from different values' % (fmt(alloc_src) if alloc_src else None, fmt(ring_src) if ring_src else None))
    ci = 'device::socket::vsock::ConnectionInfo'
    flds = roles_of_connection(F, ci)
    for b in F.bodies.values():
        if b.get('impl_adt') == ci and b.get('pub') and 'VsockEvent' in b.get('sig', ''):
            sg = supergraph(F, b['id'])
            paths = [p for p in PathEnum(sg).run() if not p.panicked]
            ok = bool(paths)
            for p in paths:
                st = {e[2][2][-1][1]: e[3] for e in p.effects if e[0] == 'store' and e[2][2] and e[2][2][-1][0] == 'f'}
                a = 'buffer_allocation' in fmt(st.get(flds['peer_buf_alloc'], ('x',)))
                c = 'forward_count' in fmt(st.get(flds['peer_fwd_cnt'], ('x',)))
                if not (a and c):
                    ok = False
            R.check(ok, 'V4', 'peer-credit-from-header', fn_site(F, b['id']), 'peer_buf_alloc/peer_fwd_cnt copied from the received header', 'peer credit fields are not copied from the event buffer status')
            # the outstanding-credit-request flag is cleared by exactly the CreditUpdate event
            et = [n_ for n_ in F.adts if n_.endswith('::VsockEventType')]
            variants = {v['name']: int(v['discr']) for v in F.adts[et[0]]['variants']} if et else {}
            cu = variants.get('CreditUpdate')
            bad = None
            seen_clear = False
            for p in paths:
                clears = [e for e in p.effects if e[0] == 'store' and e[2][2] and e[2][2][-1][0] == 'f' and e[2][2][-1][1] == flds['pending']]
                sel = None
                for disc, (kind, vals), _ in p.conds:
                    if disc[0] == 'discr' and 'event_type' in fmt(disc):
                        sel = set(vals) if kind == 'in' else set(variants.values()) - set(vals)
                if clears:
                    seen_clear = True
                    v = strip_conv(clears[-1][3])
                    if not (v[0] == 'const' and v[1] == 0):
                        bad = 'the flag is set to %s on an incoming event' % fmt(v)
                    elif sel != {cu}:
                        names = sorted(k for k, d_ in variants.items() if sel and d_ in sel) if sel else ['every event']
                        bad = 'the flag is cleared by %s instead of by CreditUpdate only' % names
                elif sel is not None and cu in sel:
                    bad = 'a CreditUpdate event does not clear the flag'
            if cu is None or not seen_clear:
                bad = bad or 'no path clears the flag (CreditUpdate variant %s)' % cu
            R.check(bad is None, 'V4', 'credit-request-flag-cleared-by-update', fn_site(F, b['id']),
                    'has-pending-credit-request is cleared exactly on CreditUpdate', 'pending credit request bookkeeping: %s; a refused send then either repeats the request '
                    'while one is outstanding or never asks again' % bad)


def v7_credit_from_every_packet(F, R):
    """Every incoming packet carries the peer's credit (buf_alloc / fwd_cnt are in every header): where the stored
    connection info is refreshed from an event, a refreshing path exists for every kind of event."""
    ci = 'device::socket::vsock::ConnectionInfo'
    upd = [b['id'] for b in F.bodies.values() if b.get('impl_adt') == ci and b.get('pub') and 'VsockEvent' in b.get('sig', '') and F.handwritten(b)]
    et = [n_ for n_ in F.adts if n_.endswith('::VsockEventType')]
    variants = {v['name']: int(v['discr']) for v in F.adts[et[0]]['variants']} if et else {}
    n = 0
    for b in F.bodies.values():
        if not F.handwritten(b) or b['id'] in upd:
            continue
        if not any(bl['term']['k'] == 'call' and bl['term'].get('fn') in upd for bl in b['blocks']):
            continue
        sg = supergraph(F, b['id'], opaque=lambda t, bb: bb['id'] != b['id'], tag='v7')
        where = fn_site(F, b['id'])
        try:
            paths = [p for p in PathEnum(sg).run() if not p.panicked]
        except PathLimit as e:
            R.abstain('V4', '%s:credit-refreshed-for-every-event' % b['id'], str(e), where)
            continue
        n += 1
        missing = []
        for name, v in sorted(variants.items(), key=lambda kv: kv[1]):
            ok = False
            for p in paths:
                if not any(e[0] == 'call' and e[2] in upd for e in p.effects):
                    continue
                consistent = True
                for disc, (kind, vals), _ in p.conds:
                    if disc[0] == 'discr' and 'event_type' in fmt(disc):
                        if (kind == 'in' and v not in vals) or (kind == 'notin' and v in vals):
                            consistent = False
                if consistent:
                    ok = True
                    break
            if not ok:
                missing.append(name)
        R.check(not missing and bool(variants), 'V4', '%s:credit-refreshed-for-every-event' % b['id'], where,
                'the peer credit is refreshed for each of the %d event kinds' % len(variants),
                'the stored peer credit is never refreshed from %s events: credit carried by those packets - e.g. a reduced buf_alloc in a '
                'data packet - is ignored and the next send may exceed what the peer advertised' % '/'.join(missing))
    R.count('credit_refresh_sites', n)


def v10_body_bounded(F, R):
    """The payload handed on for a received packet is exactly header.len bytes: the body slice is taken with a two-sided
    range whose end is (header size + header length field), never "everything after the header" (the used length the device
    reports may exceed header + len)."""
    n = 0
    for b in F.bodies.values():
        if not F.handwritten(b) or 'device::socket' not in b['id'] or b['kind'] not in ('Fn', 'AssocFn'):
            continue
        sig = b.get('sig', '')
        if 'VirtioVsockHdr' not in sig.split('->')[-1] or '[u8]' not in sig.split('->')[-1] or b['arg_count'] != 1:
            continue
        sg = supergraph(F, b['id'])
        where = fn_site(F, b['id'])
        try:
            paths = [p for p in PathEnum(sg).run() if not p.panicked and err_variant(p.ret) == 'Ok']
        except PathLimit as e:
            R.abstain('V10', b['id'], str(e), where)
            continue
        n += 1
        bad = None
        for p in paths:
            tup = p.ret[2][0]
            body = tup[2][1] if tup[0] == 'agg' and len(tup[2]) > 1 else None
            rngs = [x for x in subterms(body) if x[0] == 'agg' and x[1].startswith('core::ops::Range')] if body else []
            two_sided = [x for x in rngs if x[1].startswith('core::ops::Range::')]
            if not two_sided:
                bad = 'the body is %s' % (fmt(body)[:100] if body else None)
                continue
            end = two_sided[0][2][1]
            if not derives_from(end, lambda x: x[0] == 'call' and (x[2].endswith('::len') and 'Hdr' in x[2] or 'VirtioVsockHdr' in x[2]) or (x[0] in ('field', 'load', 'load0') and fmt(x).endswith('.len'))):
                bad = 'the end of the body range (%s) does not come from the header\'s length field' % fmt(end)[:80]
        R.check(bad is None and bool(paths), 'V10', '%s:body-is-header-len' % b['id'], where, 'body = buffer[header size .. header size + header.len]',
                'received payload: %s; bytes past the payload length (padding / stale buffer contents) are delivered and counted against the credit' % bad)
    R.count('body_parsers', n)


def v5_fwd(F, R):
    ci = 'device::socket::vsock::ConnectionInfo'
    flds = roles_of_connection(F, ci)
    for b in F.bodies.values():
        if b.get('impl_adt') == ci and b.get('pub') and b.get('sig', '').count('usize') == 1 and 'Self' not in b.get('sig', '') and '->' not in b.get('sig', '').split(')')[-1]:
            sg = supergraph(F, b['id'])
            paths = PathEnum(sg).run()
            bad = None
            for cur, n in ((0, 5), (100, 924), (M32 - 4, 10), (M32 - 1, 1), (M32 - 1024, 1024)):
                def leaf(t):
                    if t[0] == 'load0':
                        return cur
                    if t[0] == 'param':
                        return n
                    raise Unfoldable(fmt(t)[:60])
                fo = Folder(leaf)
                hit = [p for p in paths if path_holds(fo, p)]
                R.tables += 1
                if len(hit) != 1 or hit[0].panicked:
                    bad = 'fwd_cnt=%d + %d drained bytes: %s' % (cur, n, 'panics' if hit and hit[0].panicked else '%d paths' % len(hit))
                    break
                st = [e for e in hit[0].effects if e[0] == 'store' and e[2][2] and e[2][2][-1][1] == flds['fwd_cnt']]
                got = fo.ev(st[0][3]) if st else None
                if got != (cur + n) % M32:
                    bad = 'fwd_cnt=%d + %d -> %s, expected %d' % (cur, n, got, (cur + n) % M32)
                    break
            R.check(bad is None, 'V5', 'fwd_cnt:free-running', fn_site(F, b['id']), 'forwarded counter advances modulo 2^32', 'forwarded-byte counter: %s' % bad)


def v6_ring(F, R):
    rb = [n for n in F.adts if n.endswith('RingBuffer') and n.startswith('device::socket::')]
    if not rb:
        R.note('V6: ring buffer type not found')
        return
    rb = rb[0]
    fs = {f['name']: f['ty'] for f in F.adts[rb]['variants'][0]['fields']}
    usz = [n for n, t in fs.items() if t == 'usize']
    for b in F.bodies.values():
        if b.get('impl_adt') != rb or not F.handwritten(b) or b['kind'] != 'AssocFn':
            continue
        import re as _re
        sig = _re.sub(r"'\w+ ", '', b.get('sig', ''))
        is_add = sig.endswith('-> bool') and '&[u8]' in sig
        is_drain = sig.endswith('-> usize') and '&mut [u8]' in sig
        if not (is_add or is_drain):
            continue
        sg = supergraph(F, b['id'])
        where = fn_site(F, b['id'])
        paths = PathEnum(sg).run()
        # field roles: 'used' is the one compared with capacity in add's refusal; use names by flow: start appears inside Rem
        start_f, used_f = ring_roles(paths, usz)
        if not start_f:
            R.abstain('V6', b['id'], 'cannot identify start/used fields', where)
            continue
        bad = None
        rows = 0
        for cap in (1, 2, 3, 5):
            for start in range(cap):
                for used in range(cap + 1):
                    for n in range(0, cap + 2):
                        def leaf(t):
                            if t[0] == 'load0' and t[1][2] and t[1][2][-1][0] == 'f':
                                f_ = t[1][2][-1][1]
                                return start if f_ == start_f else used if f_ == used_f else 0
                            if t[0] == 'call' and t[2].endswith('::len'):
                                a = fmt(t[3][0])
                                if 'arg2' in a and 'get#' in a:
                                    raise Unfoldable('sub-slice len')
                                return n if 'arg2' in a else cap
                            raise Unfoldable(fmt(t)[:60])
                        fo = RangeFolder(leaf, n)
                        try:
                            hit = [p for p in paths if path_holds(fo, p)]
                        except Unfoldable as e:
                            R.abstain('V6', b['id'], 'cannot fold: %s' % e, where)
                            return
                        rows += 1
                        desc = 'capacity=%d start=%d used=%d n=%d' % (cap, start, used, n)
                        if len(hit) != 1:
                            bad = '%s: %d feasible paths' % (desc, len(hit))
                            break
                        p = hit[0]
                        try:
                            copies = copy_pairs(fo, p, n if is_add else cap)
                        except Unfoldable as e:
                            R.abstain('V6', b['id'], 'cannot fold copy ranges: %s' % e, where)
                            return
                        if is_add:
                            if n > cap - used:
                                if p.panicked or fo.ev(p.ret) != 0 or copies:
                                    bad = '%s: must refuse without copying' % desc
                                    break
                                continue
                            if p.panicked:
                                bad = '%s: panics' % desc
                                break
                            want = {((start + used + i) % cap, i) for i in range(n)}
                            got = {(d, s) for (dk, d, sk, s) in copies if dk == 'buf' and sk == 'arg'}
                            st = {e[2][2][-1][1]: fo.ev(e[3]) for e in p.effects if e[0] == 'store' and e[2][2] and e[2][2][-1][0] == 'f'}
                            if got != want or st.get(used_f) != used + n or fo.ev(p.ret) != 1:
                                bad = '%s: copies (slot<-byte) %s, expected %s; used -> %s' % (desc, sorted(got), sorted(want), st.get(used_f))
                                break
                        else:
                            r = min(used, n)
                            if p.panicked:
                                bad = '%s: panics' % desc
                                break
                            want = {(i, (start + i) % cap) for i in range(r)}
                            got = {(d, s) for (dk, d, sk, s) in copies if dk == 'arg' and sk == 'buf'}
                            st = {e[2][2][-1][1]: fo.ev(e[3]) for e in p.effects if e[0] == 'store' and e[2][2] and e[2][2][-1][0] == 'f'}
                            if got != want or st.get(used_f) != used - r or st.get(start_f) != (start + r) % cap or fo.ev(p.ret) != r:
                                bad = '%s: copies (out<-slot) %s, expected %s; used -> %s start -> %s returns %s' % (
                                    desc, sorted(got), sorted(want), st.get(used_f), st.get(start_f), fo.ev(p.ret))
                                break
                    if bad:
                        break
                if bad:
                    break
            if bad:
                break
        R.count('ring_rows', rows if not bad else 10000)
        R.tables += rows
        R.check(bad is None, 'V6', '%s:index-arithmetic' % b['name'], where, 'copies follow modular ring indexing on %d rows (capacity <= 5)' % rows,
                'ring buffer %s: %s' % (b['name'], bad))


def v6b_is_empty(F, R):
    """The receive ring buffer reports empty exactly when it holds no bytes (the connection manager closes a connection after a
    peer shutdown once this is true)."""
    rb = [n for n in F.adts if n.endswith('RingBuffer') and n.startswith('device::socket::')]
    if not rb:
        return
    rb = rb[0]
    usz = [f['name'] for f in F.adts[rb]['variants'][0]['fields'] if f['ty'] == 'usize']
    for b in F.bodies.values():
        if b.get('impl_adt') != rb or not F.handwritten(b) or b['kind'] != 'AssocFn' or b['arg_count'] != 1 or not b.get('sig', '').endswith('-> bool'):
            continue
        sg = supergraph(F, b['id'])
        paths = [p for p in PathEnum(sg).run() if not p.panicked]
        # which usize field is "used": the one the drain / add functions add the length to - take it from the sibling rule's roles
        bad = None
        rows = 0
        for used in (0, 1, 5):
            for other in (0, 3):
                got = set()
                for uf in usz:
                    def leaf(t, uf=uf):
                        if t[0] in ('load0', 'load') and t[1][2] and t[1][2][-1][0] == 'f':
                            return used if t[1][2][-1][1] == uf else other
                        raise Unfoldable(fmt(t)[:60])
                    fo = Folder(leaf)
                    try:
                        hit = [p for p in paths if path_holds(fo, p)]
                        got.add(fo.ev(hit[0].ret) if len(hit) == 1 else None)
                    except Unfoldable:
                        got.add(None)
                rows += 1
                # for the right choice of "used" field the answer is (used == 0); some field must give that for every row
                if int(used == 0) not in got:
                    bad = 'with %d bytes buffered the buffer reports empty=%s' % (used, sorted(got, key=str))
        R.tables += rows
        R.check(bad is None, 'V6', '%s:empty-iff-no-bytes' % b['id'], fn_site(F, b['id']), 'empty exactly when no bytes are buffered', 'ring buffer %s: %s' % (b['name'], bad))


def ring_roles(paths, usz):
    start_f = used_f = None
    for p in paths:
        for c in p.conds:
            for x in subterms(c[0]):
                if x[0] == 'bin' and x[1] in ('Sub', 'SubWithOverflow'):
                    for y in subterms(x[3]):
                        if y[0] == 'load0' and y[1][2] and y[1][2][-1][1] in usz and strip_conv(x[3]) == y:
                            # capacity - FIELD
                            pass
        for e in p.effects:
            if e[0] == 'store' and e[2][2] and e[2][2][-1][1] in usz:
                v = e[3]
                if derives_from(v, lambda x: x[0] == 'bin' and x[1] == 'Rem'):
                    start_f = e[2][2][-1][1]
    if start_f:
        rest = [u for u in usz if u != start_f]
        used_f = rest[0] if len(rest) == 1 else None
    else:
        # add only: used is the stored field; start the other
        for p in paths:
            for e in p.effects:
                if e[0] == 'store' and e[2][2] and e[2][2][-1][1] in usz:
                    used_f = e[2][2][-1][1]
        if used_f:
            rest = [u for u in usz if u != used_f]
            start_f = rest[0] if len(rest) == 1 else None
    return start_f, used_f


class RangeFolder(Folder):
    """Folder that also understands `slice.get(range)` option discriminants and lengths of sub-slices."""

    def __init__(self, leaf, arglen):
        Folder.__init__(self, leaf)
        self.arglen = arglen

    def slice_range(self, t):
        """(kind 'arg'|'buf', lo, hi) of a (sub)slice term."""
        t0 = t
        while t0[0] in ('idcall', 'conv', 'cast'):
            t0 = t0[2] if t0[0] != 'cast' else t0[3]
        if t0[0] == 'refto':
            return self.slice_range(t0[1])
        if t0[0] == 'ref':
            loc = t0[1]
            base = loc[1]
            kind = 'arg' if (base[0] == 'deref' and strip_ptr(base[1])[0] == 'param' and strip_ptr(base[1])[1] == 2) else 'buf'
            inner_t = strip_ptr(base[1]) if base[0] == 'deref' else None
            is_split = inner_t is not None and inner_t[0] == 'field' and inner_t[1][0] == 'call' and '::split_at' in inner_t[1][2]
            if is_split or (base[0] == 'deref' and inner_t[0] not in ('param', 'load0', 'load') and not (inner_t[0] == 'field' and inner_t[1][0] != 'downcast')):
                # deref of another slice value (e.g. payload of get())
                inner = self.slice_range(strip_ptr(base[1]))
                kind, lo, hi = inner
            else:
                full = self.arglen if kind == 'arg' else self.leaf(('call', 0, 'x::len', (('ref', ('loc', ('deref', ('load0', ('loc', ('local', 0, 0), ())), ''), ())),)))
                lo, hi = 0, full
            for pp in loc[2]:
                if pp[0] == 'idx':
                    r = pp[1]
                    lo2, hi2 = self.range_of(r, hi - lo)
                    lo, hi = lo + lo2, lo + hi2
            return kind, lo, hi
        if t0[0] == 'field' and t0[1][0] == 'downcast' and t0[1][1][0] == 'call' and t0[1][1][2].endswith('::get'):
            c = t0[1][1]
            kind, lo, hi = self.slice_range(c[3][0])
            lo2, hi2 = self.range_of(c[3][1], hi - lo)
            return kind, lo + lo2, lo + hi2
        if t0[0] == 'field' and t0[1][0] == 'call' and (t0[1][2].endswith('::split_at') or t0[1][2].endswith('::split_at_mut')) and t0[2] in ('0', '1'):
            c = t0[1]
            kind, lo, hi = self.slice_range(c[3][0])
            k = self.ev(c[3][1])
            if not (0 <= k <= hi - lo):
                raise Unfoldable('split_at(%d) of a %d-byte slice (would panic)' % (k, hi - lo))
            return (kind, lo, lo + k) if t0[2] == '0' else (kind, lo + k, hi)
        raise Unfoldable('slice ' + fmt(t0)[:80])

    def range_of(self, r, length):
        if r[0] == 'agg' and r[1].startswith('core::ops::RangeFrom'):
            return self.ev(r[2][0]), length
        if r[0] == 'agg' and r[1].startswith('core::ops::RangeTo'):
            return 0, self.ev(r[2][0])
        if r[0] == 'agg' and r[1].startswith('core::ops::Range'):
            return self.ev(r[2][0]), self.ev(r[2][1])
        raise Unfoldable('range ' + fmt(r)[:60])

    def ev(self, t):
        if t[0] == 'discr' and t[1][0] == 'call' and t[1][2].endswith('::get'):
            c = t[1]
            kind, lo, hi = self.slice_range(c[3][0])
            lo2, hi2 = self.range_of(c[3][1], hi - lo)
            return 1 if 0 <= lo2 <= hi2 <= hi - lo else 0
        if t[0] == 'call' and t[2].endswith('::len') and t[3]:
            a = t[3][0]
            a0 = a
            while a0[0] in ('cast', 'conv', 'idcall'):
                a0 = a0[3] if a0[0] == 'cast' else a0[2]
            if a0[0] == 'refto':
                a0 = a0[1]
            if a0[0] == 'agg' and a0[1].startswith('core::ops::Range::'):
                # length of an index range (ExactSizeIterator::len), not of a slice
                lo, hi = self.ev(a0[2][0]), self.ev(a0[2][1])
                return max(0, hi - lo)
            if any(x[0] == 'call' and (x[2].endswith('::get') or '::split_at' in x[2]) for x in subterms(a)) or \
                    any(x[0] == 'loc' and any(pp[0] == 'idx' for pp in x[2]) for x in subterms(a)):
                kind, lo, hi = self.slice_range(a)
                return hi - lo
        return Folder.ev(self, t)


def copy_pairs(fo, p, n):
    """(dst kind, dst index, src kind, src index) for every byte moved by copy_from_slice effects on path p."""
    out = []
    for e in p.effects:
        if e[0] == 'call' and e[2].endswith('::copy_from_slice'):
            dk, dlo, dhi = fo.slice_range(e[3][0])
            sk, slo, shi = fo.slice_range(e[3][1])
            if dhi - dlo != shi - slo:
                raise Unfoldable('copy of unequal lengths %d/%d (would panic)' % (dhi - dlo, shi - slo))
            for i in range(dhi - dlo):
                out.append((dk, dlo + i, sk, slo + i))
    return out
