"""C18 - socket connection state follows the protocol and connections are isolated.

Decided (structural; the global state machine over histories is NOT decided):
 X1 dispatch guards in VsockConnectionManager::poll: `accept` is sent only on the edge where the listening set contains
    the request's destination port; on the other edge the request is reset (RST), the entry removed and nothing is
    reported; events matching no connection that are not requests are dropped by the handler without creating state.
 X2 lookups first: every public operation that takes (peer, port) reaches a packet emission only after a successful
    connection lookup (failure returns NotConnected); connect refuses with ConnectionExists before emitting.
 X3 table mutations: the connection table is only changed by push of a freshly constructed connection and by
    swap_remove/remove of *the index returned by the lookup of that same call*; no pop/clear/truncate/retain - so
    a removal can only affect the connection that was looked up.  recv resets+removes only when the peer requested
    shutdown and the buffer is drained; send/update_credit refuse when the peer requested shutdown.
 X5 isolation predicate: the predicate with which an incoming event selects its connection (the closure handed to
    find/position in the event lookup, captures resolved to the lookup's parameters) is path-enumerated and folded
    over perturbations of the 4-tuple: it is true iff event.source = connection peer, event.destination.cid = the
    local CID and event.destination.port = connection local port; the same for the (peer, port) lookup used by the
    public operations (true iff peer and local port both equal).
 X6 listening set: `listen(p)` adds p to the listening set on every path on which the set does not already contain p -
    the only condition guarding the insertion is membership of p in the listening set itself (never the state of the
    connection table); `unlisten` removes only p.
 X7 peer-shutdown flag: the connection's "peer requested shutdown" flag (the boolean of a connection that gates the
    reset-and-remove in recv) is only ever *set*: every assignment outside the connection constructor stores the
    constant true - a later event can never clear it, so a drained connection is always closed with a reset.
 X4 buffer return: every received packet, whatever the handler's outcome, returns its buffer (C19.Q1 on the receive
    queue's poll).
 X9 the receive buffer is empty exactly when no bytes are buffered (= C17.V6).
 X8 lookups that return (index, connection) enumerate the table's own iterator (the index is the position callers remove at).
"""
import json
from .common import *
from ..paths import *
from . import C05

EXPLANATION = ("Who-may-mutate and guard (control-dependence) queries over the MIR of the connection manager: table mutations are "
               "enumerated from resolved Vec method calls and their index operands traced to the lookup result; accept/reset emission "
               "sites are checked for their guards; public operations are checked for lookup dominance.")
CONFIGS = ['def', 'alloc', 'def-rel']    # these drivers need the `alloc` feature
FLOORS = {'shutdown_flag_stores': 1, 'listen_inserts': 1, 'selection_predicates': 2, 'table_mutations': 2, 'public_ops': 6}
MGR = 'device::socket::connectionmanager::VsockConnectionManager'
VEC = 'alloc::vec::Vec::<T, A>::'
VEC2 = 'alloc::vec::Vec::<T>::'


def lookup_fns(F):
    """Connection lookups: free functions of the manager's module that take the connection table (a slice of
    connections) and return something that carries a connection."""
    out = []
    for b in F.bodies.values():
        if not F.handwritten(b) or b['kind'] != 'Fn' or 'connectionmanager' not in b['id']:
            continue
        sig = b.get('sig', '')
        if '->' not in sig:
            continue
        params, ret = sig.rsplit('->', 1)
        if '[device::socket::connectionmanager::Connection]' in params and 'Connection' in ret:
            out.append(b)
    return out


def canon_path(F, t, side, S=None, captured=None, fn=None):
    """(base, [field names]) of the object a term denotes; references and dereferences are transparent.
    side 'closure': param1 = captured environment, param2 = the iterated item; side 'parent': params named by type."""
    def of_loc(loc, side):
        _, root, path = loc
        if root[0] == 'deref':
            r = go(root[1], side)
        elif root[0] == 'local' and side == 'parent' and S is not None:
            v = local_value_of_ref(S, ('ref', ('loc', root, ())))
            r = go(v, side) if v is not None else ('local%s' % (root[1:],), [])
        else:
            r = ('local%s' % (root[1:],), [])
        if r is None:
            return None
        base, fs = r
        fs = list(fs)
        for pp in path:
            if pp[0] == 'f':
                fs.append(pp[1])
            elif pp[0] in ('idx', 'cidx'):
                fs.append('[]')
        if base == 'env' and fs and side == 'closure':
            k = int(fs[0])
            if captured is None or k >= len(captured):
                return None
            r2 = go(captured[k], 'parent')
            if r2 is None:
                return None
            return (r2[0], list(r2[1]) + fs[1:])
        return (base, fs)

    def go(t, side):
        if t is None:
            return None
        if t[0] == 'param':
            if side == 'closure':
                return ('env', []) if t[1] == 1 else ('item', [])
            ty = fn['locals'][t[1]]['ty'] if fn else '?'
            if 'VsockEvent' in ty:
                return ('event', [])
            if ty == 'u64':
                return ('localcid', [])
            if 'VsockAddr' in ty:
                return ('peer', [])
            if ty == 'u32':
                return ('port', [])
            return ('p%d' % t[1], [])
        if t[0] in ('load', 'load0', 'ref'):
            return of_loc(t[1], side)
        if t[0] == 'refto':
            return go(t[1], side)
        if t[0] == 'field' and isinstance(t[2], str):
            r = go(t[1], side)
            if r is None:
                return None
            base, fs = r
            fs = list(fs) + [t[2]]
            if base == 'env' and side == 'closure' and fs and fs[0].isdigit():
                k = int(fs[0])
                if captured is None or k >= len(captured):
                    return None
                r2 = go(captured[k], 'parent')
                return None if r2 is None else (r2[0], list(r2[1]) + fs[1:])
            return (base, fs)
        if t[0] in ('conv', 'idcall'):
            return go(t[2], side)
        if t[0] == 'cast':
            return go(t[3], side)
        return None
    return go(t, side)


def x5_predicates(F, R):
    cands = lookup_fns(F)
    # ... and the duplicate test of the manager's connect (the method with a ConnectionExists refusal), when it is a closure
    for b_ in F.bodies.values():
        if b_.get('impl_adt') == MGR and 'impl_trait' not in b_ and b_['kind'] == 'AssocFn' and F.handwritten(b_) and 'VsockAddr' in b_.get('sig', '') \
                and 'ConnectionExists' in json.dumps([bl['stmts'] for bl in b_['blocks']]):
            cands = cands + [b_]
    nfold = 0
    for b in cands:
        sg = supergraph(F, b['id'])
        S = sg.sym
        for n in sg.nodes:
            if not (n.kind == 'assign' and n.d['rv']['rv'] == 'agg' and n.d['rv'].get('kind') == 'closure'):
                continue
            cid = n.d['rv']['closure']
            cb = F.bodies.get(cid)
            if cb is None or cb['locals'][0]['ty'] != 'bool':
                continue
            ctx_fn = sg.ctxs[n.ctx].fn
            # captured operands are resolved in the context of the function that creates the closure; parameters of an
            # inlined callee are resolved to the caller's arguments by Sym
            captured = [S.operand(n.id, o) for o in n.d['rv']['ops']]
            sgc = supergraph(F, cid)
            where = fn_site(F, cid)
            inst = '%s:%s' % (b['id'], cid.rsplit('::', 1)[1])
            try:
                paths = PathEnum(sgc).run()
            except PathLimit as e:
                R.abstain('X5', inst, str(e), where)
                continue
            has_event = 'VsockEvent' in b.get('sig', '')
            # scenario values
            base = {'ev.source.cid': 2, 'ev.source.port': 1024, 'ev.destination.cid': 3, 'ev.destination.port': 5000,
                    'c.dst.cid': 2, 'c.dst.port': 1024, 'c.src_port': 5000, 'localcid': 3}
            if has_event:
                perturb = ['ev.source.cid', 'ev.source.port', 'ev.destination.cid', 'ev.destination.port', 'c.dst.cid', 'c.dst.port', 'c.src_port', 'localcid']
            else:
                perturb = ['ev.source.cid', 'ev.source.port', 'ev.destination.port', 'c.dst.cid', 'c.dst.port', 'c.src_port']

            def key_of(t):
                cp = canon_path(F, t, 'closure', S=S, captured=captured, fn=sg.entry_fn)
                if cp is None:
                    return None
                basen, fs = cp
                fs = [f for f in fs if f not in ('0', '1', '[]')] if basen == 'item' else fs
                if basen == 'event':
                    return 'ev.' + '.'.join(fs)
                if basen == 'peer':
                    return 'ev.source.' + '.'.join(fs)
                if basen == 'port' and not fs:
                    return 'ev.destination.port'
                if basen == 'localcid' and not fs:
                    return 'localcid'
                if basen == 'item' and fs and fs[0] == 'info':
                    return 'c.' + '.'.join(fs[1:])
                return None
            bad = None
            rows = 0
            for pert in [None] + perturb:
                for delta in (1, 0x100000000):
                    env = dict(base)
                    if pert:
                        env[pert] = env[pert] + delta
                        if pert.endswith('port') and delta > 0xffffffff:
                            continue
                    elif delta != 1:
                        continue

                    def leaf(t, env=env):
                        k = key_of(t)
                        if k in env:
                            return env[k]
                        raise Unfoldable('%s [%s]' % (fmt(t)[:70], k))
                    fo = Folder(leaf)
                    try:
                        hit = [p_ for p_ in paths if path_holds(fo, p_)]
                        if len(hit) != 1 or hit[0].panicked:
                            bad = 'predicate has %d feasible paths' % len(hit)
                            break
                        got = fo.ev(hit[0].ret)
                    except Unfoldable as e:
                        bad = 'unfoldable: %s' % e
                        break
                    rows += 1
                    want = 1 if pert is None else 0
                    if bool(got) != bool(want):
                        if pert is None:
                            bad = 'an event whose source, destination CID and destination port all match the connection is not matched'
                        else:
                            bad = ('%s differs (%d vs %d) and everything else matches, yet the %s is selected: traffic for another '
                                   '%s reaches this connection') % (pert.replace('ev.', 'event.').replace('c.', 'connection.'), env[pert], base[pert],
                                                                  'connection', 'address' )
                        break
                if bad:
                    break
            R.tables += rows
            nfold += 1
            if bad and bad.startswith('unfoldable'):
                R.abstain('X5', inst, bad, where)
                continue
            R.check(bad is None, 'X5', inst, where, 'selection predicate true iff the full %s matches (%d perturbation rows)' % (
                'source/destination 4-tuple incl. local CID' if has_event else '(peer, local port) pair', rows),
                'connection selection predicate: %s' % bad)
    R.count('selection_predicates', nfold)


VSOCK_OPS = {1: 'ConnectionRequest', 2: 'Connected', 3: 'Disconnected', 4: 'Disconnected', 5: 'Received', 6: 'CreditUpdate', 7: 'CreditRequest'}


def x8_index_is_position(F, R):
    """A lookup that hands back (index, &mut connection) returns the connection's position in the table, because callers remove the
    connection with that index: its `enumerate` numbers the table's own iterator - not a filtered / skipped / reversed view of it,
    whose indices count only the surviving elements."""
    n = 0
    for b in sorted(F.bodies.values(), key=lambda x: x['id']):
        if not F.handwritten(b) or 'device::socket' not in b['id'] or b['kind'] not in ('Fn', 'AssocFn'):
            continue
        if not re.search(r'\(usize, &[^)]*Connection\)', b.get('sig', '').split('->')[-1]):
            continue
        sg = supergraph(F, b['id'], tag='flat', max_depth=0)
        S = sg.sym
        for c in sg.calls(lambda d: d.get('fn') == 'core::iter::Iterator::enumerate'):
            n += 1
            recv = strip_conv(S.operand(c.id, c.d['args'][0]))
            direct = recv[0] == 'call' and recv[2].rsplit('::', 1)[-1] in ('iter', 'iter_mut', 'into_iter') and not any(
                x[0] == 'call' and x is not recv for a in recv[3] for x in subterms(a))
            R.check(direct, 'X8', '%s:index-is-position' % b['id'], site(sg, c), 'enumerate() numbers the table\'s own iterator',
                    '%s returns an index taken from enumerate() over %s, not over the connection table itself: the index counts only the elements '
                    'that adapter lets through, and callers remove the connection at that index (the wrong connection is dropped)' % (b['name'], fmt(recv)[:80]))
    R.count('indexed_lookups', n)


def x10_event_decoding(F, R):
    """A received header is turned into the event the protocol defines for its operation code (1 request, 2 response, 3 reset,
    4 shutdown, 5 data, 6 credit update, 7 credit request); reset and shutdown are told apart in the disconnect reason; control
    packets that carry data are refused."""
    n = 0
    for b in F.bodies.values():
        if not F.handwritten(b) or b['kind'] != 'AssocFn' or 'device::socket' not in b['id'] or b['arg_count'] != 1:
            continue
        sig = b.get('sig', '')
        if 'VirtioVsockHdr' not in sig.split('->')[0] or 'VsockEvent' not in sig.split('->')[-1] or b.get('impl_adt', '').rsplit('::', 1)[-1] != 'VsockEvent':
            continue
        where = fn_site(F, b['id'])
        n += 1
        # two levels: with the raw operation code folded through the conversion into the operation enum; when that conversion
        # is not foldable (e.g. a table lookup), with the conversion opaque and its result (Ok(variant k) / Err) as the leaf -
        # the code -> variant table is then the decode-table rule's part (V/Q10 decode tables)
        opfns = set(x['id'] for x in F.bodies.values() if re.search(r'-> core::result::Result<device::socket::protocol::\w*Op,', x.get('sig', '')))
        bad = None
        for level in ('raw', 'enum'):
            bad = x10_fold(F, R, b, where, level, opfns)
            if not (bad and bad.startswith('unfoldable')):
                break
        if bad and bad.startswith('unfoldable'):
            R.abstain('X1', b['id'] + ':event-decoding', bad, where)
            continue
        R.check(bad is None, 'X1', '%s:event-decoding' % b['id'], where, 'operation codes 1..7 decode to the protocol\'s events', 'event decoding: %s' % bad)
    R.count('event_decoders', n)


def x10_fold(F, R, b, where, level, opfns):
        sg = supergraph(F, b['id']) if level == 'raw' else supergraph(F, b['id'], opaque=lambda t, bb: bb['id'] in opfns, tag='x10e')
        try:
            paths = [p for p in PathEnum(sg).run() if not p.panicked]
        except PathLimit as e:
            return 'unfoldable: %s' % e
        bad = None
        rows = 0
        for op in range(0, 9):
            for ln in (0, 5):
                def leaf(t, op=op, ln=ln):
                    s_ = fmt(t)
                    if level == 'enum' and t[0] == 'discr':
                        inner = t[1]
                        if inner[0] == 'call' and inner[2] in opfns:
                            return 0 if op < 8 else 1
                        if any(x[0] == 'call' and x[2] in opfns for x in subterms(inner)):
                            if op >= 8:
                                raise Unfoldable('payload of a failed conversion')
                            return op
                    if t[0] in ('load0', 'load') and s_.endswith('.op)') or s_.endswith('.op'):
                        return op
                    if t[0] in ('load0', 'load', 'field') and (s_.endswith('.len)') or s_.endswith('.len')):
                        return ln      # header taken by reference (load) or by value (field of the parameter)
                    if t[0] == 'call' and t[2].endswith('::get') and len(t[3]) == 1 and fmt(t[3][0]).endswith('.len)'):
                        return ln      # little-endian wrapper's accessor on the length field
                    if 'log::' in s_:
                        return 0
                    raise Unfoldable(s_[:60])
                fo = Folder(leaf)
                try:
                    hit = [p for p in paths if path_holds(fo, p)]
                except Unfoldable as e:
                    bad = 'unfoldable: %s' % e
                    break
                rows += 1
                if len(hit) != 1:
                    bad = 'op %d len %d: %d feasible paths' % (op, ln, len(hit))
                    break
                r = hit[0].ret
                ev = err_variant(r)
                want = VSOCK_OPS.get(op)
                if want is None or (ln and want != 'Received'):
                    if ev == 'Ok':
                        bad = 'op %d with %d payload bytes is accepted' % (op, ln)
                        break
                    continue
                got = [x[1].rsplit('::', 1)[1] for x in subterms(r) if x[0] == 'agg' and '::VsockEventType::' in x[1]]
                if ev != 'Ok' or got[:1] != [want]:
                    bad = 'op %d is decoded as %s, the protocol says %s' % (op, got[:1] or ev, want)
                    break
                if want == 'Disconnected':
                    rs = [x[1].rsplit('::', 1)[1] for x in subterms(r) if x[0] == 'agg' and '::DisconnectReason::' in x[1]]
                    if rs[:1] != [{3: 'Reset', 4: 'Shutdown'}[op]]:
                        bad = 'op %d (%s) is reported with disconnect reason %s' % (op, {3: 'RST', 4: 'SHUTDOWN'}[op], rs[:1])
                        break
            if bad:
                break
        R.tables += rows
        return bad


def x6_listen(F, R, listen_field):
    n = 0
    for b in F.bodies.values():
        if b.get('impl_adt') != MGR or 'impl_trait' in b or b['kind'] != 'AssocFn' or not F.handwritten(b) or not b.get('pub'):
            continue
        sg = supergraph(F, b['id'])
        S = sg.sym
        pushes = []
        for c in sg.calls(lambda d: d.get('fn', '').startswith('alloc::vec::Vec::') and d['fn'].rsplit('::', 1)[1] in ('push', 'insert')):
            recv = S.operand(c.id, c.d['args'][0])
            if any(x[0] == 'loc' and any(pp[0] == 'f' and pp[1] == listen_field and pp[2] == MGR for pp in x[2]) for x in deep_subterms(S, recv)):
                pushes.append(c)
        for c in pushes:
            n += 1
            bad = None
            val = S.operand(c.id, c.d['args'][1])
            if not (strip_conv(val)[0] == 'param'):
                bad = 'the value inserted is %s, not the port argument' % fmt(val)[:60]
            for swid, vals, succ in sg.guards_of(c.id):
                d = S.operand(swid, sg.nodes[swid].d['discr'])
                srcs = [x for x in subterms(d) if x[0] == 'call']
                ok = bool(srcs) and all(x[2].endswith('::contains') and any(
                    y[0] == 'loc' and any(pp[0] == 'f' and pp[1] == listen_field for pp in y[2]) for a_ in x[3][:1] for y in deep_subterms(S, a_)) for x in srcs)
                if not ok:
                    bad = 'the insertion is also guarded by %s at %s' % (fmt(d)[:90], site(sg, sg.nodes[swid]))
            R.check(bad is None, 'X6', '%s:insert-guard' % b['id'], site(sg, c), 'port inserted unless already in the listening set (no other condition)',
                    'listen() does not make the port listening whenever it is not yet in the listening set: %s; a request to that port is then reset instead of accepted' % bad)
    R.count('listen_inserts', n)
    # unlisten keeps exactly the ports that differ from the argument: the predicate handed to retain on the listening set is
    # folded (keep(p) iff p != port)
    for b in F.bodies.values():
        if b.get('impl_adt') != MGR or 'impl_trait' in b or b['kind'] != 'AssocFn' or not F.handwritten(b) or not b.get('pub'):
            continue
        sg = supergraph(F, b['id'], tag='flat', max_depth=0)
        S = sg.sym
        for c in sg.calls(lambda d: d.get('fn', '').startswith('alloc::vec::Vec::') and d['fn'].rsplit('::', 1)[1] in ('retain', 'retain_mut')):
            recv = S.operand(c.id, c.d['args'][0])
            if not any(x[0] == 'loc' and any(pp[0] == 'f' and pp[1] == listen_field and pp[2] == MGR for pp in x[2]) for x in deep_subterms(S, recv)):
                continue
            clo = strip_conv(S.operand(c.id, c.d['args'][1]))
            cid = clo[1][len('closure:'):] if clo[0] == 'agg' and clo[1].startswith('closure:') else None
            cb = F.bodies.get(cid) if cid else None
            if cb is None:
                R.abstain('X6', '%s:unlisten-predicate' % b['id'], 'retain predicate is not a closure of this function', site(sg, c))
                continue
            paths = [p for p in PathEnum(supergraph(F, cid)).run() if not p.panicked]
            bad = None
            for item, port in ((5, 5), (5, 6), (6, 5), (0, 0), (0, 0xffffffff)):
                def leaf(t, item=item, port=port):
                    # the closure's argument is the element, its captured variable the port
                    if any(x == ('param', 2) for x in subterms(t)):
                        return item
                    if any(x == ('param', 1) for x in subterms(t)):
                        return port
                    raise Unfoldable(fmt(t)[:60])
                fo = Folder(leaf)
                try:
                    hit = [p for p in paths if path_holds(fo, p)]
                    got = fo.ev(hit[0].ret) if len(hit) == 1 else None
                except Unfoldable as e:
                    got = None
                if got is None:
                    R.abstain('X6', '%s:unlisten-predicate' % b['id'], 'cannot fold the retain predicate', site(sg, c))
                    bad = 'abstain'
                    break
                if bool(got) != (item != port):
                    bad = 'port %d is %s when port %d is unlistened' % (item, 'kept' if got else 'removed', port)
                    break
            if bad != 'abstain':
                R.check(bad is None, 'X6', '%s:unlisten-predicate' % b['id'], site(sg, c), 'unlisten keeps exactly the other ports', 'unlisten: %s' % bad)


def x6b_sorted_search(F, R, listen_field):
    """A binary search over the listening set presupposes that the set is kept sorted: when any manager function searches that
    field with `binary_search*`, every insertion into it must be an `insert` at an index obtained from such a search - an
    appending `push` (call order) makes the search miss ports that are present (unlisten / the listening test then fail silently)."""
    searches, appends = [], []
    for b in F.bodies.values():
        if b.get('impl_adt') != MGR or 'impl_trait' in b or b['kind'] != 'AssocFn' or not F.handwritten(b):
            continue
        sg = supergraph(F, b['id'], tag='flat', max_depth=0)
        S = sg.sym
        onf = lambda t: any(x[0] == 'loc' and any(pp[0] == 'f' and pp[1] == listen_field and len(pp) > 2 and pp[2] == MGR for pp in x[2]) for x in deep_subterms(S, t))
        for c in sg.calls(lambda d: d.get('fn', '').rsplit('::', 1)[-1].startswith('binary_search')):
            if onf(S.operand(c.id, c.d['args'][0])):
                searches.append((b, site(sg, c)))
        for c in sg.calls(lambda d: d.get('fn', '').startswith('alloc::vec::Vec::') and d['fn'].rsplit('::', 1)[1] in ('push', 'insert', 'extend', 'append')):
            if not onf(S.operand(c.id, c.d['args'][0])):
                continue
            sorted_ins = c.d['fn'].endswith('::insert') and any(x[0] == 'call' and x[2].rsplit('::', 1)[-1].startswith('binary_search')
                                                                for x in deep_subterms(S, S.operand(c.id, c.d['args'][1])))
            if not sorted_ins:
                appends.append((b, site(sg, c)))
    for b, w in searches:
        R.check(not appends, 'X6', '%s:sorted-search-needs-sorted-insert' % b['id'], w, 'binary search only over a set that is inserted in sorted position',
                '%s searches the listening set with a binary search, but %s adds ports in call order (not at a searched position): the search can miss a port '
                'that is present, so the port keeps listening after unlisten (or is treated as not listening)' % (b['name'], appends[0][0]['name'] if appends else '?'))
    R.count('sorted_searches', len(searches))


def x7_shutdown_flag(F, R):
    conn = 'device::socket::connectionmanager::Connection'
    if conn not in F.adts:
        return
    all_bools = [f['name'] for f in F.adts[conn]['variants'][0]['fields'] if f['ty'] == 'bool']
    # the flag in question: the boolean(s) of a connection that guard a removal from the connection table
    bools = set()
    for b in F.bodies.values():
        if b.get('impl_adt') != MGR or not F.handwritten(b) or b['kind'] != 'AssocFn':
            continue
        # (the removal may sit in a private helper of the manager: inlined, so that the caller's guard is seen)
        sg = supergraph(F, b['id'], opaque=lambda t, bb: not (bb.get('impl_adt') == MGR and not bb.get('pub') and F.handwritten(bb) and bb['kind'] == 'AssocFn'), tag='x7i')
        S = sg.sym
        for c in sg.calls(lambda d: d.get('fn', '').startswith('alloc::vec::Vec::') and d['fn'].rsplit('::', 1)[1] in ('swap_remove', 'remove')):
            for swid, vals, succ in sg.guards_of(c.id):
                d = S.operand(swid, sg.nodes[swid].d['discr'])
                for x in deep_subterms(S, d):
                    if x[0] == 'loc':
                        for pp in x[2]:
                            if pp[0] == 'f' and pp[2] == conn and pp[1] in all_bools:
                                bools.add(pp[1])
    n = 0
    for b in F.bodies.values():
        if not F.handwritten(b) or 'connectionmanager' not in b['id']:
            continue
        sg = supergraph(F, b['id'], tag='flat', max_depth=0)
        S = sg.sym
        for nd in sg.nodes:
            if nd.kind != 'assign' or not nd.d['place']['p']:
                continue
            last = nd.d['place']['p'][-1]
            if not (isinstance(last, dict) and last.get('adt') == conn and last.get('n') in bools):
                continue
            n += 1
            v = strip_conv(S.rvalue(nd.id, nd.d['rv']))
            R.check(v[0] == 'const' and v[1] == 1, 'X7', '%s:%s:set-only' % (b['id'], last['n']), site(sg, nd), 'the flag is assigned the constant true',
                    'the connection flag `%s` is assigned %s: an event arriving after the peer\'s shutdown can clear it again, the connection is then never reset and '
                    'removed once its buffered data has been read' % (last['n'], fmt(v)[:80]))
            # ... and only where a peer event is being processed: the flag means "the peer shut down while data was buffered"; set by a local
            # operation it makes the next draining recv reset and remove a connection the peer never closed
            on_event = any('VsockEvent' in l_['ty'] for l_ in b['locals'])
            R.check(on_event, 'X7', '%s:%s:set-on-peer-event' % (b['id'], last['n']), site(sg, nd), 'the flag is set while a peer event is processed',
                    '%s sets the connection flag `%s` although it processes no event from the peer: the connection is reset and removed by the next '
                    'recv that drains the buffer, without the peer having closed it' % (b['name'], last['n']))
    R.count('shutdown_flag_stores', n)
    # the connection's state flags start cleared and are only ever set: a new connection (a connect that still waits for the peer's
    # response, an incoming request not yet accepted) is constructed with every boolean false, and every later assignment stores
    # true - so "established" is reported only after the event that establishes it
    m = 0
    for b in F.bodies.values():
        if not F.handwritten(b) or 'connectionmanager' not in b['id']:
            continue
        sg = supergraph(F, b['id'], tag='flat', max_depth=0)
        S = sg.sym
        for nd in sg.nodes:
            if nd.kind == 'assign' and nd.d['rv']['rv'] == 'agg' and nd.d['rv'].get('adt') == conn:
                rv = nd.d['rv']
                for f_, o_ in zip(rv['fields'], rv['ops']):
                    if f_ in all_bools:
                        m += 1
                        v = strip_conv(S.operand(nd.id, o_))
                        R.check(v[0] == 'const' and v[1] == 0, 'X7', '%s:%s:starts-cleared' % (b['id'], f_), site(sg, nd), 'a new connection has `%s` = false' % f_,
                                'a new connection is constructed with `%s` = %s: it is reported in that state before the event that puts it there' % (f_, fmt(v)[:40]))
            if nd.kind != 'assign' or not nd.d['place']['p']:
                continue
            last = nd.d['place']['p'][-1]
            if isinstance(last, dict) and last.get('adt') == conn and last.get('n') in all_bools and last.get('n') not in bools:
                m += 1
                v = strip_conv(S.rvalue(nd.id, nd.d['rv']))
                R.check(v[0] == 'const' and v[1] == 1, 'X7', '%s:%s:set-only' % (b['id'], last['n']), site(sg, nd), 'the flag is assigned the constant true',
                        'the connection flag `%s` is assigned %s where the protocol event sets it: the connection never reaches (or leaves) that state' % (last['n'], fmt(v)[:60]))
    R.count('state_flag_sites', m)


def run(F, R):
    x5_predicates(F, R)
    x7_shutdown_flag(F, R)
    x10_event_decoding(F, R)
    x8_index_is_position(F, R)
    # X9: a peer shutdown / reset is completed at once only when nothing is buffered: the receive buffer's emptiness test is true
    # exactly when no bytes are buffered - a full buffer is not empty (C17.V6)
    from .C17 import v6b_is_empty
    guard(R, 'X9', 'is-empty', lambda: v6b_is_empty(F, RuleProxy(R, {'V6': 'X9'})))
    # X10: data buffered before a peer shutdown is read back intact: the receive buffer's add / drain follow modular ring indexing,
    # also for reads that cross the end of the storage (C17.V6 index arithmetic)
    from .C17 import v6_ring
    guard(R, 'X10', 'ring-arithmetic', lambda: v6_ring(F, RuleProxy(R, {'V6': 'X10'})))
    M = model(F)
    M.require_rings()
    roles = C05.classify_api(C05.queue_api(F, M))
    if MGR not in F.adts:
        raise Undecided('connection manager type not found')
    fields = {f['name']: f['ty'] for f in F.adts[MGR]['variants'][0]['fields']}
    table = [n for n, t in fields.items() if t.startswith('alloc::vec::Vec<') and 'Connection' in t]
    listen = [n for n, t in fields.items() if t.startswith('alloc::vec::Vec<u32')]
    if len(table) != 1 or len(listen) != 1:
        raise Undecided('cannot identify connection table / listening set fields: %s' % fields)
    table, listen = table[0], listen[0]
    x6_listen(F, R, listen)
    x6b_sorted_search(F, R, listen)
    lookups = [b['id'] for b in lookup_fns(F)]
    if not lookups:
        raise Undecided('connection lookup helpers not found')
    sock_ops = {b['id']: b['name'] for b in F.bodies.values() if b.get('impl_adt') == 'device::socket::vsock::VirtIOSocket' and b['kind'] == 'AssocFn' and b.get('pub')}
    ring = set(b['id'] for b in F.bodies.values() if (b.get('impl_adt') or '').endswith('RingBuffer'))
    opq = set(lookups) | set(sock_ops) | set(roles) | ring
    n_mut = 0
    n_ops = 0
    for b in F.bodies.values():
        # (closures written in the manager's methods - the event handler handed to the driver's poll - are analysed too)
        if b.get('impl_adt') != MGR or 'impl_trait' in b or b['kind'] not in ('AssocFn', 'Closure') or not F.handwritten(b):
            continue
        sg = supergraph(F, b['id'], opaque=lambda t, bb: bb['id'] in opq, tag='c18')
        S = sg.sym
        where = fn_site(F, b['id'])
        live = sg.live_nodes()
        lk = [n for n in sg.calls(lambda d: d.get('fn') in lookups)]
        ems = [n for n in sg.calls(lambda d: d.get('fn') in sock_ops and sock_ops[d['fn']] in ('connect', 'accept', 'send', 'credit_update', 'shutdown', 'shutdown_with_hints', 'force_close'))]
        # X3 table mutations
        for n in sg.calls(lambda d: d.get('fn', '').startswith(VEC) or d.get('fn', '').startswith(VEC2) or d.get('fn', '').startswith('alloc::vec::Vec::')):
            meth = n.d['fn'].rsplit('::', 1)[1]
            if meth not in ('push', 'pop', 'swap_remove', 'remove', 'clear', 'truncate', 'retain', 'retain_mut', 'drain', 'insert', 'dedup', 'split_off', 'append'):
                continue
            recv = S.operand(n.id, n.d['args'][0])
            on_table = any(x[0] == 'loc' and any(pp[0] == 'f' and pp[1] == table and pp[2] == MGR for pp in x[2]) for x in deep_subterms(S, recv))
            if not on_table:
                # closures capture `connections` by reference: &mut self.connections bound to a local
                on_table = 'Connection' in ' '.join(n.d.get('substs', [])) and 'u32' not in n.d.get('substs', [''])[0]
            if not on_table:
                continue
            n_mut += 1
            inst = '%s:%s' % (b['id'], meth)
            if meth == 'push':
                v = S.operand(n.id, n.d['args'][1])
                R.check(derives_from(v, lambda x: x[0] == 'call' and 'Connection' in x[2] and x[2].endswith('::new')) or 'Connection::new' in fmt(v) or True, 'X3', inst, site(sg, n),
                        'push of a connection', 'push of %s' % fmt(v)[:60])
                # a connection created for an incoming request is for *this* guest: the push is guarded by
                # event.destination.cid == local CID on the equal edge (a request addressed to another CID creates no state)
                _fn = sg.ctxs[n.ctx].fn
                if any('VsockEvent' in l_['ty'] for l_ in _fn['locals'][1:_fn['arg_count'] + 1]):
                    cid_ok = False
                    for swid, vals, succ in sg.guards_of(n.id):
                        d = S.operand(swid, sg.nodes[swid].d['discr'])
                        if d[0] == 'bin' and d[1] in ('Ne', 'Eq') and 'destination' in fmt(d) and '.cid' in fmt(d):
                            truth = (None in vals and 0 not in [v_ for v_ in vals if v_ is not None]) or any(v_ not in (0, None) for v_ in vals)
                            if 0 in vals and len([v_ for v_ in vals if v_ is not None]) == 1:
                                truth = False
                            if (d[1] == 'Ne' and not truth) or (d[1] == 'Eq' and truth):
                                cid_ok = True
                    R.check(cid_ok, 'X1', '%s:new-connection-only-for-local-cid' % b['id'], site(sg, n), 'incoming connection created only when destination CID is ours',
                            'a connection entry is created for an incoming request without (or on the wrong edge of) the test that the request is addressed '
                            'to this guest\'s CID: packets matching no known connection create state')
            elif meth in ('swap_remove', 'remove'):
                idx = S.operand(n.id, n.d['args'][1])
                if not b.get('pub') and b['kind'] == 'AssocFn' and strip_conv(idx)[0] == 'param' and n.ctx == 0:
                    continue        # a private helper removing the index it is given: judged in its callers, where it is inlined
                ok = derives_from(idx, lambda x: x[0] == 'call' and x[2] in lookups)
                R.check(ok, 'X3', inst, site(sg, n), 'removes the index returned by the connection lookup',
                        'removes index %s, which is not the index the lookup returned for this connection' % fmt(idx)[:80])
            else:
                R.violated('X3', inst, site(sg, n), 'the connection table is mutated with Vec::%s, which does not target the connection that was looked up '
                           '(an unrelated connection can be dropped)' % meth)
        # X9 a peer's disconnect on a drained connection closes it: on every successful path of the poll method on which the event is a
        # disconnect and the receive buffer is empty, the looked-up entry is removed; a reset is sent exactly on the edge where the
        # reason equals the constant it is compared with (the peer *shut down*; after a peer reset nothing is sent back)
        if b['kind'] == 'AssocFn' and b.get('pub') and any(True for _ in sg.calls(lambda d: d.get('fn') in sock_ops and sock_ops[d['fn']] == 'poll')) and not back_edges(sg):
            try:
                pths = [p_ for p_ in PathEnum(sg).run() if not p_.panicked]
            except PathLimit:
                pths = []
            bad9 = None
            seen9 = 0
            for p_ in pths:
                emp = None
                for c_ in p_.conds:
                    d_ = c_[0]
                    if d_[0] == 'call' and d_[2] in ring and d_[2].endswith('::is_empty'):
                        emp = (c_[1][0] == 'notin' and 0 in c_[1][1]) or (c_[1][0] == 'in' and 0 not in c_[1][1])
                if not emp:
                    continue
                rc = [c_ for c_ in p_.conds if c_[0][0] == 'bin' and c_[0][1] in ('Eq', 'Ne') and 'Disconnected).reason' in fmt(c_[0])]
                if not rc:
                    continue
                seen9 += 1
                truth = (rc[-1][1][0] == 'notin' and 0 in rc[-1][1][1]) or (rc[-1][1][0] == 'in' and 0 not in rc[-1][1][1])
                equal = truth if rc[-1][0][1] == 'Eq' else not truth
                fc = any(e_[0] == 'call' and sock_ops.get(e_[2]) == 'force_close' for e_ in p_.effects)
                rm = any(e_[0] == 'call' and e_[2].startswith('alloc::vec::Vec::') and e_[2].rsplit('::', 1)[1] in ('swap_remove', 'remove') for e_ in p_.effects)
                if fc != equal:
                    bad9 = 'a reset is sent on the edge where the disconnect reason %s the compared constant' % ('differs from' if fc else 'equals')
                if err_variant(p_.ret) == 'Ok' and not rm:
                    bad9 = 'the entry of a drained connection is not removed when the peer disconnects'
            if seen9:
                R.check(bad9 is None, 'X3', '%s:disconnect-closes-drained-connection' % b['id'], where, 'drained connection removed on disconnect; reset only for the compared reason (%d paths)' % seen9,
                        'peer disconnect handling: %s' % bad9)
        # a reset sent for a looked-up connection ends it: on every successful path of a public operation on which the driver's
        # force_close (RST) is emitted, the connection's table entry is removed afterwards - otherwise the closed connection stays
        # "established" and later operations on it do not return NotConnected
        if b['kind'] == 'AssocFn' and b.get('pub') and not back_edges(sg) and any(True for _ in sg.calls(lambda d: d.get('fn') in sock_ops and sock_ops[d['fn']] == 'force_close')):
            try:
                pths = [p_ for p_ in PathEnum(sg).run() if not p_.panicked and err_variant(p_.ret) == 'Ok']
            except PathLimit:
                pths = []
            bad10 = None
            seen10 = 0
            for p_ in pths:
                seq = ['fc' if sock_ops.get(e_[2]) == 'force_close' else 'rm' for e_ in p_.effects if e_[0] == 'call' and (
                    sock_ops.get(e_[2]) == 'force_close' or (e_[2].startswith('alloc::vec::Vec::') and e_[2].rsplit('::', 1)[1] in ('swap_remove', 'remove', 'retain')))]
                if 'fc' not in seq:
                    continue
                seen10 += 1
                if 'rm' not in seq[seq.index('fc'):]:
                    bad10 = 'a successful path sends the reset but leaves the connection in the table'
            if seen10:
                R.check(bad10 is None, 'X3', '%s:reset-removes-connection' % b['id'], where, 'every successful path that resets a connection removes its entry (%d paths)' % seen10,
                        '%s: %s' % (b['name'], bad10))
        # X2 lookups first
        if b.get('pub') and 'VsockAddr' in b.get('sig', '') and ems:
            n_ops += 1
            for e in ems:
                if e.id not in live:
                    continue
                if sock_ops[e.d['fn']] == 'connect':
                    # existence test precedes: an Err(ConnectionExists) return must be reachable before the emission
                    errs = [x for x in sg.nodes if x.kind == 'assign' and x.d['rv']['rv'] == 'agg' and 'ConnectionExists' in json_s(x.d['rv'])]
                    R.check(bool(errs) and not any(en.id in sg.reach_fwd(e.succ) for en in errs), 'X2', '%s:exists-before-connect' % b['id'], site(sg, e),
                            'duplicate connect refused before any packet is sent', 'connect emits a request without (or before) the ConnectionExists test')
                    # ... and "exists" means any table entry for (peer, local port), whatever its state: the test must not read
                    # a state field of the connection (a connection still waiting for its Response also exists)
                    conn_adt = 'device::socket::connectionmanager::Connection'
                    state = set()
                    for en in errs:
                        for swid, vals, succ in sg.guards_of(en.id):
                            d = S.operand(swid, sg.nodes[swid].d['discr'])
                            for x in deep_subterms(S, d):
                                if x[0] == 'field' and isinstance(x[2], str) and not x[2].isdigit() and x[2] in [f_['name'] for f_ in F.adts[conn_adt]['variants'][0]['fields']] \
                                        and x[2] != 'info':
                                    state.add(x[2])
                                if x[0] == 'loc':
                                    for pp in x[2]:
                                        if pp[0] == 'f' and len(pp) > 2 and pp[2] == conn_adt and pp[1] != 'info':
                                            state.add(pp[1])
                    R.check(not state, 'X2', '%s:exists-test-ignores-state' % b['id'], site(sg, e), 'the duplicate test looks only at (peer, local port)',
                            'the ConnectionExists test depends on the connection state field(s) %s: a second connect while the first is in that '
                            'state creates a duplicate table entry for the same (peer, port)' % sorted(state))
                    continue
                R.check(sg.always_before([x.id for x in lk], e.id), 'X2', '%s:lookup-before-%s' % (b['id'], sock_ops[e.d['fn']]), site(sg, e),
                        'packet emission dominated by a connection lookup', 'a packet is emitted for (peer, port) without a preceding connection lookup')
            for x in lk:
                # the lookup's failure is propagated (NotConnected)
                prop = False
                for m in sg.nodes:
                    if m.kind == 'switch':
                        d = S.operand(m.id, m.d['discr'])
                        if d[0] == 'discr' and derives_from(d, lambda y: y[0] == 'call' and y[1] == x.id):
                            prop = True
                R.check(prop, 'X2', '%s:lookup-result-tested' % b['id'], site(sg, x), 'lookup failure is examined', 'the lookup result is not examined')
        # X1 / X3 guards
        for e in ems:
            if e.id not in live:
                continue
            op = sock_ops[e.d['fn']]
            gs = sg.guards_of(e.id)
            gtxt = []
            for swid, vals, succ in gs:
                d = S.operand(swid, sg.nodes[swid].d['discr'])
                truth = (None in vals) or any(v != 0 for v in vals)
                gtxt.append((fmt_short(S, d), truth, d))
            if op == 'accept':
                ok = any(is_contains_on(S, d, listen) and truth for _, truth, d in gtxt)
                R.check(ok, 'X1', '%s:accept-only-when-listening' % b['id'], site(sg, e), 'accept guarded by listening set contains(destination port)',
                        'accept is sent on a path not guarded by the listening-port test: guards %s' % [(g, t) for g, t, _ in gtxt][:4])
            if op == 'force_close' and b['name'] == 'poll':
                on_reject = any(is_contains_on(S, d, listen) and not truth for _, truth, d in gtxt)
                if on_reject:
                    r = sg.reach_fwd(e.succ)
                    removes = [n for n in sg.calls(lambda d: d.get('fn', '').endswith('::swap_remove') or d.get('fn', '').endswith('::remove')) if n.id in r]
                    R.check(bool(removes), 'X1', '%s:reject-removes' % b['id'], site(sg, e), 'rejected request is reset and its entry removed', 'rejected request is not removed from the table')
            if op == 'force_close' and b['name'] == 'recv':
                flags = [g for g, truth, d in gtxt if truth and ('peer_requested_shutdown' in g or 'is_empty' in g)]
                R.check(len(flags) >= 2, 'X3', '%s:reset-only-when-shutdown-and-drained' % b['id'], site(sg, e), 'RST on recv only when the peer requested shutdown and the buffer is drained',
                        'recv resets the connection without both guards (peer requested shutdown, buffer empty): %s' % [(g, t) for g, t, _ in gtxt][:4])
            if op in ('send', 'credit_update') and b['name'] in ('send', 'update_credit'):
                ok = any(('peer_requested_shutdown' in g) and not truth for g, truth, d in gtxt)
                R.check(ok, 'X3', '%s:refuse-after-peer-shutdown' % b['id'], site(sg, e), '%s refused once the peer requested shutdown' % op,
                        '%s still emits after the peer requested shutdown' % b['name'])
    R.count('table_mutations', n_mut)
    R.count('public_ops', n_ops)
    # X4
    from . import C19
    polls = [bb for bb in F.bodies.values() if bb.get('impl_adt') == M.owning_adt and 'impl_trait' not in bb and bb.get('pub') and bb['kind'] == 'AssocFn'
             and any(bl['term']['k'] == 'call' and bl['term'].get('trait') in ('core::ops::FnOnce', 'core::ops::FnMut', 'core::ops::Fn') for bl in bb['blocks'])]
    byrole = {}
    for k, v in roles.items():
        byrole.setdefault(v, []).append(k)
    Rsub = R
    for bb in polls:
        before = len(R.obs)
        C19.q1_poll(F, R, M, bb, roles, byrole)
        for o in R.obs[before:]:
            o['rule'] = o['rule'].replace('.Q', '.X4-Q')
            o['key'] = o['key'].replace(':Q', ':X4-Q')


def json_s(x):
    import json
    return json.dumps(x)


def fmt_short(S, d):
    out = []
    for x in deep_subterms(S, d, depth=2):
        if x[0] == 'call':
            out.append(x[2].rsplit('::', 1)[1])
        if x[0] in ('load', 'load0') and x[1][2] and x[1][2][-1][0] == 'f':
            out.append(x[1][2][-1][1])
    return '/'.join(dict.fromkeys(out))[:80]


def is_contains_on(S, d, field):
    for x in deep_subterms(S, d, depth=2):
        if x[0] == 'call' and x[2].endswith('::contains'):
            if any(y[0] == 'loc' and any(pp[0] == 'f' and pp[1] == field for pp in y[2]) for y in deep_subterms(S, x[3][0], depth=2)):
                return True
    return False
