"""C20 - command/response drivers encode requests per spec and check every response.

Decided:
 Z1 encodings: GPU control header and command/response structs and codes (VirtIO 1.2 5.7.6), sound request/status/event
    codes (5.14.6), pixel format constant; from rustc layouts and evaluated constants.
 Z2 every response is checked: each GPU helper that performs a request sends the command code belonging to its
    request struct and passes the response header to the type check with the expected success code (OK_NODATA,
    OK_DISPLAY_INFO, OK_EDID) whose result is what the helper returns; every sound control operation compares the
    response with the Ok status and returns an error otherwise; the blocking PCM transfer compares each status with
    S_OK; 9P compares the size prefix with the used length; entropy returns the used length.
 Z3 command order: change_resolution: create -> attach-backing -> set-scanout, and when replacing: set-scanout(0) ->
    detach -> unref before the old backing is released; flush: transfer -> flush; setup_cursor: create -> attach ->
    transfer -> update; sound parameters are recorded only on the Ok edge of the set-params response.
 Z4 backing lifetime: (a) the DMA region whose address is sent in attach-backing is moved into the driver object on
    every Ok path of that operation; (b) every clearing (= None / take) of a stored backing region is preceded on all
    paths by the detach for that resource; (c) drop order is C09.R1; the page count derives from the attached length.
 Z11 clock driver: message type per response structure, Ok only for status 0, clock-type / smearing codes decoded per table
    and smearing decoded only for the smeared-UTC type; scalar results come from the response.
 Z8 the blocking PCM transfer returns Ok only through the edge on which the period iterator is exhausted.
 Z7 in-flight PCM buffers are removed from the token maps only after pop_used succeeded (no removal before the fallible pop).
 Z5 PCM transfer shape: readable [stream id bytes, chunk] (non-blocking: one buffer), writable [status]; an add only
    when at least 3 descriptors are free; chunks of the configured period size.
 Z6 EDID decoding tables (VESA E-EDID 3.9 / 3.10.2): the standard-timing parser is folded over every first byte and
    aspect code: unused iff 0x0101, width = (b0 + 31) * 8, height = width * {10/16, 3/4, 4/5, 9/16}[b1 >> 6] computed
    multiply-first (exact for widths that are not multiples of 16 / 5); the detailed-timing parser over byte samples:
    active = low byte | (high nibble << 8) for horizontal (bytes 2, 4) and vertical (bytes 5, 7), None iff either is 0.
 Z16 = C03.E5 / E9, Z17 = C03.E1 / E2, Z18 9P mount tag read inside the consistent-read closure (= C13.G3).  Z2 also decides which
     cursor command an operation sends (UPDATE iff it uploads an image); Z3 also that the remembered rectangle is the created one.
Not decided: exactly-once in-order frame delivery over completion orders; equality of returned values with device data.
"""
from .common import *
from ..paths import *
from . import C05

EXPLANATION = ("Struct layouts/constants from rustc against the specification tables; request helpers are checked by provenance of the "
               "command constant and of the response-check operand/result; command order and backing lifetime are dominance / "
               "must-precede queries on the inlined MIR of the GPU operations with the helpers as events.")
CONFIGS = ['def', 'alloc', 'def-rel']    # these drivers need the `alloc` feature
FLOORS = {'edid_parsers': 2, 'gpu_helpers': 9, 'gpu_commands': 13, 'sound_checks': 5, 'pcm_release_fns': {'*': 1, 'noalloc': 0}, 'pcm_blocking_loops': {'*': 1, 'noalloc': 0}}
GPU = 'device::gpu::VirtIOGpu'
GPU_CMDS = {'GET_DISPLAY_INFO': 0x100, 'RESOURCE_CREATE_2D': 0x101, 'RESOURCE_UNREF': 0x102, 'SET_SCANOUT': 0x103, 'RESOURCE_FLUSH': 0x104,
            'TRANSFER_TO_HOST_2D': 0x105, 'RESOURCE_ATTACH_BACKING': 0x106, 'RESOURCE_DETACH_BACKING': 0x107, 'GET_CAPSET_INFO': 0x108,
            'GET_CAPSET': 0x109, 'GET_EDID': 0x10a, 'UPDATE_CURSOR': 0x300, 'MOVE_CURSOR': 0x301, 'OK_NODATA': 0x1100, 'OK_DISPLAY_INFO': 0x1101,
            'OK_CAPSET_INFO': 0x1102, 'OK_CAPSET': 0x1103, 'OK_EDID': 0x1104, 'ERR_UNSPEC': 0x1200, 'ERR_OUT_OF_MEMORY': 0x1201,
            'ERR_INVALID_SCANOUT_ID': 0x1202}
# request struct -> (size, command, expected success response)
GPU_REQ = {'ResourceCreate2D': (40, 0x101, 0x1100), 'SetScanout': (48, 0x103, 0x1100), 'ResourceFlush': (48, 0x104, 0x1100),
           'TransferToHost2D': (56, 0x105, 0x1100), 'ResourceAttachBacking': (48, 0x106, 0x1100), 'ResourceDetachBacking': (32, 0x107, 0x1100),
           'ResourceUnref': (32, 0x102, 0x1100), 'CmdGetEdid': (32, 0x10a, 0x1104), 'CtrlHeader': (24, 0x100, 0x1101), 'UpdateCursor': (56, None, None)}
SND_CODES = {'RJackInfo': 1, 'RJackRemap': 2, 'RPcmInfo': 0x100, 'RPcmSetParams': 0x101, 'RPcmPrepare': 0x102, 'RPcmRelease': 0x103, 'RPcmStart': 0x104,
             'RPcmStop': 0x105, 'RChmapInfo': 0x200, 'EvtJackConnected': 0x1000, 'EvtJackDisconnected': 0x1001, 'EvtPcmPeriodElapsed': 0x1100,
             'EvtPcmXrun': 0x1101, 'SOk': 0x8000, 'SBadMsg': 0x8001, 'SNotSupp': 0x8002, 'SIoErr': 0x8003}


def run(F, R):
    M = model(F)
    M.require_rings()
    roles = C05.classify_api(C05.queue_api(F, M))
    z1_encodings(F, R)
    if GPU in F.adts:
        z2_gpu(F, R, M, roles)
        z3_z4_gpu(F, R, M, roles)
    z2_cursor_commands(F, R, M, roles)
    z2_sound(F, R, M, roles)
    z2_misc(F, R, M, roles)
    z5_pcm(F, R, M, roles)
    z7_release_after_pop(F, R, M, roles)
    z8_pcm_complete(F, R, M, roles)
    z6_edid(F, R)
    # Z9: the command queues run in the negotiated modes (C08.H3)
    from .C08 import queue_modes_rule
    queue_modes_rule(F, R, M, 'Z9', ['device::gpu', 'device::sound', 'device::rng', 'device::rtc', 'device::virtio_9p'])
    # Z16: responses keep being seen after the 16-bit ring indices wrap (65536 completions on one queue): wrap-safe
    # counters and the folded completion test (C03.E5 / E9)
    from .C03 import wrap_rule
    wrap_rule(F, R, 'Z16')
    # Z17: lengths and ids of completions come from the used-ring slot of the trusted index; a refused poll consumes nothing (C03.E1 / E2)
    from .C03 import pop_rule
    pop_rule(F, R, 'Z17')
    # Z18: the returned mount tag is one consistent snapshot of the configuration space: every configuration read it is built from
    # happens inside the generation-bracketed retry closure (C13.G3)
    from .C13 import g3_wrapped
    guard(R, 'Z18', 'consistent-read', lambda: g3_wrapped(F, RuleProxy(R, {'G3': 'Z18'}, only=lambda inst: 'virtio_9p' in inst)))
    # Z10: returned values equal what the device reported: integer -> enum decoding tables agree with the enums' codes
    decode_tables_rule(F, R, 'Z10', ['device::'])
    z11_rtc(F, R, M, roles)
    z12_mount_tag(F, R)
    z13_stream_ids(F, R)
    z15_sound_infos(F, R, M, roles)
    z15b_cached_capabilities(F, R)
    if GPU in F.adts:
        z14_gpu_serialise(F, R, M, roles)


def z1_encodings(F, R):
    n = 0
    for path, c in F.consts.items():
        if path.startswith('device::gpu::Command::') and 'bits' in c:
            name = path.rsplit('::', 1)[1]
            if name in GPU_CMDS:
                n += 1
                R.tables += 1
                R.check(int(c['bits']) == GPU_CMDS[name], 'Z1', 'gpu-code:%s' % name, path, '%s = %#x' % (name, GPU_CMDS[name]),
                        'GPU command/response code %s = %#x, specification %#x' % (name, int(c['bits']), GPU_CMDS[name]))
    R.count('gpu_commands', n)
    for name, (size, cmd, ok) in GPU_REQ.items():
        adt = 'device::gpu::' + name
        if adt in F.adts and F.adts[adt].get('layout'):
            R.tables += 1
            R.check(F.adts[adt]['layout']['size'] == size and F.adts[adt]['repr']['c'], 'Z1', 'gpu-layout:%s' % name, adt, '%d bytes repr(C)' % size,
                    '%s is %d bytes (repr C=%s), specification %d' % (name, F.adts[adt]['layout']['size'], F.adts[adt]['repr']['c'], size))
    h = F.adts.get('device::gpu::CtrlHeader')
    if h:
        R.check(h['layout']['offsets'] == [0, 4, 8, 16, 20], 'Z1', 'gpu-layout:CtrlHeader-fields', 'device::gpu::CtrlHeader', 'type@0 flags@4 fence_id@8 ctx_id@16 pad@20',
                'control header field offsets %s' % h['layout']['offsets'])
    fm = [c for p, c in F.consts.items() if p.startswith('device::gpu::Format::B8G8R8A8')]
    for c in fm:
        R.check(int(c.get('bits', -1)) == 1, 'Z1', 'gpu-format', 'device::gpu::Format', 'B8G8R8A8_UNORM = 1', 'pixel format constant %s' % c.get('bits'))
    for ename in ('device::sound::CommandCode',):
        e = F.adts.get(ename)
        if e:
            for v in e['variants']:
                if v['name'] in SND_CODES:
                    R.tables += 1
                    R.check(int(v['discr']) == SND_CODES[v['name']], 'Z1', 'sound-code:%s' % v['name'], ename, '%s = %#x' % (v['name'], SND_CODES[v['name']]),
                            'sound code %s = %#x, specification %#x' % (v['name'], int(v['discr']), SND_CODES[v['name']]))
    e = F.adts.get('device::sound::RequestStatusCode')
    if e:
        okv = [int(v['discr']) for v in e['variants'] if v['name'] == 'Ok']
        R.check(okv == [0x8000], 'Z1', 'sound-code:status-ok', 'device::sound::RequestStatusCode', 'Ok = 0x8000', 'status Ok = %s' % okv)


def gpu_helpers(F):
    """GPU methods that call the generic request helper, and that helper's id."""
    reqs = [b for b in F.bodies.values() if b.get('impl_adt') == GPU and F.handwritten(b) and b['kind'] == 'AssocFn' and 'Req' in b.get('generics', [])]
    return reqs


def z2_gpu(F, R, M, roles):
    reqs = gpu_helpers(F)
    req_ids = set(b['id'] for b in reqs)
    if not req_ids:
        raise Undecided('generic GPU request helper not found')
    nh = 0
    for b in F.bodies.values():
        if b.get('impl_adt') != GPU or not F.handwritten(b) or b['kind'] != 'AssocFn' or b['id'] in req_ids:
            continue
        sg0 = supergraph(F, b['id'], opaque=lambda t, bb: bb['id'] in req_ids or bb['id'].endswith('::check_type') or bb.get('impl_adt') == GPU and bb['id'] != b['id'], tag='c20')
        S = sg0.sym
        calls = [n for n in sg0.calls(lambda d: d.get('fn') in req_ids)]
        if not calls:
            continue
        for n in calls:
            subs = n.d.get('substs', [])
            rq = [s for s in subs if s.startswith('device::gpu::')]
            req_ty = rq[0].rsplit('::', 1)[1] if rq else '?'
            rsp_ty = rq[1].rsplit('::', 1)[1] if len(rq) > 1 else None
            spec = GPU_REQ.get(req_ty)
            if not spec:
                continue
            nh += 1
            size, cmd, ok = spec
            where = site(sg0, n)
            # command constant in the request aggregate
            v = S.operand(n.id, n.d['args'][1])
            cmds = set()
            for x in deep_subterms(S, v):
                if x[0] == 'const' and isinstance(x[1], int) and x[2] == 'device::gpu::Command':
                    cmds.add(x[1])
            if not cmds:
                # the command code is a parameter of this helper: take it from every call site of the helper
                pks = [x[1] for x in deep_subterms(S, v) if x[0] == 'param']
                for cb in F.bodies.values():
                    if not F.handwritten(cb) or not any(bl['term']['k'] == 'call' and bl['term'].get('fn') == b['id'] for bl in cb['blocks']):
                        continue
                    sgc = supergraph(F, cb['id'], tag='flat', max_depth=0)
                    for cn in sgc.calls(lambda d: d.get('fn') == b['id']):
                        for pk in pks:
                            if pk - 1 < len(cn.d['args']):
                                for x in deep_subterms(sgc.sym, sgc.sym.operand(cn.id, cn.d['args'][pk - 1])):
                                    if x[0] == 'const' and isinstance(x[1], int) and x[2] == 'device::gpu::Command':
                                        cmds.add(x[1])
            if cmd is not None:
                R.check(cmds == {cmd}, 'Z2', '%s:command' % b['name'], where, '%s carries command %#x' % (req_ty, cmd),
                        '%s sends command code(s) %s in a %s request, specification %#x' % (b['name'], [hex(c) for c in cmds], req_ty, cmd))
            else:
                R.check(cmds <= {0x300, 0x301} and cmds, 'Z2', '%s:command' % b['name'], where, 'cursor command %s' % [hex(c) for c in cmds], 'cursor request with codes %s' % cmds)
            if ok is None or rsp_ty is None:
                continue
            # response check: check_type(response header, expected) and its result is returned
            chk = [m for m in sg0.calls(lambda d: d.get('fn', '').endswith('::check_type'))]
            good = False
            det = 'no type check of the response'
            for m in chk:
                a0 = S.operand(m.id, m.d['args'][0])
                a1 = S.operand(m.id, m.d['args'][1])
                if derives_from(('x', a0), lambda x: x[0] == 'call' and x[1] == n.id) or any(x[0] == 'call' and x[1] == n.id for x in deep_subterms(S, a0)):
                    exp = const_int(a1)
                    returned = False
                    for r_ in sg0.exits:
                        rv = S.local_value(r_, 0, 0)
                        if derives_from(rv, lambda x: x[0] == 'call' and x[1] == m.id):
                            returned = True
                    if exp == ok and returned:
                        good = True
                    else:
                        det = 'expected code %s (specification %#x), result propagated=%s' % (hex(exp) if exp is not None else None, ok, returned)
            R.check(good, 'Z2', '%s:response-check' % b['name'], where, 'response type compared with %#x and the outcome returned' % ok,
                    '%s does not reject unexpected responses: %s' % (b['name'], det))
    R.count('gpu_helpers', nh)
    # check_type itself: Ok iff equal
    for b in F.bodies.values():
        if b['id'].endswith('::check_type') and b.get('impl_adt', '').startswith('device::gpu::'):
            sg = supergraph(F, b['id'])
            paths = [p for p in PathEnum(sg).run() if not p.panicked]
            bad = None
            for have, want in ((0x1100, 0x1100), (0x1200, 0x1100), (0x1101, 0x1100), (0x1104, 0x1104), (0x1100, 0x1104)):
                def leaf(t):
                    if t[0] == 'load0' or (t[0] == 'field' and t[1][0] == 'load0'):
                        return have
                    if t == ('param', 2) or (t[0] == 'field' and t[1] == ('param', 2)):
                        return want
                    if t[0] == 'field':
                        return leaf(t[1])
                    raise Unfoldable(fmt(t)[:60])
                fo = Folder(leaf)
                try:
                    got = [err_variant(p.ret) for p in paths if path_holds(fo, p)]
                except Unfoldable as e:
                    bad = 'unfoldable %s' % e
                    break
                if (got == ['Ok']) != (have == want):
                    bad = 'response %#x expected %#x -> %s' % (have, want, got)
            R.check(bad is None, 'Z2', 'gpu:check_type', fn_site(F, b['id']), 'Ok iff the response type equals the expected type', 'check_type: %s' % bad)


def z2_cursor_commands(F, R, M, roles):
    """Which of the two cursor commands an operation sends: an operation that uploads a cursor image (it transfers a resource to
    the host) defines the cursor with UPDATE_CURSOR (0x300), an operation that only passes a position moves it with MOVE_CURSOR
    (0x301) - decided per public operation with the flag-taking private helper inlined and its constant flag folded."""
    req_ids = set(b['id'] for b in gpu_helpers(F))
    helpers = gpu_command_helpers(F)
    cur = set(h for h, c in helpers.items() if c == 'update_cursor')
    n = 0
    for b in sorted(F.bodies.values(), key=lambda x: x['id']):
        if b.get('impl_adt') != GPU or not F.handwritten(b) or b['kind'] != 'AssocFn' or not b.get('pub'):
            continue
        if not any(bl['term']['k'] == 'call' and bl['term'].get('fn') in cur for bl in b['blocks']):
            continue
        sg = supergraph(F, b['id'], opaque=lambda t, bb: bb['id'] not in cur, tag='c20cur')
        try:
            # successful paths, including those that return the request helper's own result
            paths = [p for p in PathEnum(sg).run() if not p.panicked and err_variant(p.ret) != 'Err' and any(e[0] == 'call' and e[2] in req_ids for e in p.effects)]
        except PathLimit as e:
            R.abstain('Z2', '%s:cursor-command' % b['name'], str(e), fn_site(F, b['id']))
            continue
        n += 1
        bad = None
        for p in paths:
            cmds, uploads = [], False
            for e in p.effects:
                if e[0] != 'call':
                    continue
                if helpers.get(e[2]) == 'transfer_to_host_2d':
                    uploads = True
                if e[2] in req_ids:
                    cs = set(x[1] for a in e[3] for x in subterms(a) if x[0] == 'const' and isinstance(x[1], int) and x[2] == 'device::gpu::Command')
                    if len(e) > 5 and e[5]:
                        cs |= set(x[1] for a in e[5] if a is not None for x in subterms(a) if x[0] == 'const' and isinstance(x[1], int) and x[2] == 'device::gpu::Command')
                    cmds.append(cs)
            if not cmds or any(len(c) != 1 for c in cmds):
                bad = 'cannot determine the single cursor command of a successful path: %s' % cmds
                continue
            want = 0x300 if uploads else 0x301
            if any(c != {want} for c in cmds):
                bad = 'an operation that %s sends cursor command %s, specification %#x (%s)' % (
                    'uploads a cursor image' if uploads else 'only passes a position', [hex(x) for c in cmds for x in c], want, 'UPDATE_CURSOR' if uploads else 'MOVE_CURSOR')
        R.check(bad is None and bool(paths), 'Z2', '%s:cursor-command' % b['name'], fn_site(F, b['id']), 'UPDATE_CURSOR iff the operation uploads an image, else MOVE_CURSOR',
                '%s: %s' % (b['name'], bad or 'no successful path'))
    R.count('cursor_ops', n)


CMD_NAME = {'ResourceCreate2D': 'resource_create_2d', 'SetScanout': 'set_scanout', 'ResourceFlush': 'resource_flush', 'TransferToHost2D': 'transfer_to_host_2d',
            'ResourceAttachBacking': 'resource_attach_backing', 'ResourceDetachBacking': 'resource_detach_backing', 'ResourceUnref': 'resource_unref',
            'UpdateCursor': 'update_cursor', 'CmdGetEdid': 'get_edid', 'CtrlHeader': 'get_display_info'}


def gpu_command_helpers(F):
    """GPU method id -> specification command name, for the methods that directly hand one request structure of the
    specification to the generic request helper (found by the request type, not by the method's name)."""
    req_ids = set(b['id'] for b in gpu_helpers(F))
    out = {}
    for b in F.bodies.values():
        if b.get('impl_adt') != GPU or not F.handwritten(b) or b['kind'] != 'AssocFn' or b['id'] in req_ids:
            continue
        tys = set()
        for bl in b['blocks']:
            t = bl['term']
            if t['k'] == 'call' and t.get('fn') in req_ids:
                rq = [x for x in t.get('substs', []) if x.startswith('device::gpu::')]
                if rq and rq[0].rsplit('::', 1)[1] in CMD_NAME:
                    tys.add(rq[0].rsplit('::', 1)[1])
        if len(tys) == 1:
            out[b['id']] = CMD_NAME[tys.pop()]
    return out


_RC = {}


def z3_rect_consumers(F, M, roles, helpers, rectf):
    """Resource ids (constant terms) that some public GPU method transfers to the host using the remembered rectangle field."""
    key = id(F)
    if key in _RC:
        return _RC[key]
    out = set()
    for b in F.bodies.values():
        if b.get('impl_adt') != GPU or b['kind'] != 'AssocFn' or not b.get('pub') or not F.handwritten(b):
            continue
        if not any(bl['term']['k'] == 'call' and helpers.get(bl['term'].get('fn')) == 'transfer_to_host_2d' for bl in b['blocks']):
            continue
        sg = supergraph(F, b['id'], opaque=lambda t, bb: True, tag='c20rc', max_depth=0)
        S = sg.sym
        for n in sg.calls(lambda d: helpers.get(d.get('fn')) == 'transfer_to_host_2d'):
            rect = S.operand(n.id, n.d['args'][1])
            if any(x[0] == 'loc' and any(pp[0] == 'f' and pp[1] in rectf and len(pp) > 2 and pp[2] == GPU for pp in x[2]) for x in deep_subterms(S, rect)):
                out.add(strip_conv(S.operand(n.id, n.d['args'][3])))
    _RC[key] = out
    return out


def z3_z4_gpu(F, R, M, roles):
    helpers = gpu_command_helpers(F)
    seqs = {'change_resolution': [('resource_create_2d', 'resource_attach_backing'), ('resource_attach_backing', 'set_scanout')],
            'flush': [('transfer_to_host_2d', 'resource_flush')],
            'setup_cursor': [('resource_create_2d', 'resource_attach_backing'), ('resource_attach_backing', 'transfer_to_host_2d'), ('transfer_to_host_2d', 'update_cursor')]}
    for b in F.bodies.values():
        if b.get('impl_adt') != GPU or b['name'] not in seqs or b['kind'] != 'AssocFn' or not b.get('pub'):
            continue
        # command helpers are events; other private methods of the driver are analysed inlined
        sg = supergraph(F, b['id'], opaque=lambda t, bb: bb['id'] in helpers or (bb.get('impl_adt') == GPU and bb.get('pub') and bb['id'] != b['id'])
                        or bb.get('impl_adt') == M.dma_adt or bb['id'] in roles, tag='c20z3')
        S = sg.sym
        live = sg.live_nodes()
        calls = {}
        for n in sg.calls(lambda d: d.get('fn') in helpers):
            calls.setdefault(helpers[n.d['fn']], []).append(n)
        oks = [n for n in sg.nodes if n.ctx == 0 and n.kind == 'assign' and not n.d['place']['p'] and n.d['place']['l'] == 0
               and n.d['rv']['rv'] == 'agg' and n.d['rv'].get('variant') == 'Ok' and n.id in live]
        try:
            okpaths = [p for p in PathEnum(sg).run() if not p.panicked and (err_variant(p.ret) == 'Ok' or (err_variant(p.ret) is None and p.ret is not None and p.ret[0] == 'call'))] if not back_edges(sg) else None    # Ok(..) or the last command helper's own result returned directly
        except PathLimit:
            okpaths = None
        for first, then in seqs[b['name']]:
            fs = [n.id for n in calls.get(first, [])]
            ts = [n for n in calls.get(then, [])]
            if okpaths is not None:
                # path-enumerated (an early error return of an inlined private helper is then not confused with its success):
                # on every successful path the last `then` is preceded by a `first`
                ok = bool(okpaths)
                for p in okpaths:
                    seq = [helpers[e[2]] for e in p.effects if e[0] == 'call' and e[2] in helpers]
                    if then not in seq or first not in seq[:len(seq) - seq[::-1].index(then) - 1]:
                        ok = False
                R.check(ok, 'Z3', '%s:%s-before-%s' % (b['name'], first, then), fn_site(F, b['id']), '%s precedes %s on every successful path' % (first, then),
                        '%s: %s is not always preceded by %s' % (b['name'], then, first))
                continue
            # the *last* call of `then` on the way to Ok must be dominated by a `first`
            ok = bool(fs) and bool(ts)
            for o in oks:
                ok = ok and sg.always_before(fs, o.id) and any(sg.always_before(fs, t.id) for t in ts)
            # and no `then` reaches a later `first` (order not inverted) on the main sequence
            tl = [t for t in ts if sg.always_before(fs, t.id)]
            ok = ok and bool(tl)
            R.check(ok, 'Z3', '%s:%s-before-%s' % (b['name'], first, then), fn_site(F, b['id']), '%s precedes %s on every successful path' % (first, then),
                    '%s: %s is not always preceded by %s' % (b['name'], then, first))
        # the caller's image reaches the backing before it is transferred: a copy_from_slice from the slice parameter into the
        # freshly allocated region precedes transfer_to_host_2d
        fn_ = sg.entry_fn
        img = [i + 1 for i, l_ in enumerate(fn_['locals'][1:fn_['arg_count'] + 1]) if l_['ty'].endswith('[u8]')]
        if img and 'transfer_to_host_2d' in calls and b['name'] != 'flush':
            copies = []
            for c_ in sg.calls(lambda d: d.get('fn', '').endswith('::copy_from_slice')):
                src = S.operand(c_.id, c_.d['args'][1])
                dst = S.operand(c_.id, c_.d['args'][0])
                if derives_from(src, lambda x: x == ('param', img[0])) and any(
                        x[0] == 'call' and F.bodies.get(x[2], {}).get('impl_adt') == M.dma_adt for x in deep_subterms(S, dst)):
                    copies.append(c_.id)
            tr = [n.id for n in calls['transfer_to_host_2d']]
            if okpaths is not None:
                # path-enumerated: on every successful path a copy precedes the (first) transfer - an inlined private helper's early
                # error return is then not merged with its success
                okc = bool(copies) and bool(okpaths)
                for p in okpaths:
                    seq = [e[1] for e in p.effects if e[0] == 'call' and (e[1] in copies or e[1] in tr)]
                    if not any(x in tr for x in seq) or seq[0] in tr:
                        okc = False
            else:
                okc = bool(copies) and all(sg.always_before(copies, t_) for t_ in tr)
            R.check(okc, 'Z3', '%s:image-copied-before-transfer' % b['name'], fn_site(F, b['id']), 'the caller\'s image is copied into the backing before the transfer',
                    '%s transfers the backing to the host without first copying the caller\'s image into it: the device shows the zeroed allocation' % b['name'])
        # an existing backing is torn down exactly on the paths where one exists: on a successful path on which the stored region
        # is Some, detach + unref precede the new attach (otherwise the overwrite frees a region the device still has attached)
        if okpaths is not None and 'resource_detach_backing' in helpers.values() and b['name'] == 'change_resolution':
            dmaf_ = [f_['name'] for f_ in F.adts[GPU]['variants'][0]['fields'] if M.dma_adt in f_['mentions']]
            wrongp = None
            for p in okpaths:
                has = None
                for c_ in p.conds:
                    d = c_[0]
                    truth = (c_[1][0] == 'notin' and 0 in c_[1][1]) or (c_[1][0] == 'in' and 0 not in c_[1][1])
                    onf = any(x[0] == 'loc' and any(pp[0] == 'f' and pp[1] in dmaf_ and len(pp) > 2 and pp[2] == GPU for pp in x[2]) for x in subterms(d))
                    if not onf:
                        continue
                    if d[0] == 'call' and d[2].endswith('::is_some'):
                        has = truth
                    elif d[0] == 'call' and d[2].endswith('::is_none'):
                        has = not truth
                    elif d[0] == 'discr':
                        has = truth
                seq = [helpers[e[2]] for e in p.effects if e[0] == 'call' and e[2] in helpers]
                tore = 'resource_detach_backing' in seq and 'resource_attach_backing' in seq and seq.index('resource_detach_backing') < len(seq) - 1 - seq[::-1].index('resource_attach_backing')
                if has is True and not tore:
                    wrongp = 'a path on which a backing region is stored attaches a new one without detaching the old'
                if has is False and 'resource_detach_backing' in seq:
                    wrongp = wrongp or 'the teardown commands are sent on the path where no backing region is stored'
            R.check(wrongp is None, 'Z3', '%s:teardown-iff-backing-exists' % b['name'], fn_site(F, b['id']), 'old backing detached exactly when one exists',
                    '%s: %s' % (b['name'], wrongp))
        # ... and an image of any other length than the cursor size is refused: attach is reached only on the equal edge of the
        # length comparison
        if img and okpaths is not None:
            for p in okpaths:
                for c_ in p.conds:
                    d = c_[0]
                    if d[0] == 'bin' and d[1] in ('Ne', 'Eq') and any(x[0] == 'call' and x[2].endswith('::len') and derives_from(x, lambda y: y == ('param', img[0])) for x in subterms(d)):
                        truth = (c_[1][0] == 'notin' and 0 in c_[1][1]) or (c_[1][0] == 'in' and 0 not in c_[1][1])
                        R.check((d[1] == 'Eq') == truth, 'Z3', '%s:image-length-test' % b['name'], fn_site(F, b['id']), 'proceeds only when the image length equals the cursor size',
                                '%s proceeds when the image length differs from the cursor size and refuses the correct length' % b['name'])
        # the rectangle the driver remembers for later transfers/flushes is the rectangle of the resource it creates: a body that
        # creates the resource which `flush`-like consumers transfer from the remembered field stores that field, on every
        # successful path, with the created width and height (otherwise flush transfers a stale rectangle of another size)
        rectf = [f_['name'] for f_ in F.adts[GPU]['variants'][0]['fields'] if any(m.endswith('::Rect') for m in f_['mentions'])]
        if rectf and 'resource_create_2d' in calls and z3_rect_consumers(F, M, roles, helpers, rectf):
            for cr in calls['resource_create_2d']:
                rid = strip_conv(S.operand(cr.id, cr.d['args'][1]))
                if rid not in z3_rect_consumers(F, M, roles, helpers, rectf):
                    continue
                wh = [strip_conv(S.operand(cr.id, cr.d['args'][k])) for k in (2, 3)]
                stores = [n for n in sg.nodes if n.kind == 'assign' and n.d['place']['p'] and isinstance(n.d['place']['p'][-1], dict)
                          and n.d['place']['p'][-1].get('n') in rectf and n.id in live]
                good = [n for n in stores if all(any(strip_conv(x) == w for x in deep_subterms(S, S.rvalue(n.id, n.d['rv']))) for w in wh)]
                okr = bool(good) and all(sg.always_before([g.id for g in good], o.id) for o in oks) and len(good) == len(stores)
                R.check(okr, 'Z3', '%s:remembered-rect-is-created-rect' % b['name'], site(sg, cr), 'the remembered rectangle is stored with the created width/height on every successful path',
                        '%s creates the resource with %s x %s but does not record that rectangle in `%s` on every successful path: a later flush '
                        'transfers and flushes a stale rectangle (of the previous / default resolution)' % (b['name'], fmt(wh[0])[:30], fmt(wh[1])[:30], rectf[0]))
        # Z4 for operations that attach a freshly allocated region
        att = calls.get('resource_attach_backing', [])
        for a in att:
            addr = S.operand(a.id, a.d['args'][2])
            length = S.operand(a.id, a.d['args'][3])
            from_dma = [x for x in deep_subterms(S, addr) if x[0] == 'call' and F.bodies.get(x[2], {}).get('impl_adt') == M.dma_adt]
            R.check(bool(from_dma), 'Z4', '%s:attach-address-from-dma' % b['name'], site(sg, a), 'attached address is a DMA physical address',
                    'backing address is not the physical address of a DMA region: %s' % fmt(addr)[:80])
            # stored into self on every Ok path
            dmaf = [f['name'] for f in F.adts[GPU]['variants'][0]['fields'] if M.dma_adt in f['mentions']]
            stores = [n for n in sg.nodes if n.kind == 'assign' and n.d['place']['p'] and isinstance(n.d['place']['p'][-1], dict)
                      and n.d['place']['p'][-1].get('n') in dmaf and n.id in live and is_some(S.rvalue(n.id, n.d['rv']))]
            keep = bool(stores) and all(sg.always_before([s.id for s in stores], o.id) for o in oks)
            # ... and stored only after it has been attached: overwriting the field drops the region stored before, which the device
            # keeps using as the resource's backing until the new attach (or a detach) has been sent
            if okpaths is not None:
                early = None
                for p in okpaths:
                    seq = [('att' if e[0] == 'call' else 'st') for e in p.effects if (e[0] == 'call' and e[1] == a.id) or (e[0] == 'store' and e[1] in [s_.id for s_ in stores])]
                    if 'st' in seq and 'att' in seq and seq.index('st') < seq.index('att'):
                        early = True
            else:
                early = bool(stores) and not all(sg.always_before([a.id], s_.id) for s_ in stores)
            R.check(not early, 'Z4', '%s:stored-after-attach' % b['name'], site(sg, a), 'the new region replaces the stored one only after it was attached',
                    '%s stores the new backing region in the driver (dropping the region stored before) before the attach command has been sent: '
                    'on a second call the previous region is freed while it is still the resource\'s backing' % b['name'])
            R.check(keep, 'Z4', '%s:backing-kept' % b['name'], site(sg, a), 'the attached region is stored in the driver on every Ok path',
                    'the DMA region attached as backing is dropped at the end of %s on some successful path (the device keeps using freed memory)' % b['name'])
            # page count derives from the attached length
            news = [n for n in sg.calls(lambda d: F.bodies.get(d.get('fn'), {}).get('impl_adt') == M.dma_adt and 'Result' in F.bodies[d['fn']].get('sig', ''))]
            for nn in news:
                pg = S.operand(nn.id, nn.d['args'][0])
                lt = strip_conv(length)
                ok = any(strip_conv(x) == lt for x in subterms(pg)) or derives_from(pg, lambda x: x == lt)
                R.check(ok, 'Z4', '%s:backing-covers-length' % b['name'], site(sg, nn), 'page count computed from the advertised length',
                        'DMA page count %s does not derive from the attached length %s' % (fmt(pg)[:60], fmt(length)[:60]))
        # (b) clearing of a stored backing region is preceded by detach (+ unref)
        dmaf = [f['name'] for f in F.adts[GPU]['variants'][0]['fields'] if M.dma_adt in f['mentions']]
        clears = []
        for n in sg.nodes:
            if n.id not in live:
                continue
            if n.kind == 'assign' and n.d['place']['p'] and isinstance(n.d['place']['p'][-1], dict) and n.d['place']['p'][-1].get('n') in dmaf \
                    and is_none(S.rvalue(n.id, n.d['rv'])):
                clears.append((n, n.d['place']['p'][-1]['n']))
            if n.kind == 'call' and n.inl is None and (n.d.get('fn', '').endswith('::take') or n.d.get('fn') in ('core::mem::take', 'core::mem::replace')):
                t = S.operand(n.id, n.d['args'][0])
                for x in subterms(t):
                    if x[0] == 'loc':
                        for pp in x[2]:
                            if pp[0] == 'f' and pp[1] in dmaf and pp[2] == GPU:
                                clears.append((n, pp[1]))
            if n.kind == 'drop' and n.d['place']['p'] and isinstance(n.d['place']['p'][-1], dict) and n.d['place']['p'][-1].get('n') in dmaf:
                # drop of the old value when the field is overwritten with Some(..): not judged (see DESIGN Z4)
                pass
        det = [n.id for n in calls.get('resource_detach_backing', [])]
        unr = [n.id for n in calls.get('resource_unref', [])]
        for n, fld in clears:
            ok = bool(det) and sg.always_before(det, n.id) and (not unr or sg.always_before(unr, n.id))
            R.check(ok, 'Z4', '%s:clear-after-detach:%s' % (b['name'], fld), site(sg, n), 'stored backing `%s` released only after detach/unref' % fld,
                    'the stored backing region `%s` is released (taken / set to None) before the device has been told to detach it: the '
                    'device still uses the freed memory for the following commands' % fld)
        if b['name'] == 'change_resolution':
            R.check(bool(det) and bool(unr) and all(sg.always_before(det, u) for u in unr), 'Z3', 'change_resolution:detach-before-unref', fn_site(F, b['id']),
                    'replacement: detach precedes unref', 'replacement sequence: detach-backing does not precede resource-unref')
            sc = calls.get('set_scanout', [])
            first_sc = [s for s in sc if any(s.id in sg.reach_bwd([d_]) for d_ in det)]
            R.check(bool(first_sc), 'Z3', 'change_resolution:disable-scanout-before-detach', fn_site(F, b['id']), 'scanout disabled before detach', 'old scanout is not disabled before detaching its backing')


def is_some(v):
    return v[0] == 'agg' and v[1].endswith('::Some')


def is_none(v):
    return v[0] == 'agg' and v[1].endswith('::None')


def z2_sound(F, R, M, roles):
    snd = 'device::sound::VirtIOSound'
    if snd not in F.adts:
        return
    req = [b['id'] for b in F.bodies.values() if b.get('impl_adt') == snd and b['kind'] == 'AssocFn' and 'Req' in b.get('generics', [])]
    n = 0
    for b in F.bodies.values():
        if b.get('impl_adt') != snd or not F.handwritten(b) or b['kind'] != 'AssocFn' or b['id'] in req:
            continue
        sg = supergraph(F, b['id'], opaque=lambda t, bb: bb['id'] in req or bb['id'] in roles or (bb.get('impl_adt') == snd and bb['id'] != b['id']), tag='c20s')
        calls = [x for x in sg.calls(lambda d: d.get('fn') in req)]
        if not calls or not b.get('pub') and b['name'] not in ('jack_info', 'pcm_info', 'chmap_info'):
            continue
        S = sg.sym
        live = sg.live_nodes()
        for c in calls:
            if c.id not in live:
                continue
            # the response is compared (PartialEq with the Ok status header) and an error return exists on the unequal edge
            cmps = []
            for m in sg.nodes:
                if m.kind == 'switch':
                    d = S.operand(m.id, m.d['discr'])
                    dts = list(deep_subterms(S, d))
                    if any(x[0] == 'call' and x[1] == c.id for x in dts) and any(
                            (x[0] == 'call' and x[2] in ('core::cmp::PartialEq::eq', 'core::cmp::PartialEq::ne')) or (x[0] == 'bin' and x[1] in ('Eq', 'Ne')) for x in dts):
                        cmps.append(m)
            oks = [x for x in sg.nodes if x.ctx == 0 and x.kind == 'assign' and not x.d['place']['p'] and x.d['place']['l'] == 0
                   and x.d['rv']['rv'] == 'agg' and x.d['rv'].get('variant') == 'Ok' and x.id in live and c.id in sg.reach_bwd([x.id])]
            ok = bool(cmps) and all(sg.always_before([m.id for m in cmps], o.id) for o in oks)
            n += 1
            R.check(ok, 'Z2', 'sound:%s:response-check' % b['name'], site(sg, c), 'response compared with the Ok status before success is reported',
                    'sound operation %s reports success without comparing the response status with Ok' % b['name'])
        # polarity (loop-free operations): success is reported on the *equal* edge of the comparison with the Ok status
        if calls and not back_edges(sg):
            try:
                okp = [p for p in PathEnum(sg).run() if not p.panicked and err_variant(p.ret) == 'Ok']
            except PathLimit:
                okp = []
            wrong = None
            for p in okp:
                for c_ in p.conds:
                    d = c_[0]
                    is_cmp = (d[0] == 'bin' and d[1] in ('Eq', 'Ne')) or (d[0] == 'call' and d[2] in ('core::cmp::PartialEq::eq', 'core::cmp::PartialEq::ne'))
                    if not is_cmp or not any(x[0] == 'call' and x[2] in req for x in subterms(d)):
                        continue
                    sides = [d[2], d[3]] if d[0] == 'bin' else list(d[3])
                    other = [sd for sd in sides if not any(x[0] == 'call' and x[2] in req for x in subterms(sd))]
                    if not other or not any((x[0] == 'const' and x[1] == 0x8000) or (x[0] == 'agg' and ('SndHdr' in x[1] or 'RequestStatusCode' in x[1] or 'CommandCode' in x[1]))
                                            for sd in other for x in subterms(sd)):
                        continue
                    truth = (c_[1][0] == 'notin' and 0 in c_[1][1]) or (c_[1][0] == 'in' and 0 not in c_[1][1])
                    eq = (d[0] == 'bin' and d[1] == 'Eq') or (d[0] == 'call' and d[2].endswith('::eq'))
                    if eq != truth:
                        wrong = fmt(d)[:80]
            if okp:
                R.check(wrong is None, 'Z2', 'sound:%s:response-polarity' % b['name'], fn_site(F, b['id']), 'success only on the edge where the response equals Ok',
                        'sound operation %s reports success when the response status differs from Ok (and an error when it is Ok): %s' % (b['name'], wrong))
        if b['name'] == 'pcm_set_params':
            # parameters recorded only after the Ok comparison
            st = [x for x in sg.nodes if x.kind == 'assign' and x.d['place']['p'] and x.id in live and 'PcmParameters' in x.d.get('pty', '')]
            cm = []
            for m in sg.nodes:
                if m.kind == 'switch':
                    dts = list(deep_subterms(S, S.operand(m.id, m.d['discr'])))
                    if any(x[0] == 'call' and x[1] in [c.id for c in calls] for x in dts) and any(x[0] == 'bin' and x[1] in ('Eq', 'Ne') for x in dts):
                        cm.append(m.id)
            R.check(bool(st) and all(sg.always_before(cm, x.id) for x in st), 'Z3', 'sound:set-params-recorded-after-ok', fn_site(F, b['id']),
                    'stream parameters recorded only after the device accepted them', 'stream parameters are recorded before/without the Ok response')
    R.count('sound_checks', n)


def json_s(x):
    import json
    return json.dumps(x)


def z2_misc(F, R, M, roles):
    for b in F.bodies.values():
        if b.get('impl_adt') == 'device::virtio_9p::VirtIO9p' and b['name'] == 'request' and b['kind'] == 'AssocFn':
            sg = supergraph(F, b['id'], opaque=lambda t, bb: bb['id'] in roles, tag='c20m')
            paths = [p for p in PathEnum(sg).run() if not p.panicked]
            okp = [p for p in paths if err_variant(p.ret) == 'Ok']
            good = bool(okp)
            for p in okp:
                subs = [e for e in p.effects if e[0] == 'call' and roles.get(e[2]) == 'add_notify_wait_pop']
                cmpc = [c for c in p.conds if c[0][0] == 'bin' and c[0][1] in ('Ne', 'Eq') and subs and derives_from(c[0], lambda x: x[0] == 'call' and x[1] == subs[0][1])
                        and derives_from(c[0], lambda x: x[0] == 'call' and x[2].endswith('from_le_bytes'))]
                if not subs or not cmpc:
                    good = False
                # ... on the *equal* edge of that comparison
                for c_ in cmpc:
                    truth = (c_[1][0] == 'notin' and 0 in c_[1][1]) or (c_[1][0] == 'in' and 0 not in c_[1][1])
                    if (c_[0][1] == 'Eq') != truth:
                        good = False
            R.check(good, 'Z2', '9p:size-prefix', fn_site(F, b['id']), 'Ok only if the little-endian size prefix equals the used length', '9P request returns Ok without comparing the size prefix with the used length')
        if b.get('impl_adt') == 'device::rng::VirtIORng' and b['name'] == 'request_entropy':
            sg = supergraph(F, b['id'], opaque=lambda t, bb: bb['id'] in roles, tag='c20m')
            S = sg.sym
            subs = [n for n in sg.calls(lambda d: roles.get(d.get('fn')) == 'add_notify_wait_pop')]
            good = len(subs) == 1
            if good:
                ins = array_elems(S, S.operand(subs[0].id, subs[0].d['args'][1]))
                outs = array_elems(S, S.operand(subs[0].id, subs[0].d['args'][2]))
                good = (ins == [] or ins is None and 'promoted' in fmt(S.operand(subs[0].id, subs[0].d['args'][1]))) and outs is not None and len(outs) == 1
            why = 'entropy request shape wrong'
            if good:
                okp = [p for p in PathEnum(sg).run() if not p.panicked and err_variant(p.ret) == 'Ok']
                good = bool(okp)
                for p in okp:
                    val = p.ret[2][0] if (p.ret[0] == 'agg' and p.ret[2]) else None
                    from_dev = val is not None and derives_from(val, lambda x: x[0] == 'call' and x[1] == subs[0].id)
                    from_len = val is not None and derives_from(val, lambda x: x[0] == 'call' and x[2].endswith('::len'))
                    if not from_dev or from_len:
                        good = False
                        why = 'the returned entropy length is %s, not the used length the device reported: a short read would be reported as a full buffer' % fmt(val)[:80]
            R.check(good, 'Z2', 'rng:shape', fn_site(F, b['id']), 'one device-writable buffer, returns the used length the device reported', why)


def z12_mount_tag(F, R):
    """9P mount tag: length read at config offset 0, each byte read at offset 2 + i for i below the length is appended,
    and the returned string is built from exactly those bytes."""
    n = 0
    for b in F.bodies.values():
        if not F.handwritten(b) or 'device::virtio_9p' not in b['id'] or b['kind'] not in ('Fn', 'AssocFn', 'Closure'):
            continue
        reads = [bl['term'] for bl in b['blocks'] if bl['term']['k'] == 'call' and bl['term'].get('trait') == TRANSPORT and bl['term'].get('method') == 'read_config_space']
        if len(reads) < 2:
            continue
        n += 1
        sg = supergraph(F, b['id'], tag='flat', max_depth=0)
        S = sg.sym
        rd = [c for c in sg.calls(lambda d: d.get('trait') == TRANSPORT and d.get('method') == 'read_config_space')]
        offs = [S.operand(c.id, c.d['args'][1]) for c in rd]
        len_reads = [c for c, o in zip(rd, offs) if fold_const(o) == 0]
        def base_of(o):
            # offset written as `c + i`, or taken from a range iterator `c .. c + len`; None: another (unrecognised) form
            for x in subterms(o):
                if x[0] == 'bin' and x[1] in ('Add', 'AddWithOverflow') and (fold_const(x[2]) is not None or fold_const(x[3]) is not None):
                    return fold_const(x[2]) if fold_const(x[2]) is not None else fold_const(x[3])
            for x in deep_subterms(S, o):
                if x[0] == 'agg' and str(x[1]).endswith('Range') and len(x[2]) >= 2:
                    return fold_const(strip_conv(x[2][0]))
            return None
        byte_reads = [c for c, o in zip(rd, offs) if fold_const(o) is None and base_of(o) in (2, None)]
        pushes = [c for c in sg.calls(lambda d: d.get('fn', '').startswith('alloc::vec::Vec::') and d['fn'].endswith('::push'))]
        pushed = [c for c in pushes if any(derives_from(S.operand(c.id, c.d['args'][1]), lambda x, r=r: x[0] == 'call' and x[1] == r.id) for r in byte_reads)]
        be = back_edges(sg)
        in_loop = set()
        for (u, v) in be:
            body, st = {v}, [u]
            while st:
                x = st.pop()
                if x in body:
                    continue
                body.add(x)
                st.extend(sg.nodes[x].pred)
            in_loop |= body
        ok = bool(len_reads) and bool(byte_reads) and bool(pushed) and all(c.id in in_loop for c in pushed) and all(c.id in in_loop for c in byte_reads)
        # a zero length is the refused case: the byte reads are guarded by the *non-zero* edge of the length test
        for r_ in byte_reads:
            for swid, vals, succ in sg.guards_of(r_.id):
                d = S.operand(swid, sg.nodes[swid].d['discr'])
                if d[0] == 'bin' and d[1] in ('Eq', 'Ne') and any(x[0] == 'call' and x[1] in [l.id for l in len_reads] for x in subterms(d)) and 0 in (fold_const(d[2]), fold_const(d[3])):
                    truth = any(v_ not in (0, None) for v_ in vals) or (None in vals and 0 not in vals)
                    if 0 in vals and len([v_ for v_ in vals if v_ is not None]) == 1:
                        truth = False
                    if (d[1] == 'Eq') == truth:
                        ok = False
        R.check(ok, 'Z12', '%s:mount-tag' % b['id'], fn_site(F, b['id']), 'length at offset 0; every byte read at 2 + i is appended inside the loop',
                'mount tag: length read at offset 0=%s, byte reads at 2+i=%d, bytes appended=%d (in the loop=%s): the returned tag is not what the device reported' % (
                    bool(len_reads), len(byte_reads), len(pushed), all(c.id in in_loop for c in pushed)))
    R.count('mount_tag_readers', n)


def z5_pcm(F, R, M, roles):
    snd = 'device::sound::VirtIOSound'
    for b in F.bodies.values():
        if b.get('impl_adt') != snd or b['name'] not in ('pcm_xfer', 'pcm_xfer_nb') or b['kind'] != 'AssocFn':
            continue
        qids = set(roles) | set(x['id'] for x in queue_entry_points(F, M))
        sg = supergraph(F, b['id'], opaque=lambda t, bb: bb['id'] in qids or (bb.get('impl_adt') == snd and bb['id'] != b['id'] and (bb.get('pub') or has_loop(bb))),
                        tag='c20p')
        S = sg.sym
        adds = [n for n in sg.calls(lambda d: roles.get(d.get('fn')) == 'add')]
        for a in adds:
            ins = array_elems(S, S.operand(a.id, a.d['args'][1]))
            outs = array_elems(S, S.operand(a.id, a.d['args'][2]))
            want_in = 2 if b['name'] == 'pcm_xfer' else 1
            ok = ins is not None and outs is not None and len(ins) == want_in and len(outs) == 1
            R.check(ok, 'Z5', '%s:shape' % b['name'], site(sg, a), '%d readable element(s), one writable status' % want_in,
                    '%s submits %s readable / %s writable elements' % (b['name'], len(ins) if ins is not None else None, len(outs) if outs is not None else None))
            if b['name'] == 'pcm_xfer_nb':
                # the non-blocking transfer takes exactly one period: the submission is reached only on the edge where the caller's
                # frame length equals the stream's configured *period* size (not the buffer size, which is a multiple of it)
                okp, seenp = False, None
                for swid, vals, succ in sg.guards_of(a.id):
                    d = S.operand(swid, sg.nodes[swid].d['discr'])
                    for x in [d] + [y for y in subterms(d)]:
                        # (assert_eq! compares through references to temporaries: resolved deeply)
                        dx = list(deep_subterms(S, x)) if x[0] == 'bin' and x[1] in ('Eq', 'Ne') else []
                        if any((y[0] == 'call' and y[2].endswith('::len')) or y[0] == 'ptrmeta' or (y[0] == 'un' and 'PtrMetadata' in str(y[1])) for y in dx) and \
                                any(y[0] == 'param' for y in dx):
                            flds = [pp[1] for y in dx if y[0] == 'loc' for pp in y[2] if pp[0] == 'f' and 'bytes' in pp[1]]
                            seenp = flds or seenp
                            if any('period' in f_ for f_ in flds) and not any('buffer' in f_ for f_ in flds):
                                okp = True
                R.check(okp, 'Z5', 'pcm_xfer_nb:one-period', site(sg, a), 'a non-blocking transfer is submitted only when the frame length equals the period size',
                        'pcm_xfer_nb compares the frame length with %s instead of the configured period size: chunks larger than a period reach the device' % (seenp or 'nothing'))
            if b['name'] == 'pcm_xfer':
                gs = sg.guards_of(a.id)
                good = False
                for swid, vals, succ in gs:
                    d = S.operand(swid, sg.nodes[swid].d['discr'])
                    if d[0] == 'bin' and d[1] in ('Ge', 'Gt', 'Lt', 'Le') and derives_from(d, lambda x: x[0] == 'call' and x[2].endswith('available_desc')):
                        c = fold_const(d[3]) if d[1] in ('Ge', 'Gt') else fold_const(d[2])
                        truth = (None in vals) or any(v != 0 for v in vals)
                        if d[1] == 'Ge' and c is not None and c >= 3 and truth:
                            good = True
                        if d[1] == 'Gt' and c is not None and c >= 2 and truth:
                            good = True
                R.check(good, 'Z5', 'pcm_xfer:capacity-guard', site(sg, a), 'add only when at least 3 descriptors are free', 'blocking PCM transfer adds without checking that 3 descriptors are free')
                # Z5 bookkeeping capacity: the local arrays that remember (token, buffer, status) of transfers in flight hold
                # one entry per outstanding chain; with indirect descriptors a chain occupies a single descriptor, so up to
                # SIZE - g + 1 chains can be outstanding under the guard `available_desc() >= g`
                import re as _re
                qsize = None
                try:
                    qsize = int(a.d.get('substs', [None, None])[1])
                except (TypeError, ValueError, IndexError):
                    pass
                gmin = None
                for swid, vals, succ in gs:
                    d = S.operand(swid, sg.nodes[swid].d['discr'])
                    if d[0] == 'bin' and d[1] in ('Ge', 'Gt') and derives_from(d, lambda x: x[0] == 'call' and x[2].endswith('available_desc')):
                        c = fold_const(d[3])
                        if c is not None:
                            gmin = c if d[1] == 'Ge' else c + 1
                book = {}
                pops = [n for n in sg.calls(lambda d: roles.get(d.get('fn')) == 'pop_used')]
                for cn in [a] + pops:
                    for ai in (1, 2, 3):
                        if ai >= len(cn.d['args']):
                            continue
                        t = S.operand(cn.id, cn.d['args'][ai])
                        for e in ([t] + (array_elems(S, t) or [])):
                            for x in deep_subterms(S, e):
                                if x[0] == 'loc' and x[1][0] == 'local' and x[2] and x[2][0][0] == 'idx':
                                    lty = sg.ctxs[x[1][1]].fn['locals'][x[1][2]]['ty']
                                    m = _re.match(r'^\[(.*); (\d+)\]$', lty)
                                    if m and not _re.match(r'^\[&', lty):
                                        book[(x[1][1], x[1][2])] = (sg.ctxs[x[1][1]].fn['locals'][x[1][2]].get('name') or '_%d' % x[1][2], int(m.group(2)))
                R.count('pcm_bookkeeping_arrays', len(book))
                if qsize is None or gmin is None or not book:
                    R.abstain('Z5', 'pcm_xfer:bookkeeping-capacity', 'queue size %s / guard %s / arrays %s not identified' % (qsize, gmin, sorted(book.values())), site(sg, a))
                else:
                    sf = F.consts.get('device::sound::SUPPORTED_FEATURES', {}).get('bits')
                    indirect_possible = sf is None or bool(int(sf) & (1 << 28))
                    per_chain = 1 if indirect_possible else (len(ins or []) + len(outs or []))
                    need = (qsize - gmin) // per_chain + 1
                    small = sorted((nm, ln) for nm, ln in book.values() if ln < need)
                    R.check(not small, 'Z5', 'pcm_xfer:bookkeeping-capacity', site(sg, a),
                            'in-flight bookkeeping arrays %s hold >= %d entries (queue size %d, add guarded by %d free descriptors)' % (sorted(book.values()), need, qsize, gmin),
                            'up to %d transfers can be outstanding (queue size %d, one descriptor per transfer when indirect descriptors are negotiated, add guarded by available_desc() >= %d) '
                            'but the in-flight bookkeeping arrays %s are smaller: entries of transfers still in flight are overwritten, so completions are matched to the wrong buffers' % (need, qsize, gmin, small))
                # chunking by the configured period
                ch = [n for n in sg.calls(lambda d: d.get('fn', '').endswith('::chunks'))]
                okc = False
                for c_ in ch:
                    sz = S.operand(c_.id, c_.d['args'][1])
                    if 'period_bytes' in fmt(sz) or any(x[0] in ('load', 'load0') and 'period' in fmt(x) for x in deep_subterms(S, sz)):
                        okc = True
                R.check(okc, 'Z5', 'pcm_xfer:period-chunks', fn_site(F, b['id']), 'frames are split in chunks of the configured period size', 'frames are not chunked by the configured period size')
                # each completion status compared with S_OK
                cm = False
                for m in sg.nodes:
                    if m.kind == 'switch':
                        d = S.operand(m.id, m.d['discr'])
                        if 'status' in fmt(d) and derives_from(d, lambda x: x[0] == 'bin' and x[1] in ('Ne', 'Eq')):
                            cm = True
                R.check(cm, 'Z2', 'sound:pcm_xfer:status-check', fn_site(F, b['id']), 'each transfer status compared with S_OK', 'PCM transfer statuses are not checked')


def z7_release_after_pop(F, R, M, roles):
    """Buffers of a transfer in flight (kept in maps keyed by the token) are released only once pop_used has succeeded: no
    map removal precedes the fallible pop on any path, so a poll that fails (not ready / other token) frees nothing the
    device still owns."""
    snd = 'device::sound::VirtIOSound'
    n = 0
    for b in F.bodies.values():
        if b.get('impl_adt') != snd or b['kind'] != 'AssocFn' or 'impl_trait' in b or not F.handwritten(b):
            continue
        if not any(bl['term']['k'] == 'call' and roles.get(bl['term'].get('fn')) == 'pop_used' for bl in b['blocks']):
            continue
        qids = set(roles) | set(x['id'] for x in queue_entry_points(F, M))
        sg = supergraph(F, b['id'], opaque=lambda t, bb: bb['id'] in qids, tag='c20z7')
        where = fn_site(F, b['id'])
        if back_edges(sg):
            continue
        try:
            paths = PathEnum(sg).run()
        except PathLimit as e:
            R.abstain('Z7', b['id'], str(e), where)
            continue
        rem = lambda e: e[0] == 'call' and 'collections::' in e[2] and e[2].rsplit('::', 1)[-1] in ('remove', 'remove_entry', 'pop_first', 'pop_last', 'clear', 'take')
        if not any(rem(e) for p in paths for e in p.effects):
            continue
        n += 1
        bad = None
        for p in paths:
            pk = [k for k, e in enumerate(p.effects) if e[0] == 'call' and roles.get(e[2]) == 'pop_used']
            rk = [k for k, e in enumerate(p.effects) if rem(e)]
            if pk and rk and min(rk) < pk[0]:
                bad = 'the entry is removed before pop_used is called'
            if rk and not pk:
                bad = 'an entry is removed on a path that never pops the token'
        R.check(bad is None, 'Z7', '%s:release-after-pop' % b['id'], where, 'in-flight buffers leave the bookkeeping only after pop_used',
                '%s: %s; when the pop fails (transfer not finished, or another token is next) the `?` return drops buffers the device still '
                'reads / writes and the transfer can never be reaped' % (b['name'], bad))
    R.count('pcm_release_fns', n)


def z8_pcm_complete(F, R, M, roles, rule='Z8'):
    """The blocking PCM transfer returns success only after every period was submitted: its Ok result is reachable only
    through the edge on which the chunk iterator is exhausted (a full queue alone is not a reason to stop)."""
    snd = 'device::sound::VirtIOSound'
    n = 0
    for b in F.bodies.values():
        if b.get('impl_adt') != snd or b['kind'] != 'AssocFn' or 'impl_trait' in b or not F.handwritten(b) or not has_loop(b):
            continue
        sg = supergraph(F, b['id'], tag='flat', max_depth=0)
        S = sg.sym
        if not any(True for _ in sg.calls(lambda d: roles.get(d.get('fn')) == 'add')) or not any(True for _ in sg.calls(lambda d: roles.get(d.get('fn')) == 'pop_used')):
            continue
        nexts = [c.id for c in sg.calls(lambda d: d.get('trait') == 'core::iter::Iterator' and d.get('method') == 'next' and 'Chunks' in (d.get('self_ty') or ''))]
        if not nexts:
            continue
        n += 1
        none_edges = set()
        for m in sg.nodes:
            if m.kind == 'switch':
                d = S.operand(m.id, m.d['discr'])
                if d[0] == 'discr' and d[1][0] == 'call' and d[1][1] in nexts:
                    explicit = [v_ for v_, _ in m.switch_edges if v_ is not None]
                    for val, sc in m.switch_edges:
                        if val == 0 or (val is None and 0 not in explicit):
                            none_edges.add((m.id, sc))
        oks = [m.id for m in sg.nodes if m.kind == 'assign' and not m.d['place']['p'] and m.d['place']['l'] == 0 and m.d['rv']['rv'] == 'agg'
               and m.d['rv'].get('variant') == 'Ok']
        reach = sg.reach_fwd([sg.entry], avoid_edges=none_edges)
        early = [m for m in oks if m in reach]
        R.check(bool(none_edges) and bool(oks) and not early, rule, '%s:returns-after-last-period' % b['id'], fn_site(F, b['id']),
                'Ok is reachable only after the chunk iterator is exhausted',
                '%s can return Ok without having exhausted the frames (e.g. when the queue is momentarily full and the ring indices coincide): the remaining '
                'periods are dropped and the requests still in flight are never popped - their buffers stay shared with the device' % b['name'])
    R.count('pcm_blocking_loops', n)


RTC = 'device::rtc::VirtIORtc'
RTC_MSG = {'VirtioRtcRespCfg': 0x1000, 'VirtioRtcRespClockCap': 0x1001, 'VirtioRtcRespCrossCap': 0x1002, 'VirtioRtcRespRead': 0x0001, 'VirtioRtcRespReadCross': 0x0002}
RTC_CLOCK = {'Utc': 0, 'Tai': 1, 'Monotonic': 2, 'UtcSmeared': 3, 'UtcMaybeSmeared': 4}
RTC_SMEAR = {'NoonLinear': 1, 'UtcSls': 2}


def z11_rtc(F, R, M, roles):
    """Clock driver (virtio-rtc): request codes by response structure, status check of the shared request helper, and the
    decoding of the capability response (clock type / smearing variant codes; smearing only decoded for a smeared clock)."""
    if RTC not in F.adts:
        return
    # the shared request helper: the private generic method that puts a request on the queue (whatever its type parameters are
    # called - a named parameter or an `impl Trait` argument)
    req = [b for b in F.bodies.values() if b.get('impl_adt') == RTC and F.handwritten(b) and b['kind'] == 'AssocFn' and not b.get('pub') and b.get('generics')
           and any(bl['term']['k'] == 'call' and roles.get(bl['term'].get('fn')) == 'add_notify_wait_pop' for bl in b['blocks'])]
    if len(req) != 1:
        raise Undecided('generic request helper of the clock driver not found')
    rid = req[0]['id']
    # status: Ok only for status 0
    sg = supergraph(F, rid, opaque=lambda t, bb: bb['id'] in roles, tag='z11')
    bad = None
    seen_ok = False
    for p in PathEnum(sg).run():
        if p.panicked or err_variant(p.ret) != 'Ok':
            continue
        seen_ok = True
        st = [c for c in p.conds if fmt(c[0]).endswith('.status')]
        if not st or any(c[1] != ('in', (0,)) for c in st):
            bad = 'an Ok result is returned on a path where the response status is %s' % ([c[1] for c in st] or 'not examined')
    R.check(seen_ok and bad is None, 'Z11', 'rtc:status-check', fn_site(F, rid), 'the response is returned only for status VIRTIO_RTC_S_OK (0)', 'clock request helper: %s' % bad)
    nops = 0
    for b in F.bodies.values():
        if b.get('impl_adt') != RTC or not F.handwritten(b) or b['kind'] != 'AssocFn' or not b.get('pub') or b['id'] == rid:
            continue
        sgo = supergraph(F, b['id'], opaque=lambda t, bb: bb['id'] == rid or bb['id'] in roles, tag='z11')
        S = sgo.sym
        calls = [n for n in sgo.calls(lambda d: d.get('fn') == rid)]
        if not calls:
            continue
        nops += 1
        for n in calls:
            rsp = [x.rsplit('::', 1)[1] for x in n.d.get('substs', []) if 'Resp' in x]
            want = RTC_MSG.get(rsp[0]) if rsp else None
            v = S.operand(n.id, n.d['args'][1])
            heads = [x for x in deep_subterms(S, v) if x[0] == 'agg' and x[1].endswith('::VirtioRtcReqHead')]
            got = fold_const(heads[0][2][0]) if heads and heads[0][2] else None
            if want is not None:
                R.check(got == want, 'Z11', 'rtc:%s:message-type' % b['name'], site(sgo, n), 'request for %s carries msg_type %#x' % (rsp[0], want),
                        '%s sends msg_type %s with a %s response, specification %#x' % (b['name'], hex(got) if got is not None else None, rsp[0] if rsp else '?', want))
        try:
            paths = [p for p in PathEnum(sgo).run() if not p.panicked and err_variant(p.ret) == 'Ok']
        except PathLimit:
            continue
        bad = None
        for p in paths:
            okv = p.ret[2][0]
            if okv[0] == 'agg' and okv[1].endswith('::ClockCapabilities'):
                f = dict(zip(okv[3], okv[2]))
                kind = [x for x in f.values() if x[0] == 'agg' and '::ClockType::' in x[1]]
                leap = [x for x in f.values() if x[0] == 'agg' and x[1].startswith('core::option::Option::')]
                tcond = [c for c in p.conds if fmt(c[0]).endswith('.type_') and c[1][0] == 'in' and len(c[1][1]) == 1]
                scond = [c for c in p.conds if fmt(c[0]).endswith('.leap_second_smearing') and c[1][0] == 'in' and len(c[1][1]) == 1]
                # alarm capability = bit 0 of the flags byte
                for fname_, fv in f.items():
                    if fv[0] != 'agg' and 'flags' in fmt(fv):
                        for flags in (0, 1, 2, 3, 0xff):
                            try:
                                got_ = Folder(lambda t, flags=flags: flags if fmt(t).endswith('.flags') else (_ for _ in ()).throw(Unfoldable(fmt(t)[:40]))).ev(fv)
                            except Unfoldable:
                                got_ = None
                            if got_ is not None and bool(got_) != bool(flags & 1):
                                bad = 'flags %#x reported as alarm capability = %s' % (flags, bool(got_))
                if kind:
                    kname = kind[0][1].rsplit('::', 1)[1]
                    if not tcond or tcond[-1][1][1][0] != RTC_CLOCK.get(kname):
                        bad = 'clock type code %s is reported as %s' % (tcond[-1][1][1][0] if tcond else '?', kname)
                if leap and leap[0][1].endswith('::Some'):
                    sv = leap[0][2][0][1].rsplit('::', 1)[1] if leap[0][2] and leap[0][2][0][0] == 'agg' else '?'
                    if not scond or scond[-1][1][1][0] != RTC_SMEAR.get(sv):
                        bad = 'smearing code %s is reported as %s' % (scond[-1][1][1][0] if scond else '?', sv)
                    if kind and kind[0][1].rsplit('::', 1)[1] != 'UtcSmeared':
                        bad = 'a smearing variant is reported for clock type %s (only the smeared-UTC type has one)' % kind[0][1].rsplit('::', 1)[1]
                    # decoded only on the "is a smeared clock" edge of the comparison of the clock type
                    for c in p.conds:
                        d = c[0]
                        if d[0] == 'bin' and d[1] in ('Eq', 'Ne') and 'ClockType' in fmt(d):
                            truth = (c[1][0] == 'notin' and 0 in c[1][1]) or (c[1][0] == 'in' and 0 not in c[1][1])
                            if (d[1] == 'Eq' and not truth) or (d[1] == 'Ne' and truth):
                                bad = 'a smearing variant is reported on the edge where the clock type is NOT the smeared-UTC type'
                if kind and kind[0][1].rsplit('::', 1)[1] == 'UtcSmeared' and scond and scond[-1][1][1][0] in RTC_SMEAR.values() and not (leap and leap[0][1].endswith('::Some')):
                    bad = 'the smearing variant of a smeared-UTC clock is not reported'
            elif okv[0] != 'agg':
                # scalar results (number of clocks, clock reading) come from the response
                if not derives_from(okv, lambda x: x[0] == 'call' and x[2] == rid):
                    bad = 'the returned value %s does not come from the device response' % fmt(okv)[:60]
        R.check(bad is None and bool(paths), 'Z11', 'rtc:%s:decode' % b['name'], fn_site(F, b['id']), 'response decoded per the virtio-rtc code tables',
                'clock driver %s: %s' % (b['name'], bad if bad else 'no successful path'))
    R.count('rtc_ops', nops)


def z13_stream_ids(F, R):
    """Stream ids handed to the caller are positions in the device's stream table: wherever the sound driver numbers
    streams with `enumerate`, the enumeration is applied to the table itself (a slice iterator), not to a filtered view."""
    snd = 'device::sound::VirtIOSound'
    n = 0
    for b in F.bodies.values():
        if b.get('impl_adt') != snd or not F.handwritten(b) or b['kind'] != 'AssocFn' or not b.get('pub') or 'Vec<u32>' not in b.get('sig', ''):
            continue
        en = [bl['term'] for bl in b['blocks'] if bl['term']['k'] == 'call' and bl['term'].get('trait') == 'core::iter::Iterator' and bl['term'].get('method') == 'enumerate']
        if not en:
            continue
        n += 1
        bad = [t.get('self_ty') for t in en if not (t.get('self_ty') or '').startswith('core::slice::Iter<')]
        R.check(not bad, 'Z13', '%s:ids-are-table-positions' % b['id'], fn_site(F, b['id']), 'enumerate is applied to the stream table itself',
                '%s numbers the elements of %s: the returned ids are positions in a filtered view, not the device\'s stream ids' % (b['name'], ((bad[0] if bad else None) or '?')[:80]))
    R.count('stream_id_fns', n)


def z14_gpu_serialise(F, R, M, roles):
    """The generic GPU request helpers put the request they were given on the queue: the buffer submitted as readable is a
    field of the driver into which the request parameter was serialised (write_to_prefix) beforehand, and the value
    returned comes from the buffer that was submitted as writable."""
    n = 0
    hs = set(x['id'] for x in gpu_helpers(F))
    for b in gpu_helpers(F):
        # a generic helper that merely forwards its request to another generic helper submits nothing itself
        sg = supergraph(F, b['id'], opaque=lambda t, bb: bb['id'] in roles or bb['id'] in hs, tag='z14')
        S = sg.sym
        subs = [c for c in sg.calls(lambda d: roles.get(d.get('fn')) == 'add_notify_wait_pop')]
        if len(subs) != 1:
            continue
        n += 1
        c = subs[0]
        ins = array_elems(S, S.operand(c.id, c.d['args'][1]))
        def fields_of(t):
            out = set()
            for x in deep_subterms(S, t):
                if x[0] == 'loc':
                    for pp in x[2]:
                        if pp[0] == 'f' and len(pp) > 2 and pp[2] == GPU:
                            out.add(pp[1])
            return out
        send_f = fields_of(ins[0]) if ins else set()
        ser = []
        for w in sg.calls(lambda d: d.get('fn', '').endswith('::write_to_prefix') or d.get('method') == 'write_to_prefix' or d.get('fn', '').endswith('::write_to')):
            src = S.operand(w.id, w.d['args'][0])
            dst = S.operand(w.id, w.d['args'][1])
            from_req = derives_from(src, lambda x: x == ('param', 2)) or any(x[0] == 'loc' and x[1] == ('local', 0, 2) for x in subterms(src))
            if from_req and fields_of(dst) & send_f:
                ser.append(w.id)
        ok = bool(send_f) and bool(ser) and sg.always_before(ser, c.id)
        R.check(ok, 'Z14', '%s:request-serialised' % b['id'], site(sg, c), 'the request parameter is written into the submitted buffer `%s` before submission' % sorted(send_f),
                '%s submits buffer %s without first serialising its request parameter into it: the device receives whatever the buffer held before' % (b['name'], sorted(send_f)))
    R.count('gpu_request_helpers', n)


def z15b_cached_capabilities(F, R):
    """Stream capabilities returned to the caller equal what the device reported: a list cached in the sound driver whose contents a
    public method hands out is only ever stored from the result of a device query - never a made-up value (an empty list stored
    when the query failed would be reported as "the device has no streams")."""
    snd = 'device::sound::VirtIOSound'
    if snd not in F.adts:
        return
    cand = [f_['name'] for f_ in F.adts[snd]['variants'][0]['fields'] if f_['ty'].startswith('core::option::Option<alloc::vec::Vec<')]
    handed = set()
    for b in F.bodies.values():
        if b.get('impl_adt') != snd or not b.get('pub') or b['kind'] != 'AssocFn' or not F.handwritten(b):
            continue
        sg = supergraph(F, b['id'], tag='flat', max_depth=0)
        S = sg.sym
        for r_ in sg.exits:
            rv = S.local_value(r_, 0, 0)
            if rv is None:
                continue
            for x in deep_subterms(S, rv):
                if x[0] == 'loc':
                    for pp in x[2]:
                        if pp[0] == 'f' and pp[1] in cand and len(pp) > 2 and pp[2] == snd:
                            handed.add(pp[1])
    n = 0
    for b in sorted(F.bodies.values(), key=lambda x: x['id']):
        if b.get('impl_adt') != snd or b['kind'] != 'AssocFn' or not F.handwritten(b):
            continue
        sg = supergraph(F, b['id'], tag='flat', max_depth=0)
        S = sg.sym
        for nd in sg.nodes:
            if nd.kind != 'assign' or not nd.d['place']['p'] or not isinstance(nd.d['place']['p'][-1], dict) or nd.d['place']['p'][-1].get('n') not in handed:
                continue
            v = S.rvalue(nd.id, nd.d['rv'])
            n += 1
            from_query = any(x[0] == 'call' and F.bodies.get(x[2], {}).get('impl_adt') == snd for x in deep_subterms(S, v))
            R.check(from_query, 'Z15', '%s:%s:cached-from-device' % (b['id'], nd.d['place']['p'][-1]['n']), site(sg, nd),
                    'the cached capability list is stored from a device query\'s result',
                    '%s stores %s into `%s`, whose contents public methods return as the device\'s stream capabilities: not what the device reported '
                    '(a failed query must be an error, not an empty list)' % (b['name'], fmt(v)[:60], nd.d['place']['p'][-1]['n']))
    R.count('cached_capability_stores', n)


def z15_sound_infos(F, R, M, roles):
    """Capability queries of the sound driver (jack / stream / channel-map infos): a query of `count` items starting at `start`
    is refused exactly when start + count exceeds the number the device has, every item of the response is decoded from its own
    slot of the response buffer and appended, and the element size sent equals the size of the decoded type."""
    snd = 'device::sound::VirtIOSound'
    if snd not in F.adts:
        return
    req = [b['id'] for b in F.bodies.values() if b.get('impl_adt') == snd and b['kind'] == 'AssocFn' and 'Req' in b.get('generics', [])]
    n = 0
    for b in F.bodies.values():
        if b.get('impl_adt') != snd or not F.handwritten(b) or b['kind'] != 'AssocFn' or b['arg_count'] != 3:
            continue
        sig = b.get('sig', '')
        if 'alloc::vec::Vec<device::sound::' not in sig.split('->')[-1] or not has_loop(b):
            continue
        sg = supergraph(F, b['id'], opaque=lambda t, bb: bb['id'] in req or bb['id'] in roles or (bb.get('impl_adt') == snd and bb['id'] != b['id']), tag='z15')
        S = sg.sym
        where = fn_site(F, b['id'])
        n += 1
        # refusal guard folded
        guard = None
        for m in sg.nodes:
            if m.kind == 'switch' and m.ctx == 0:
                d = S.operand(m.id, m.d['discr'])
                if d[0] == 'bin' and d[1] in ('Gt', 'Ge', 'Lt', 'Le') and any(x == ('param', 2) for x in subterms(d)) and any(x == ('param', 3) for x in subterms(d)) and \
                        any(x[0] in ('load', 'load0') for x in subterms(d)):
                    guard = (m, d)
                    break
        bad = None
        if guard is None:
            bad = 'no test of start + count against the number of items'
        else:
            m, d = guard
            errs = [x.id for x in sg.nodes if x.kind == 'assign' and x.d['rv']['rv'] == 'agg' and x.d['rv'].get('variant') == 'Err' and x.ctx == 0]
            for st_, cn_, tot in ((0, 0, 0), (0, 1, 1), (0, 2, 2), (1, 1, 2), (0, 3, 2), (2, 1, 2), (1, 2, 2), (0, 1, 0)):
                def leaf(t, st_=st_, cn_=cn_, tot=tot):
                    if t == ('param', 2):
                        return st_
                    if t == ('param', 3):
                        return cn_
                    if t[0] in ('load', 'load0'):
                        return tot
                    raise Unfoldable(fmt(t)[:60])
                try:
                    v = Folder(leaf).ev(d)
                except Unfoldable as e:
                    bad = 'cannot fold the range test: %s' % e
                    break
                explicit = [x for x, _ in m.switch_edges if x is not None]
                nxt = [sc for val, sc in m.switch_edges if (val is not None and val == v) or (val is None and v not in explicit)]
                # does the taken edge lead straight to an Err construction (before any request)?
                reqs = [c.id for c in sg.calls(lambda d_: d_.get('fn') in req)]
                reach = sg.reach_fwd(nxt, avoid=reqs)
                refused = any(e_ in reach for e_ in errs) and not any(r_ in sg.reach_fwd(nxt) and False for r_ in reqs) and not any(r_ in reach for r_ in reqs) and \
                    all(r_ not in sg.reach_fwd(nxt, avoid=errs) for r_ in reqs)
                if refused != (st_ + cn_ > tot):
                    bad = 'start=%d count=%d with %d items available is %s' % (st_, cn_, tot, 'refused' if refused else 'sent to the device')
                    break
        # the response is decoded only on the edge where its status equals Ok
        reads_ = [c.id for c in sg.calls(lambda d_: d_.get('fn', '').endswith('::read_from_bytes') or d_.get('method') == 'read_from_bytes')]
        reqs_ = [c.id for c in sg.calls(lambda d_: d_.get('fn') in req)]
        for m in sg.nodes:
            if m.kind != 'switch' or m.ctx != 0:
                continue
            d = S.operand(m.id, m.d['discr'])
            is_eq = (d[0] == 'bin' and d[1] == 'Eq') or (d[0] == 'call' and d[2] == 'core::cmp::PartialEq::eq')
            is_ne = (d[0] == 'bin' and d[1] == 'Ne') or (d[0] == 'call' and d[2] == 'core::cmp::PartialEq::ne')
            if not (is_eq or is_ne) or not any(x[0] == 'call' and x[1] in reqs_ for x in deep_subterms(S, d)):
                continue
            explicit = [x for x, _ in m.switch_edges if x is not None]
            for val, sc in m.switch_edges:
                truth = (val is not None and val != 0) or (val is None and 0 in explicit)
                equal = truth if is_eq else not truth
                reach = sg.reach_fwd([sc])
                if not equal and any(r_ in reach for r_ in reads_):
                    bad = bad or 'the response is decoded on the edge where its status differs from Ok (and refused when it is Ok)'
        # every decoded element is appended, inside the loop
        reads = [c for c in sg.calls(lambda d_: d_.get('fn', '').endswith('::read_from_bytes') or d_.get('method') == 'read_from_bytes')]
        pushes = [c for c in sg.calls(lambda d_: d_.get('fn', '').startswith('alloc::vec::Vec::') and d_['fn'].endswith('::push'))]
        pushed = [c for c in pushes if any(derives_from(S.operand(c.id, c.d['args'][1]), lambda x, r=r: x[0] == 'call' and x[1] == r.id) for r in reads)]
        if not reads or not pushed:
            bad = bad or 'decoded items: %d, appended: %d - the returned list does not contain what the device reported' % (len(reads), len(pushed))
        R.check(bad is None, 'Z15', '%s:info-query' % b['id'], where, 'refused iff start + count > available; every decoded item appended',
                'sound capability query %s: %s' % (b['name'], bad))
    R.count('sound_info_queries', n)


def z6_edid(F, R):
    parsers = [b for b in F.bodies.values() if F.handwritten(b) and 'gpu::edid' in b['id'] and b['kind'] == 'AssocFn' and 'Option<' in b.get('sig', '')
               and '[u8;' in b.get('sig', '') and b['arg_count'] == 1]
    n = 0
    for b in parsers:
        sg = supergraph(F, b['id'])
        where = fn_site(F, b['id'])
        try:
            paths = PathEnum(sg).run()
        except PathLimit as e:
            R.abstain('Z6', b['id'], str(e), where)
            continue
        two = '[u8; 2]' in b['sig']
        n += 1

        def run(bytes_):
            def leaf(t):
                if t[0] in ('load0', 'load'):
                    if 'promoted' in fmt(t):
                        return 0x0101
                    path = t[1][2]
                    if path and path[-1][0] in ('cidx', 'idx'):
                        i = path[-1][1] if path[-1][0] == 'cidx' else fold_const(path[-1][1])
                        if i is None:
                            raise Unfoldable(fmt(t)[:60])
                        return bytes_[i]
                    if not path and two:
                        return bytes_[0] | (bytes_[1] << 8)
                raise Unfoldable(fmt(t)[:80])
            fo = Folder(leaf)
            hit = [p for p in paths if path_holds(fo, p)]
            if len(hit) != 1:
                return ('paths', len(hit))
            p = hit[0]
            if p.panicked:
                return ('panic', p.end)
            r = p.ret
            if r[0] == 'agg' and r[1].endswith('::None'):
                return None
            st = r[2][0]
            return tuple(fo.ev(x) for x in st[2])
        bad = None
        rows = 0
        try:
            if two:
                RAT = {0: (10, 16), 1: (3, 4), 2: (4, 5), 3: (9, 16)}
                for b0 in range(256):
                    for code in range(4):
                        for low in (0, 1, 0x3f):
                            b1 = (code << 6) | low
                            rows += 1
                            got = run([b0, b1])
                            if b0 == 1 and b1 == 1:
                                want = None
                            else:
                                h = (b0 + 31) * 8
                                want = (h, h * RAT[code][0] // RAT[code][1])
                            if got != want:
                                bad = 'standard timing bytes %02x %02x: parsed as %s, E-EDID 3.9 gives %s' % (b0, b1, got, want)
                                break
                        if bad:
                            break
                    if bad:
                        break
            else:
                import random
                rnd = random.Random(5)
                samples = [[0] * 18, [0xff] * 18]
                for _ in range(300):
                    samples.append([rnd.randrange(256) for _ in range(18)])
                for i in (2, 4, 5, 7):
                    for v in (0x01, 0x0f, 0x10, 0xf0, 0x80):
                        x = [0] * 18
                        x[2], x[5] = 1, 1
                        x[i] = v
                        samples.append(x)
                # exactly one of the two active sizes zero: not a timing descriptor either
                for i in (2, 5):
                    x = [0] * 18
                    x[i] = 0x40
                    samples.append(x)
                    x = [0] * 18
                    x[i + 2] = 0x30
                    samples.append(x)
                for x in samples:
                    rows += 1
                    got = run(x)
                    h = x[2] | ((x[4] & 0xf0) << 4)
                    v = x[5] | ((x[7] & 0xf0) << 4)
                    want = None if (h == 0 or v == 0) else (h, v)
                    if got != want:
                        bad = 'detailed timing bytes[2,4,5,7]=%02x %02x %02x %02x: parsed as %s, E-EDID 3.10.2 gives %s' % (x[2], x[4], x[5], x[7], got, want)
                        break
        except Unfoldable as e:
            R.abstain('Z6', b['id'], 'cannot fold: %s' % e, where)
            continue
        R.tables += rows
        R.check(bad is None, 'Z6', '%s:decode' % b['id'], where, 'decodes every encoding as the E-EDID standard prescribes (%d rows)' % rows, 'EDID mode decoding: %s' % bad)
    R.count('edid_parsers', n)
