"""C05 - no lost wake-ups.

Decided:
 N1 decision function: should_notify is extracted as a guarded expression over (trusted avail index,
    used.avail_event, used.flags, event_idx flag).  Without event-idx it must equal (flags & 1) == 0 (folded over
    flag values); with event-idx the free-running indices may only meet through wrapping arithmetic (H-ctr) and
    the folded table must be true for every distance d = avail-event with (d-1) mod 2^16 < SIZE, i.e. whenever the
    device's event index lies among the entries a batch of up to SIZE submissions made available.
 N2 driver->device direction: the only avail.flags store is in set_dev_notify, value 0 (enable) / 1 (disable),
    performed when event-idx is off; pop_used with event-idx re-arms avail.used_event with the post-increment
    last-used index on its Ok path.
 N3 call-site protocol (typestate over every entry point of every driver and of the owning queue): after a
    successful add on queue object q, should_notify on q must follow and on its true edge Transport::notify(k)
    with k = the index q was constructed with, before the entry point returns or polls q for completion.
 N4 wait loops: no completion poll (can_pop/peek_used) on q while a submission on q is still un-notified.
 N5 every queue a driver can suppress interrupts on can be re-enabled (enable/disable siblings cover the same queues).
 N7 completion test wrap-safe: free-running indices only through wrapping arithmetic / equality (C03.E5) and can_pop folded
    over index pairs across the wrap (C03.E9).  N8 a blocking helper pops the token of its own add (C03.E8).
 N6 each queue is constructed with event_idx = contains(negotiated, EVENT_IDX) (C08.H3, bit 29).
 N9 transports' notify writes the queue index into the notification register / that queue's window slot (= C10.M2 / C11.W3).
 N10 constructors notify pre-filled queues only after DRIVER_OK (= C08.H1).
Not decided: device-side liveness.
"""
from .common import *
from ..paths import *

EXPLANATION = ("should_notify / set_dev_notify are path-enumerated into guarded closed-form expressions and folded over "
               "their finite domains (65536 index distances x queue sizes; flag values); the add -> should_notify -> notify "
               "protocol is a typestate automaton run as an edge-sensitive forward dataflow over the inlined MIR of every "
               "driver entry point, with queue objects identified by field path and queue indices recovered from the "
               "constructors.")
FLOORS = {'suppression_drivers': {'*': 4, 'noalloc': 3}, 'decision_fns': 1, 'add_sites': {'*': 8, 'noalloc': 3}, 'notify_sites': {'*': 8, 'noalloc': 3}, 'entry_points': {'*': 150, 'noalloc': 75},
          'protocol_entry_points': {'*': 17, 'noalloc': 6}}


def queue_api(F, M):
    """Classify queue-object API functions by what they do to device memory (not by name)."""
    api = {}
    for b in queue_api_entry_points(F, M):
        sg = supergraph(F, b['id'])
        acc = device_accesses(sg, M)
        live = sg.live_nodes()
        kinds = set()
        for a in acc:
            if a.node not in live:
                continue
            if a.kind == 'store' and a.area == 'avail.idx':
                kinds.add('publishes')
            if a.kind == 'load' and a.area in ('used.avail_event',):
                kinds.add('reads_event')
            if a.kind == 'load' and a.area == 'used.flags':
                kinds.add('reads_flags')
            if a.kind == 'load' and a.area == 'used.idx':
                kinds.add('reads_used_idx')
            if a.kind == 'store' and a.area == 'avail.flags':
                kinds.add('writes_avail_flags')
            if a.kind == 'store' and a.area == 'avail.used_event':
                kinds.add('writes_used_event')
            if a.kind == 'load' and a.area.startswith('used.ring'):
                kinds.add('reads_used_ring')
        tr = any(True for _ in transport_calls(sg))
        api[b['id']] = (kinds, tr, b)
    return api


def classify_api(api):
    roles = {}
    for fid, (kinds, tr, b) in api.items():
        ret_bool = b.get('sig', '').endswith('-> bool')
        if 'publishes' in kinds and tr:
            roles[fid] = 'add_notify_wait_pop'
        elif 'publishes' in kinds:
            roles[fid] = 'add'
        elif ('reads_event' in kinds or 'reads_flags' in kinds) and ret_bool and 'publishes' not in kinds:
            roles[fid] = 'should_notify'
        elif 'writes_avail_flags' in kinds:
            roles[fid] = 'set_dev_notify'
        elif 'reads_used_ring' in kinds and 'writes_used_event' in kinds:
            roles[fid] = 'pop_used'
        elif 'reads_used_ring' in kinds:
            roles[fid] = 'peek_used'
        elif 'reads_used_idx' in kinds and ret_bool:
            roles[fid] = 'can_pop'
    return roles


def trusted_avail_field(F, M, add_id):
    sg = supergraph(F, add_id)
    for a in device_accesses(sg, M):
        if a.kind == 'store' and a.area == 'avail.idx' and a.value is not None and a.value[0] == 'load':
            return a.value[1][2][-1][1]
    return None


def run(F, R):
    M = model(F)
    M.require_rings()
    api = queue_api(F, M)
    roles = classify_api(api)
    byrole = {}
    for k, v in roles.items():
        byrole.setdefault(v, []).append(k)
    # N13: what the driver notifies the device about has been made visible: the available index is published by a plain store (C02.O3)
    from .C02 import publication_rule
    guard(R, 'N13', 'publication', lambda: publication_rule(F, R, 'N13'))
    for need in ('add', 'should_notify', 'pop_used'):
        if need not in byrole:
            raise Undecided('queue API role %s not found' % need)
    add_id = byrole['add'][0]
    tfield = trusted_avail_field(F, M, add_id)
    for sn in byrole['should_notify']:
        R.count('decision_fns', 1)
        n1_decision(F, R, M, sn, tfield)
    n2_direction(F, R, M, byrole)
    n3_protocol(F, R, M, roles, byrole)
    n5_suppression_siblings(F, R, M, roles)
    # N6: each queue runs in the suppression mode that was negotiated: the event-index argument of every queue
    # construction is contains(negotiated features, EVENT_IDX) - with the wrong mode should_notify reads a field the
    # device never writes (shared with C08.H3)
    # N7/N8: blocking helpers return as soon as the device has served the request: the completion test is wrap-safe
    # (C03.E5 counters, C03.E9 truth table) and the helper waits for / pops its own token (C03.E8)
    from . import C03 as _c3
    _c3.counters_rule(F, R, 'N7')
    if 'can_pop' in byrole:
        _lf = _c3.last_used_field(F, M, byrole['can_pop'][0])
        if _lf:
            _c3.e9_can_pop(F, R, M, byrole['can_pop'][0], _lf, rule='N7')
    _c3.e8_helper_token(F, R, M, roles, rule='N8')
    # N12: "blocking helpers return as soon as the device has served the request" - and not before: the wait does not depend on the
    # notification decision (C03.E17)
    guard(R, 'N12', 'helper-waits', lambda: _c3.e17_helper_waits(F, R, M, roles, rule='N12'))
    # N9: "the device was told": each transport's notify writes the index of the queue that has new buffers (into the
    # notification register / that queue's slot of the notification window) - C10.M2 / C11.W3 notify traces
    transport_registration_rule(F, R, 'N9', op='notify')
    from . import C08 as _c8
    _qctor = [b['id'] for b in queue_entry_points(F, M) if b.get('sig', '').find('-> core::result::Result<%s<' % M.queue_adt) >= 0]
    # N11: the queue runs in the event-index mode it was constructed with: its mode flags are the constructor's arguments (C08.H3)
    guard(R, 'N11', 'ctor-flags', lambda: _c8.queue_ctor_flags(F, R, M, rule='N11'))
    # N10: a notification sent before DRIVER_OK is one the device may ignore: constructors kick their pre-filled queues only after
    # finish_init (C08.H1)
    _c8.h1_constructors(F, RuleProxy(R, {'H3': 'N6', 'H1': 'N10'}, only=lambda inst: inst.endswith('arg-29') or inst.endswith(':no-notify-before-driver-ok')), M, _qctor)


def n5_suppression_siblings(F, R, M, roles):
    """Device->driver direction at driver level: every queue whose interrupts a driver can suppress
    (set_dev_notify(false)) can be re-enabled by it (set_dev_notify(true)) - the enable/disable siblings cover the
    same queues.  A queue left suppressed never interrupts again: completions are only seen by polling."""
    sdn = set(k for k, v in roles.items() if v == 'set_dev_notify')
    if not sdn:
        # role by name-independent shape: queue method taking a bool that performs the only avail.flags store
        sdn = set(b['id'] for b in F.bodies.values() if b.get('impl_adt') in (M.queue_adt, M.owning_adt) and b['name'] == 'set_dev_notify')
    # forwarding wrappers of the owning queue (its set_dev_notify passes its flag on to the inner queue's)
    for b in F.bodies.values():
        if F.handwritten(b) and b.get('impl_adt') == M.owning_adt and 'bool' in b.get('sig', '') and \
                any(bl['term']['k'] == 'call' and bl['term'].get('fn') in sdn for bl in b['blocks']):
            sdn.add(b['id'])
    per = {}
    for b in F.bodies.values():
        if not F.handwritten(b) or b.get('impl_adt') in (M.queue_adt, M.owning_adt) or not b.get('impl_adt'):
            continue
        if not any(bl['term']['k'] == 'call' and bl['term'].get('fn') in sdn for bl in b['blocks']):
            continue
        sg = supergraph(F, b['id'], tag='flat', max_depth=0)
        S = sg.sym
        for n in sg.calls(lambda d: d.get('fn') in sdn):
            q = S.operand(n.id, n.d['args'][0])
            fld = None
            for x in subterms(q):
                if x[0] == 'loc' and x[2] and x[2][-1][0] == 'f' and x[2][-1][2] == b['impl_adt']:
                    fld = x[2][-1][1]
            v = strip_conv(S.operand(n.id, n.d['args'][1]))
            val = v[1] if v[0] == 'const' else None
            per.setdefault(b['impl_adt'], []).append((fld, val, b['id'], site(sg, n)))
    n = 0
    for adt, uses in sorted(per.items()):
        n += 1
        dis = set(f for f, v, _, _ in uses if v == 0)
        en = set(f for f, v, _, _ in uses if v == 1)
        var = set(f for f, v, _, _ in uses if v is None)
        missing = sorted(x for x in dis if x not in en and x not in var)
        where = [w for f, v, _, w in uses if f in missing and v == 0]
        R.check(not missing, 'N5', '%s:suppress-enable-siblings' % adt, where[0] if where else adt,
                'queues that can be suppressed %s can all be re-enabled %s' % (sorted(dis | var), sorted(en | var)),
                'interrupts of queue field(s) %s of %s can be suppressed (set_dev_notify(false)) but no method re-enables them (set_dev_notify(true) only on %s): '
                'after disable/enable the device keeps suppressing used-buffer notifications for that queue' % (missing, adt.rsplit('::', 1)[1], sorted(en)))
        # the reverse sibling: what can be enabled can be suppressed (a disable method that lost its set_dev_notify(false)
        # leaves the driver's suppression setting un-conveyed)
        missing2 = sorted(x for x in en if x not in dis and x not in var)
        where2 = [w for f, v, _, w in uses if f in missing2 and v == 1]
        R.check(not missing2, 'N5', '%s:enable-suppress-siblings' % adt, where2[0] if where2 else adt,
                'queues that can be enabled %s can all be suppressed %s' % (sorted(en | var), sorted(dis | var)),
                'interrupts of queue field(s) %s of %s can be enabled (set_dev_notify(true)) but no method suppresses them: the driver\'s '
                'interrupt-suppression request never reaches the device' % (missing2, adt.rsplit('::', 1)[1]))
    R.count('suppression_drivers', n)


# ------------------------------------------------------------------------------------------------ N1

def leafkind(M, t, tfield):
    """Classify an input leaf of the decision function."""
    if t[0] == 'call' and t[2].startswith(ATOMIC) and t[2].endswith('::load'):
        p = strip_ptr(t[3][0])
        if p[0] == 'ref':
            return M.loc_area(p[1])
    if t[0] == 'load0' and t[1][2] and t[1][2][-1][0] == 'f' and t[1][2][-1][2] == M.queue_adt:
        f = t[1][2][-1][1]
        if f == tfield:
            return 'avail'
        return 'field:' + f
    return None


def counters_in(M, t, tfield):
    return [x for x in subterms(t) if leafkind(M, x, tfield) in ('avail', 'used.avail_event')]


def hctr_violations(M, t, tfield):
    """Raw (non-wrapping) arithmetic or order comparison on free-running indices inside term t."""
    bad = []
    for x in subterms(t):
        if x[0] == 'bin':
            op = x[1]
            ca, cb = counters_in(M, x[2], tfield), counters_in(M, x[3], tfield)
            if op in ('Lt', 'Le', 'Gt', 'Ge'):
                if ca and cb:
                    # both sides carry a counter: only legal if one side is already a wrapping difference of both
                    bad.append(('order comparison of two free-running indices', x))
                elif (ca and not is_wrapping_diff(M, x[2], tfield)) or (cb and not is_wrapping_diff(M, x[3], tfield)):
                    bad.append(('order comparison of a raw free-running index against a bound', x))
            elif op in ('Add', 'Sub', 'Mul', 'AddWithOverflow', 'SubWithOverflow'):
                if ca or cb:
                    bad.append(('non-wrapping %s on a free-running index' % op, x))
    return bad


def is_wrapping_diff(M, t, tfield):
    """t combines counters only through wrapping_sub (possibly with wrapping_add of constants)."""
    t = strip_conv(t)
    if t[0] == 'call' and t[2].endswith('::wrapping_sub'):
        return True
    if t[0] == 'call' and t[2].endswith('::wrapping_add'):
        return any(is_wrapping_diff(M, a, tfield) for a in t[3])
    return False


def strip_conv(t):
    while isinstance(t, tuple) and t[0] in ('conv', 'idcall'):
        t = t[2]
    return t


def n1_decision(F, R, M, sn, tfield):
    sg = supergraph(F, sn)
    where = fn_site(F, sn)
    try:
        paths = [p for p in PathEnum(sg).run()]
    except PathLimit as e:
        R.abstain('N1', sn, str(e), where)
        return
    normal = [p for p in paths if not p.panicked and p.ret is not None]
    if not normal:
        R.abstain('N1', sn, 'no normal path', where)
        return
    # which boolean queue field selects the event-idx variant: the one tested on the path reading avail_event
    flagfield = None
    for p in normal:
        ks = set(leafkind(M, x, tfield) for x in subterms(p.ret))
        if 'used.avail_event' in ks:
            for disc, (kind, vals), _ in p.conds:
                lk = leafkind(M, disc, tfield)
                if lk and lk.startswith('field:'):
                    flagfield = lk[6:]
    if flagfield is None:
        R.violated('N1', '%s:event-idx-variant' % sn, where,
                   'no path of the notification test reads used.avail_event under a queue feature flag')
        return

    def evaluate(valuation, size):
        def leaf(t):
            lk = leafkind(M, t, tfield)
            if lk in valuation:
                return valuation[lk]
            if lk and lk.startswith('field:') and lk[6:] == flagfield:
                return valuation['ev']
            raise Unfoldable('leaf %s' % fmt(t))
        fo = Folder(leaf, generic={'SIZE': size})
        for p in paths:
            if path_holds(fo, p):
                if p.panicked or p.ret is None:
                    return 'panic'
                return fo.ev(p.ret)
        return 'nopath'

    # --- without event-idx: (flags & 1) == 0
    bad = None
    rows = 0
    try:
        for fl in (0, 1, 2, 3, 0x8000, 0xFFFE, 0xFFFF):
            for av in (0, 1, 65535):
                got = evaluate({'ev': 0, 'used.flags': fl, 'avail': av, 'used.avail_event': 7}, 4)
                rows += 1
                want = 1 if fl & 1 == 0 else 0
                if got != want:
                    bad = 'event_idx off, used.flags=%#x -> %s, expected %s' % (fl, got, bool(want))
                    break
            if bad:
                break
    except Unfoldable as e:
        R.abstain('N1', '%s:flags-variant' % sn, 'cannot fold: %s' % e, where)
        bad = 'abstain'
    R.tables += rows
    if bad != 'abstain':
        R.check(bad is None, 'N1', '%s:flags-variant' % sn, where,
                'without event-idx the test equals (used.flags & NO_NOTIFY) == 0 on %d rows' % rows,
                'notification test without event-idx is wrong: %s' % bad)
    # --- with event-idx
    ev_paths = [p for p in normal if 'used.avail_event' in set(leafkind(M, x, tfield) for x in subterms(p.ret))]
    hbad = []
    for p in ev_paths:
        hbad += hctr_violations(M, p.ret, tfield)
    sizes = [1, 2, 4, 8, 256, 32768]
    if hbad:
        # raw comparison: find a concrete counter-example near the wrap
        cex = None
        try:
            for size in (2, 4, 8):
                span = list(range(0, size + 1)) + list(range(65536 - size - 1, 65536))
                for av in span:
                    for evt in span:
                        rows += 1
                        d1 = (av - evt - 1) % 65536
                        if d1 < size:
                            got = evaluate({'ev': 1, 'used.flags': 0, 'avail': av, 'used.avail_event': evt}, size)
                            if got != 1:
                                cex = 'SIZE=%d avail_idx=%d avail_event=%d (batch of %d entries %d..%d since the last check): ' \
                                      'vring_need_event is true but should_notify() = %s' % (size, av, evt, d1 + 1, evt, (av - 1) % 65536, got)
                                break
                    if cex:
                        break
                if cex:
                    break
        except Unfoldable as e:
            cex = 'unfoldable (%s)' % e
        R.tables += rows
        what, x = hbad[0]
        R.violated('N1', '%s:event-idx-variant' % sn, where,
                   '%s: %s ; counter-example: %s' % (what, fmt(x), cex))
        return
    bad = None
    try:
        for size in sizes:
            for d in range(65536):
                rows += 1
                need = ((d - 1) % 65536) < size
                if not need:
                    continue
                for base in (0,):
                    got = evaluate({'ev': 1, 'used.flags': 1, 'avail': (base + d) % 65536, 'used.avail_event': base}, size)
                    if got != 1:
                        bad = 'SIZE=%d avail-event distance %d: notification needed but test = %s' % (size, d, got)
                        break
                if bad:
                    break
            if bad:
                break
        # spot-check independence of the base (H-ctr holds syntactically; this is a sanity fold)
        if not bad:
            for size in (4,):
                for base in (1, 32767, 65535, 65534):
                    for d in range(0, 12):
                        need = ((d - 1) % 65536) < size
                        got = evaluate({'ev': 1, 'used.flags': 1, 'avail': (base + d) % 65536, 'used.avail_event': base}, size)
                        rows += 1
                        if need and got != 1:
                            bad = 'SIZE=%d avail=%d event=%d: needed but %s' % (size, (base + d) % 65536, base, got)
    except Unfoldable as e:
        R.abstain('N1', '%s:event-idx-variant' % sn, 'cannot fold: %s' % e, where)
        return
    R.tables += rows
    R.check(bad is None, 'N1', '%s:event-idx-variant' % sn, where,
            'indices combined only with wrapping ops; table true for every needed distance (%d rows, sizes %s)' % (rows, sizes),
            'event-idx notification test misses a required notification: %s' % bad)


# ------------------------------------------------------------------------------------------------ N2

def n2_direction(F, R, M, byrole):
    sdn_fields, pu_fields = set(), set()
    for fid in byrole.get('set_dev_notify', []):
        sg = supergraph(F, fid)
        where = fn_site(F, fid)
        fn = sg.entry_fn
        bools = [i + 1 for i, l in enumerate(fn['locals'][1:fn['arg_count'] + 1]) if l['ty'] == 'bool']
        if len(bools) != 1:
            R.abstain('N2', fid, 'cannot identify the enable parameter', where)
            continue
        pe = bools[0]
        paths = PathEnum(sg).run()
        bad = None
        rows = 0
        flagfields = set()
        for p in paths:
            for disc, _, _ in p.conds:
                if disc[0] == 'load0' and disc[1][2] and disc[1][2][-1][0] == 'f':
                    flagfields.add(disc[1][2][-1][1])
        sdn_fields |= flagfields
        for enable in (0, 1):
            for evv in (0, 1):
                def leaf(t):
                    if t == ('param', pe):
                        return enable
                    if t[0] == 'load0' and t[1][2] and t[1][2][-1][1] in flagfields:
                        return evv
                    raise Unfoldable(fmt(t))
                fo = Folder(leaf)
                hit = [p for p in paths if path_holds(fo, p)]
                rows += 1
                if len(hit) != 1 or hit[0].panicked:
                    bad = 'enable=%d event_idx=%d: %d feasible paths' % (enable, evv, len(hit))
                    break
                stores = []
                for e in hit[0].effects:
                    if e[0] == 'call' and e[2].startswith(ATOMIC) and e[2].endswith('::store'):
                        ptr = strip_ptr(e[3][0])
                        if ptr[0] == 'ref' and M.loc_area(ptr[1]) == 'avail.flags':
                            stores.append(fo.ev(e[3][1]))
                if evv == 0:
                    want = [0 if enable else 1]
                    if stores != want:
                        bad = 'enable=%d without event-idx: avail.flags stores %s, expected %s' % (enable, stores, want)
                        break
            if bad:
                break
        R.tables += rows
        R.check(bad is None, 'N2', '%s:avail.flags' % fid, where,
                'avail.flags <- 0 on enable / 1 on disable when event-idx is off (%d rows)' % rows,
                'interrupt suppression setting is not what the device reads: %s' % bad)
    # who may write avail.flags
    writers = set()
    for b in F.bodies.values():
        if not F.handwritten(b):
            continue
        sg0 = supergraph(F, b['id'], tag='flat', max_depth=0)
        for a in device_accesses(sg0, M):
            if a.kind == 'store' and a.area == 'avail.flags':
                writers.add(b['id'])
    R.check(writers == set(byrole.get('set_dev_notify', [])) and writers, 'N2', 'who-may-write:avail.flags', '',
            'only writer: %s' % sorted(writers), 'avail.flags written by %s' % sorted(writers))
    # used_event re-arm in pop_used
    for fid in byrole.get('pop_used', []):
        sg = supergraph(F, fid)
        where = fn_site(F, fid)
        acc = device_accesses(sg, M)
        live = sg.live_nodes()
        S = sg.sym
        ue = [a for a in acc if a.kind == 'store' and a.area == 'avail.used_event' and a.node in live]
        if not ue:
            R.violated('N2', '%s:used_event' % fid, where, 'completion consumption never re-arms avail.used_event')
            continue
        a = ue[0]
        v = a.value
        fld = v[1][2][-1][1] if v and v[0] == 'load' else None
        mv = mem_value(sg, v[1], a.node) if fld else None
        inc = mv is not None and mv[0] == 'call' and mv[2].endswith('::wrapping_add') and const_int(mv[3][1]) == 1 and \
            mv[3][0][0] == 'load' and mv[3][0][1] == v[1]
        # guarded by a true queue flag, and reaching the Ok return
        gs = sg.guards_of(a.node)
        flagged = False
        for swid, vals, succ in gs:
            d = S.operand(swid, sg.nodes[swid].d['discr'])
            if d[0] == 'load' and d[1][2] and d[1][2][-1][0] == 'f' and d[1][2][-1][2] == M.queue_adt and (None in vals or any(x != 0 for x in vals)):
                flagged = True
                pu_fields.add(d[1][2][-1][1])
        R.check(inc and flagged, 'N2', '%s:used_event' % fid, site(sg, a.node),
                'avail.used_event <- post-increment last-used index (%s), under the event-idx flag' % fmt(v),
                'used_event re-arm is wrong: value=%s (post-increment=%s) guarded-by-flag=%s' % (fmt(mv) if mv else fmt(v), inc, flagged))
        # the re-arm must be on every Ok path when the flag is set: the only way to skip it is the flag's false edge
        oks = [n for n in sg.nodes if n.ctx == 0 and n.kind == 'assign' and not n.d['place']['p'] and n.d['place']['l'] == 0
               and n.d['rv']['rv'] == 'agg' and n.d['rv'].get('variant') == 'Ok' and n.id in live]
        for o in oks:
            skip_edges = []
            for swid, vals, succ in gs:
                skip_edges += [(swid, s) for s in sg.nodes[swid].succ if s != succ]
            # removing the flag's false edge, every path to Ok passes the store
            r = sg.reach_fwd([sg.entry], avoid=[a.node], avoid_edges=skip_edges)
            R.check(o.id not in r, 'N2', '%s:used_event-on-every-ok' % fid, site(sg, o),
                    'with the flag set every Ok path re-arms used_event',
                    'an Ok return of the completion path skips the used_event re-arm although event-idx is on')
    # sibling agreement: the two event-idx decisions of the driver side (interrupt suppression through avail.flags, re-arming
    # used_event) are taken on one queue flag - a suppression setting gated by another flag is not what the device reads
    if sdn_fields and pu_fields:
        R.check(bool(sdn_fields & pu_fields), 'N2', 'event-idx-flag:one-field', '',
                'set_dev_notify and pop_used gate their event-idx behaviour on the same queue field',
                'the avail.flags store is gated by queue field(s) %s but the used_event re-arm by field(s) %s: without event-idx '
                'the suppression setting is not written' % (sorted(sdn_fields), sorted(pu_fields)))


# ------------------------------------------------------------------------------------------------ N3 / N4

def objkey(t):
    """Stable key of a queue object from the receiver operand term."""
    t = strip_ptr(t)
    if t[0] == 'ref':
        loc = t[1]
        root = loc[1]
        path = tuple(p[1] for p in loc[2] if p[0] == 'f')
        if root[0] == 'deref':
            r = strip_ptr(root[1])
            if r[0] == 'param':
                return ('self%d' % r[1],) + path
            return ('obj', fmt(r)) + path
        if root[0] == 'local':
            return ('local', root[1], root[2]) + path
    if t[0] == 'param':
        return ('self%d' % t[1],)
    return ('unk', fmt(t)[:60])


def n3_protocol(F, R, M, roles, byrole):
    add_ids = set(byrole['add'])
    sn_ids = set(byrole['should_notify'])
    wait_ids = set(byrole.get('can_pop', []) + byrole.get('peek_used', []))
    anwp_ids = set(byrole.get('add_notify_wait_pop', []))
    qctor = [b['id'] for b in queue_entry_points(F, M) if b['name'] == 'new' or ('-> core::result::Result<queue::' in b.get('sig', '') and 'Self' in b.get('sig', ''))]
    qctor = [b['id'] for b in queue_entry_points(F, M) if b.get('sig', '').find('-> core::result::Result<%s<' % M.queue_adt) >= 0]
    # owning-queue wrappers: methods of the owning ADT that only delegate should_notify
    own_sn = set()
    own_new = set()
    own_self_contained = set()
    if M.owning_adt:
        for b in F.bodies.values():
            if b.get('impl_adt') == M.owning_adt and 'impl_trait' not in b and F.handwritten(b):
                sg = supergraph(F, b['id'], opaque=lambda t, bb: bb['id'] in roles, tag='n3own')
                callees = set(n.d.get('fn') for n in sg.calls())
                tr = any(True for _ in transport_calls(sg))
                if callees & sn_ids and not (callees & add_ids) and not tr:
                    own_sn.add(b['id'])
                elif callees & add_ids and not tr and not has_transport_param(b):
                    # submits but has no transport to kick with: the obligation passes to its caller
                    own_new.add(b['id'])
                elif (tr or has_transport_param(b)) and b.get('reachable'):
                    own_self_contained.add(b['id'])
    opaque_ids = set(roles) | own_sn | own_new | own_self_contained | set(qctor)

    def opaque(t, body):
        return body['id'] in opaque_ids

    # queue-index map per ADT field: from constructor aggregates
    idxmap = build_index_map(F, M, qctor, own_new, opaque)

    entries = []
    for b in F.bodies.values():
        if not F.handwritten(b) or b['kind'] == 'Closure':
            continue
        if not (b.get('reachable') or b.get('pub')):
            continue
        if b['id'] in roles and roles[b['id']] != 'add_notify_wait_pop':
            continue
        if b['id'] in own_sn or b['id'] in own_new:
            continue
        if b.get('impl_trait') in ('core::fmt::Debug', 'core::ops::Drop'):
            continue
        entries.append(b)
    n_add = n_notify = 0
    checked = 0
    for b in entries:
        op = opaque
        if b['id'] in opaque_ids:
            op = lambda t, body, me=b['id']: body['id'] in opaque_ids and body['id'] != me
        sg = supergraph(F, b['id'], opaque=op, tag='n3:' + b['id'])
        calls = list(sg.calls())
        adds = [n for n in calls if n.d.get('fn') in add_ids or n.d.get('fn') in own_new]
        if not adds:
            continue
        checked += 1
        n_add += len(adds)
        n_notify += len([n for n in calls if n.d.get('trait') == TRANSPORT and n.d.get('method') == 'notify'])
        run_typestate(F, R, M, sg, b, add_ids, sn_ids | own_sn, wait_ids, own_new, idxmap)
    R.count('add_sites', n_add)
    R.count('notify_sites', n_notify)
    R.count('entry_points', len(entries))
    R.count('protocol_entry_points', checked)


def build_index_map(F, M, qctor, own_new, opaque):
    """(adt, field) -> queue index constant, from aggregates that construct driver objects."""
    idxmap = {}
    for b in F.bodies.values():
        if not F.handwritten(b):
            continue
        has = False
        for bl in b['blocks']:
            for st in bl['stmts']:
                if st['k'] == 'assign' and st['rv']['rv'] == 'agg' and st['rv'].get('kind') == 'adt' and st['rv']['adt'] in F.adts \
                        and st['rv']['adt'] == b.get('impl_adt'):
                    has = True
        if not has:
            continue
        sg = supergraph(F, b['id'], opaque=opaque, tag='n3ctor')
        S = sg.sym
        for n in sg.nodes:
            if n.ctx == 0 and n.kind == 'assign' and n.d['rv']['rv'] == 'agg' and n.d['rv'].get('kind') == 'adt' and n.d['rv']['adt'] == b.get('impl_adt'):
                rv = n.d['rv']
                for fname, op in zip(rv['fields'], rv['ops']):
                    t = S.operand(n.id, op)
                    k = queue_index_of_term(sg, t, qctor)
                    if k is not None:
                        idxmap[(rv['adt'], fname)] = k
    return idxmap


def queue_index_of_term(sg, t, qctor, depth=0):
    """Queue index constant of an object term: the idx argument of the queue constructor it derives from."""
    S = sg.sym
    found = set()
    for x in subterms(t):
        if x[0] == 'call' and x[2] in qctor and len(x[3]) > 1:
            c = const_int(x[3][1])
            if c is None:
                c = fold_const(x[3][1]) if isinstance(x[3][1], tuple) else None
            found.add(c)
        if x[0] == 'load' and x[1][0] == 'loc' and x[1][1][0] == 'local' and depth < 4:
            # a memory local: look at its whole-assignments
            _, ctx, l = x[1][1]
            for dn, part in S.defs.get((ctx, l), []):
                if not part:
                    v = S.def_value(dn, ctx, l)
                    k = queue_index_of_term(sg, v, qctor, depth + 1)
                    if k is not None:
                        found.add(k)
    found.discard(None)
    if len(found) == 1:
        return found.pop()
    return None


def run_typestate(F, R, M, sg, b, add_ids, sn_ids, wait_ids, own_new, idxmap):
    S = sg.sym
    eid = b['id']
    adt = b.get('impl_adt')
    has_transport = any(True for _ in transport_calls(sg)) or adt_has_transport(F, adt) or has_transport_param(b)
    # alias map for objects created in this function (locals receiving a queue object)
    # state: frozenset of (q, st, info)
    IN = {sg.entry: frozenset()}
    work = [sg.entry]
    viol = {}
    node_q = {}

    def key_of_call(n):
        k = node_q.get(n.id)
        if k is None:
            k = objkey(S.operand(n.id, n.d['args'][0])) if n.d['args'] else ('unk',)
            node_q[n.id] = k
        return k

    byfield = {}
    for (a_, f_), k_ in idxmap.items():
        byfield.setdefault(f_, set()).add(k_)

    def qidx(q, n):
        fields = [p for p in q[1:] if isinstance(p, str)]
        if adt in (M.queue_adt, M.owning_adt) and q and q[0].startswith('self'):
            return ('own', q)
        # follow the field chain through the struct types: self.inner.rx_queue -> (type of `inner`, 'rx_queue')
        cur = adt
        if q and q[0] == 'local' and len(q) > 2 and isinstance(q[1], int) and isinstance(q[2], int):
            try:
                lt = sg.ctxs[q[1]].fn['locals'][q[2]]['ty'].lstrip('&').replace('mut ', '')
                cur = lt.split('<', 1)[0]
            except (IndexError, KeyError):
                pass
        for f_ in fields:
            if cur and (cur, f_) in idxmap:
                return idxmap[(cur, f_)]
            nxt = None
            if cur in F.adts and F.adts[cur].get('variants'):
                for fd in F.adts[cur]['variants'][0]['fields']:
                    if fd['name'] == f_:
                        ty = fd['ty'].lstrip('&').replace('mut ', '')
                        nxt = ty.split('<', 1)[0]
            cur = nxt
        for f_ in reversed(fields):
            if adt and (adt, f_) in idxmap:
                return idxmap[(adt, f_)]
            if len(byfield.get(f_, ())) == 1:
                return next(iter(byfield[f_]))
        if q and q[0].startswith('self') and adt:
            # object is the queue itself inside the owning/queue impl
            return ('own', q)
        if q and q[0] == 'local':
            t = ('load', ('loc', ('local', q[1], q[2]), ()))
            return queue_index_of_term(sg, t, [x for x in F.bodies if F.bodies[x].get('impl_adt') == M.queue_adt])
        return None

    def set_state(st, q, new):
        return frozenset([x for x in st if x[0] != q] + [(q,) + new])

    def get(st, q):
        for x in st:
            if x[0] == q:
                return x
        return (q, 'I')

    def flow_call(n, st):
        d = n.d
        fn = d.get('fn')
        if fn in add_ids:
            q = key_of_call(n)
            prev = get(st, q)[1]
            prev = 'P' if prev in ('P', 'N', 'S', 'A') else 'I'
            return set_state(st, q, ('A', n.id, prev))
        if fn in own_new:
            # creates an owning queue with SIZE pending submissions; the object is the result
            q = ('ret', n.id)
            return set_state(st, q, ('A', n.id, 'I'))
        if fn in sn_ids:
            q = resolve_alias(st, key_of_call(n), n)
            cur = get(st, q)
            if cur[1] in ('P', 'A', 'N', 'S'):
                return set_state(st, q, ('S', n.id))
            return st
        if d.get('trait') == TRANSPORT and d.get('method') == 'notify':
            kt = S.operand(n.id, d['args'][1])
            k = const_int(kt)
            if k is None:
                k = fold_const(kt)
            out = st
            for x in st:
                if x[1] in ('N', 'P', 'S', 'A'):
                    qi = qidx_cached(x[0], n)
                    match = False
                    if k is not None and qi == k:
                        match = True
                    elif k is None and isinstance(qi, tuple) and qi[0] == 'own':
                        # notify(load(q.queue_idx)): the index field of the same object
                        match = derives_from(kt, lambda y: y[0] == 'loc' and tuple(p[1] for p in y[2] if p[0] == 'f')[:len(x[0]) - 1] == x[0][1:])
                    elif qi is None:
                        match = None
                    if match:
                        out = set_state(out, x[0], ('I',))
                    elif match is None:
                        out = set_state(out, x[0], ('I',))
                        viol.setdefault(('idx-unknown', x[0]), n.id)
                    else:
                        viol.setdefault(('wrong-queue', x[0], k, qi if not isinstance(qi, tuple) else 'own'), n.id)
            return out
        if fn in wait_ids:
            q = resolve_alias(st, key_of_call(n), n)
            cur = get(st, q)
            if cur[1] in ('P', 'N', 'S') or (cur[1] == 'A'):
                viol.setdefault(('wait-while-pending', q, cur[1]), n.id)
            return st
        return st

    _qidx = {}

    def qidx_cached(q, n):
        if q not in _qidx:
            if q[0] == 'ret':
                # owning queue created here: index from the constructor argument
                cn = sg.nodes[q[1]]
                t = S.operand(cn.id, cn.d['args'][0]) if cn.d['args'] else ('unknown',)
                _qidx[q] = queue_index_of_term(sg, t, [x for x in F.bodies if F.bodies[x].get('impl_adt') == M.queue_adt])
            else:
                _qidx[q] = qidx(q, n)
        return _qidx[q]

    def resolve_alias(st, q, n):
        # a local holding the result of an owning-queue constructor
        if q and q[0] == 'local':
            t = ('load', ('loc', ('local', q[1], q[2]), ()))
            for x in st:
                if x[0][0] == 'ret':
                    if term_derives_from_call(sg, q, x[0][1]):
                        return x[0]
        return q

    def edge_states(n, st):
        """Edge-sensitive refinement at a switch on an add / should_notify result."""
        d = S.operand(n.id, n.d['discr'])
        d0 = strip_conv2(d)
        res = {}
        target_call = None
        kind = None
        def through_ok(t):
            # `r.ok()` / `r.ok()?`: Some <=> Ok - the success edge of the Option is the success edge of the Result
            t = strip_conv2(t)
            if t[0] == 'call' and t[2].startswith('core::result::Result::') and t[2].endswith('::ok') and t[3] and strip_conv2(t[3][0])[0] == 'call':
                return strip_conv2(t[3][0]), True
            return t, False
        opt = False
        if d0[0] == 'call':
            target_call, kind = d0[1], 'bool'
        elif d0[0] == 'discr':
            inner = d0[1]
            if inner[0] == 'trybranch' and through_ok(inner[2])[0][0] == 'call':
                target_call, kind = through_ok(inner[2])[0][1], 'try'
            elif through_ok(inner)[0][0] == 'call':
                tc, opt = through_ok(inner)
                target_call, kind = tc[1], 'result'
        if target_call is None:
            return None
        items = [x for x in st if len(x) > 2 and x[2] == target_call]
        if not items:
            return None
        for val, succ in n.switch_edges:
            s2 = st
            for x in items:
                if x[1] == 'S' and kind == 'bool':
                    truth = (val is None or val != 0)
                    s2 = set_state(s2, x[0], ('N',) if truth else ('I',))
                elif x[1] == 'A' and kind in ('try', 'result'):
                    okedge = (val == 0) if not opt else (val == 1)      # Option: Some = 1
                    s2 = set_state(s2, x[0], ('P',) if okedge else (x[3],))
            res[succ] = res.get(succ, frozenset()) | s2
        return res

    while work:
        nid = work.pop()
        st = IN[nid]
        n = sg.nodes[nid]
        outs = None
        if n.kind == 'call' and n.inl is None:
            st2 = flow_call(n, st)
            outs = {s: st2 for s in n.succ}
        elif n.kind == 'switch':
            outs = edge_states(n, st)
            if outs is None:
                outs = {s: st for s in n.succ}
        else:
            outs = {s: st for s in n.succ}
        for s, so in outs.items():
            old = IN.get(s)
            new = so if old is None else merge(old, so)
            if new != old:
                IN[s] = new
                work.append(s)
    # exits: for Result-returning entry points only the non-error returns are obligations (a failed
    # constructor / operation hands nothing to the device that would need a kick)
    finals = []
    returns_result = '-> core::result::Result<' in b.get('sig', '')
    if returns_result:
        for n in sg.nodes:
            if n.ctx == 0 and n.kind == 'assign' and not n.d['place']['p'] and n.d['place']['l'] == 0:
                rv = n.d['rv']
                if rv['rv'] == 'agg' and rv.get('adt') == 'core::result::Result' and rv.get('variant') == 'Err':
                    continue
                finals.append(n.id)
            if n.ctx == 0 and n.kind == 'ret' and sg.nodes[n.d['call']].d['dest']['l'] == 0 and not sg.nodes[n.d['call']].d['dest']['p']:
                finals.append(n.id)
            if n.ctx == 0 and n.kind == 'call' and n.inl is None and n.d['dest']['l'] == 0 and not n.d['dest']['p'] \
                    and not (n.d.get('trait') == 'core::ops::FromResidual'):
                finals.append(n.id)
    else:
        finals = list(sg.exits)
    for e in finals:
        st = IN.get(e)
        if st is None:
            continue
        for x in st:
            if x[1] in ('P', 'N', 'S') or (x[1] == 'A'):
                if has_transport:
                    viol.setdefault(('return-while-pending', x[0], x[1]), x[2] if len(x) > 2 and isinstance(x[2], int) else e)
    for v, nid in viol.items():
        kind = v[0]
        q = v[1]
        qn = '.'.join(str(p) for p in q if not isinstance(p, int))
        if kind == 'return-while-pending':
            msg = {'P': 'returns with a submission on queue `%s` that was never checked with should_notify / notified',
                   'A': 'returns with a submission on queue `%s` that was never checked with should_notify / notified',
                   'S': 'should_notify on queue `%s` is not branched on / its true edge has no Transport::notify',
                   'N': 'should_notify returned true for queue `%s` but no Transport::notify follows before return'}[v[2]] % qn
            R.violated('N3', '%s:%s:%s' % (eid, qn, kind), site(sg, nid), msg)
        elif kind == 'wrong-queue':
            R.violated('N3', '%s:%s:%s' % (eid, qn, kind), site(sg, nid),
                       'Transport::notify(%s) while the pending submission is on queue `%s` (constructed with index %s)' % (v[2], qn, v[3]))
        elif kind == 'wait-while-pending':
            R.violated('N4', '%s:%s:%s' % (eid, qn, kind), site(sg, nid),
                       'completion poll on queue `%s` while its last submission has not been notified (state %s): the wait can '
                       'never be satisfied by a device that serves on notification only' % (qn, v[2]))
        elif kind == 'idx-unknown':
            R.abstain('N3', '%s:%s:index' % (eid, qn), 'cannot recover the index queue `%s` was constructed with' % qn, site(sg, nid))
    if not [v for v in viol if v[0] != 'idx-unknown']:
        R.held('N3', '%s:protocol' % eid, fn_site(F, eid), 'every successful add is followed by should_notify and a matching notify before return/poll')


def merge(a, b):
    """Join: per queue object keep the worst state (union of possibilities, represented by priority)."""
    pr = {'I': 0, 'A': 3, 'P': 4, 'S': 2, 'N': 5}
    d = {}
    for x in list(a) + list(b):
        cur = d.get(x[0])
        if cur is None or pr[x[1]] > pr[cur[1]]:
            d[x[0]] = x
    return frozenset(d.values())


def strip_conv2(t):
    while isinstance(t, tuple) and t[0] in ('conv', 'idcall'):
        t = t[2]
    return t


def term_derives_from_call(sg, q, callnode):
    S = sg.sym
    _, ctx, l = q[0], q[1], q[2]
    for dn, part in S.defs.get((ctx, l), []):
        if not part:
            v = S.def_value(dn, ctx, l)
            if derives_from(v, lambda x: x[0] == 'call' and x[1] == callnode):
                return True
    return False


_adt_tr = {}


def has_transport_param(b):
    """A parameter of the function is (a reference to) a type bound by Transport: the function *can* notify."""
    tb = set(x[0] for x in b.get('bounds', []) if x[1] == TRANSPORT)
    for l in b['locals'][1:b['arg_count'] + 1]:
        ty = l['ty']
        while ty.startswith('&'):
            ty = ty[1:].lstrip()
            if ty.startswith('mut '):
                ty = ty[4:]
        if ty in tb:
            return True
    return False


def adt_has_transport(F, adt):
    """The ADT stores a value on which Transport methods are called by its own methods."""
    if adt is None:
        return False
    k = (id(F), adt)
    if k in _adt_tr:
        return _adt_tr[k]
    r = False
    for b in F.bodies.values():
        if b.get('impl_adt') == adt and F.handwritten(b):
            for bl in b['blocks']:
                t = bl['term']
                if t['k'] == 'call' and t.get('trait') == TRANSPORT:
                    a0 = t['args'][0] if t['args'] else None
                    pl = (a0.get('move') or a0.get('copy')) if a0 else None
                    # receiver is a borrow of a field of self
                    if pl is not None:
                        for bl2 in b['blocks']:
                            for st in bl2['stmts']:
                                if st['k'] == 'assign' and st['place']['l'] == pl['l'] and not st['place']['p'] and st['rv']['rv'] == 'ref':
                                    pp = st['rv']['place']
                                    if pp['l'] == 1 and any(isinstance(x, dict) and 'n' in x for x in pp['p']):
                                        r = True
    _adt_tr[k] = r
    return r
