"""C03 - completions consumed exactly once; descriptor counts exact.

Decided:
 E1 refusals are effect-free: every path of add returning Err and of pop_used returning Err(NotReady/WrongToken)
    performs no store, no Hal call and no leak.
 E2 consumption order on the Ok path of pop_used: acquire test of used.idx -> id/len loaded from slot
    (last_used & (SIZE-1)) of the pre-increment index -> the *id* is compared with the token parameter -> the chain is
    released -> last_used = wrapping_add(last_used, 1) -> Ok(len) where len derives from the loaded length.
 E3 capacity predicate: the refusal predicate of add, extracted as a guarded expression over
    (len(inputs), len(outputs), in-use count, SIZE, indirect flag), is folded for SIZE in {1,2,4,8,16} and all
    counts and compared with the specification-level predicate, including which submission form is chosen.
 E4 accounting sites: the in-use counter is written only on the add / release super-graphs and by the constructor.
 E6 <shape> free-list relink: when a direct chain is released, the test that decides whether the released descriptor is
    the chain's tail (and must be linked to the old free-list head) examines the link read from that descriptor in the
    same loop iteration, never the loop-initial or previous cursor value.
 E5 wrap-safe indices (H-ctr): the free-running ring indices are never order-compared raw and never combined with
    non-wrapping arithmetic anywhere in the queue code.
 E10 descriptor fields are overwritten on reuse, flags = extra | WRITE-iff-device-writable for every old value (C01.F1).
 E8 a blocking helper pops the token its own add returned (token provenance).  E9 can_pop is folded over pairs of index
    values including across the wrap: true iff they differ.
 E7 free-descriptor query: available_desc is folded over (in-use count, indirect flag, SIZE): it reports 0 exactly
    when every descriptor is in use and, for queues without indirect descriptors, exactly SIZE - in-use.
 E12 driver level: bookkeeping keyed by a token is released only after the fallible pop succeeded (= C20.Z7).
Not decided: exactly-once over histories (needs the free-list heap invariant).
"""
from .common import *
from ..paths import *
from . import C05

EXPLANATION = ("add and pop_used are path-enumerated (loop-containing helpers kept opaque) into guarded expressions; refusal "
               "paths are checked effect-free; the capacity predicate is folded over all (SIZE<=16, in-use, #inputs, #outputs, "
               "indirect) combinations against the specification predicate; the consumption path is checked for order and "
               "provenance; free-running indices are checked for wrapping-only arithmetic in every queue function.")
FLOORS = {'used_ring_reads': 2, 'free_queries': 1, 'add_paths': 2, 'pop_paths': 2, 'capacity_rows': 1000, 'counter_ops': 2, 'helper_pops': 1}


@shared_rule
def counters_rule(F, R, rule):
    """E5 under another property's rule name (the free-running indices decide whether a completion is seen at all)."""
    M = model(F)
    M.require_rings()
    roles = C05.classify_api(C05.queue_api(F, M))
    by = {}
    for k, v in roles.items():
        by.setdefault(v, []).append(k)
    if 'add' not in by or 'can_pop' not in by:
        raise Undecided('queue API roles add/can_pop not found')
    tfield = C05.trusted_avail_field(F, M, by['add'][0])
    lfield = last_used_field(F, M, by['can_pop'][0])
    if lfield is None:
        raise Undecided('cannot identify the last-used index field')
    e5_counters(F, R, M, tfield, lfield, rule=rule)


@shared_rule
def pop_rule(F, R, rule):
    """E1 + E2 under another property's rule name: a refused completion poll changes nothing, a successful one consumes exactly
    the head of the used ring - id and length read from the slot of the trusted index - and releases that chain."""
    M = model(F)
    M.require_rings()
    roles = C05.classify_api(C05.queue_api(F, M))
    by = {}
    for k, v in roles.items():
        by.setdefault(v, []).append(k)
    lf = last_used_field(F, M, by['can_pop'][0]) if 'can_pop' in by else None
    if lf is None or 'pop_used' not in by:
        raise Undecided('completion functions of the queue not found (%s)' % rule)
    P = RuleProxy(R, {'E1': rule, 'E2': rule})
    e1_e2_pop(F, P, M, by['pop_used'][0], lf)
    e2b_all_slots(F, P, M, lf)


@shared_rule
def wrap_rule(F, R, rule):
    """E5 + E9 under another property's rule name: completions keep being seen after the 16-bit ring indices wrap
    (wrap-safe counters and the folded completion test)."""
    counters_rule(F, R, rule)
    M = model(F)
    roles = C05.classify_api(C05.queue_api(F, M))
    cp = [k for k, v in roles.items() if v == 'can_pop']
    lf = last_used_field(F, M, cp[0]) if cp else None
    if lf is None:
        raise Undecided('completion test of the queue not found (%s)' % rule)
    e9_can_pop(F, R, M, cp[0], lf, rule=rule)


def run(F, R):
    M = model(F)
    M.require_rings()
    api = C05.queue_api(F, M)
    roles = C05.classify_api(api)
    by = {}
    for k, v in roles.items():
        by.setdefault(v, []).append(k)
    # E19: what the driver notifies the device about has been made visible: the available index is published by a plain store (C02.O3)
    from .C02 import publication_rule
    guard(R, 'E19', 'publication', lambda: publication_rule(F, R, 'E19'))
    for need in ('add', 'pop_used', 'can_pop'):
        if need not in by:
            raise Undecided('queue API role %s not found' % need)
    add_id, pop_id = by['add'][0], by['pop_used'][0]
    tfield = C05.trusted_avail_field(F, M, add_id)
    lfield = last_used_field(F, M, by['can_pop'][0])
    if lfield is None:
        raise Undecided('cannot identify the last-used index field (field compared with used.idx)')
    e3_capacity(F, R, M, add_id)
    e1_e2_pop(F, R, M, pop_id, lfield)
    e4_accounting(F, R, M, add_id, pop_id)
    e5_counters(F, R, M, tfield, lfield)
    R.count('relink_sites', e6_relink(F, R, M, pop_id))
    e7_available(F, R, M, add_id)
    e2b_all_slots(F, R, M, lfield)
    e8_helper_token(F, R, M, roles)
    # E10: a reused descriptor carries only this submission's flags (no stale INDIRECT / WRITE from its previous use), so
    # that the release path takes the branch of the chain actually submitted (shared with C01.F1)
    from .C01 import share_fn_rule
    share_fn_rule(F, R, 'E10')
    # E11: a driver that keeps a token -> buffer map presents each completion with the token the chain was (re)submitted
    # under: the net driver's receive / recycle custody rules (C16.S4)
    from .C16 import s4_custody
    s4_custody(F, R, M, roles, rule='E11', only=('receive', 'recycle_rx_buffer'))
    # E12: "a poll that finds nothing ready or a non-matching token changes nothing" at driver level: bookkeeping keyed by the
    # token is released only after the fallible pop succeeded (C20.Z7)
    from .C20 import z7_release_after_pop
    guard(R, 'E12', 'release-after-pop', lambda: z7_release_after_pop(F, RuleProxy(R, {'Z7': 'E12'}), M, roles))
    e9_can_pop(F, R, M, by['can_pop'][0], lfield)
    e13_counter_accounting(F, R, M)
    e14_release_form(F, R, M)
    release_rule(F, R, 'E15')
    # E18: ring slots of completions are computed modulo the size the device was told: queue_set receives SIZE (C06.L3)
    from .C06 import registration_rule
    registration_rule(F, R, 'E18')
    # E20: the owning queue reports every completion it consumed, a zero-length one included (C19.Q4 exposure table)
    if M.owning_adt:
        from .C19 import q4b_exposure_table
        guard(R, 'E20', 'exposure', lambda: q4b_exposure_table(F, RuleProxy(R, {'Q4': 'E20'}), M, roles))
    e16_chain_link(F, R, M)
    e17_helper_waits(F, R, M, roles)
    # E21: the owning queue keeps every one of its buffers outstanding: whatever the handler returns, the popped buffer is re-posted
    # (its descriptor is held again) before poll returns (C19.Q1)
    if M.owning_adt:
        from .C19 import poll_rule
        poll_rule(F, R, 'E21')


def e8_helper_token(F, R, M, roles, rule='E8'):
    """A blocking helper (it adds, waits and pops in one call) releases the chain it submitted: the token handed to
    pop_used is the result of its own add, never whatever the used ring shows next."""
    by = {}
    for k, v in roles.items():
        by.setdefault(v, []).append(k)
    n = 0
    for hid in by.get('add_notify_wait_pop', []):
        b = F.bodies[hid]
        sg = supergraph(F, hid, opaque=lambda t, bb: bb['id'] in roles and bb['id'] != hid, tag='e8')
        S = sg.sym
        adds = [c.id for c in sg.calls(lambda d: roles.get(d.get('fn')) == 'add')]
        for c in sg.calls(lambda d: roles.get(d.get('fn')) == 'pop_used'):
            n += 1
            tk = S.operand(c.id, c.d['args'][1])
            from_add = derives_from(tk, lambda x: x[0] == 'call' and x[1] in adds)
            other = [x for x in deep_subterms(S, tk) if x[0] == 'call' and roles.get(x[2]) in ('peek_used', 'can_pop')]
            R.check(from_add and not other, rule, '%s:pops-own-token' % hid, site(sg, c), 'pop_used receives the token returned by this call\'s add',
                    'the blocking helper pops %s instead of the token its own add returned: with another chain outstanding it consumes '
                    'that chain\'s completion against the wrong buffers' % fmt(tk)[:80])
    R.count('helper_pops', n)


def e9_can_pop(F, R, M, can_pop_id, lfield, rule='E9'):
    """"Something to consume" is decided by inequality of the two free-running indices, for every pair of values including
    across the 16-bit wrap."""
    sg = supergraph(F, can_pop_id)
    where = fn_site(F, can_pop_id)
    try:
        paths = PathEnum(sg).run()
    except PathLimit as e:
        R.abstain(rule, '%s:table' % can_pop_id, str(e), where)
        return
    bad = None
    rows = 0
    for last, used in ((0, 0), (0, 1), (5, 5), (5, 6), (6, 5), (0xffff, 0), (0xffff, 0xffff), (0xfffe, 1), (1, 0xfffe), (0x8000, 0x7fff), (0x7fff, 0x8000), (0, 0xffff)):
        def leaf(t, last=last, used=used):
            if t[0] in ('load0', 'load') and t[1][2] and t[1][2][-1][0] == 'f' and t[1][2][-1][1] == lfield:
                return last
            if t[0] == 'call' and t[2].startswith(ATOMIC) and t[3]:
                p_ = strip_ptr(t[3][0])
                if p_[0] == 'ref' and M.loc_area(p_[1]) == 'used.idx':
                    return used
            raise Unfoldable(fmt(t)[:80])
        fo = Folder(leaf)
        try:
            hit = [p for p in paths if path_holds(fo, p)]
            got = fo.ev(hit[0].ret) if len(hit) == 1 and not hit[0].panicked else None
        except Unfoldable as e:
            R.abstain(rule, '%s:table' % can_pop_id, 'cannot fold: %s' % e, where)
            return
        rows += 1
        if got != int(last != used):
            bad = 'last consumed index %#x, device index %#x: reports %s' % (last, used, {1: 'a completion', 0: 'nothing to consume', None: '?'}[got])
            break
    R.tables += rows
    R.check(bad is None, rule, '%s:table' % can_pop_id, where, 'true iff the indices differ (%d rows incl. wrap-around)' % rows,
            'completion test: %s; after the device index wraps, completions are never seen (blocking helpers spin forever) or phantom ones are' % bad)


def last_used_field(F, M, can_pop_id):
    sg = supergraph(F, can_pop_id)
    S = sg.sym
    for n in sg.nodes:
        if n.kind == 'assign' and n.d['rv']['rv'] == 'bin':
            t = S.rvalue(n.id, n.d['rv'])
            sides = [strip_conv(t[2]), strip_conv(t[3])]
            at = [s for s in sides if s[0] == 'call' and s[2].startswith(ATOMIC)]
            ld = [s for s in sides if s[0] == 'load' and s[1][2] and s[1][2][-1][0] == 'f' and s[1][2][-1][2] == M.queue_adt]
            if at and ld:
                p = strip_ptr(at[0][3][0])
                if p[0] == 'ref' and M.loc_area(p[1]) == 'used.idx':
                    return ld[0][1][2][-1][1]
    return None


def num_used_field(paths):
    """The in-use counter: the queue field (u16) loaded in the refusal conditions of add."""
    fields = {}
    for p in paths:
        if err_variant(p.ret) == 'QueueFull':
            for c in p.conds:
                for x in subterms(c[0]):
                    if x[0] == 'load0' and x[1][2] and x[1][2][-1][0] == 'f':
                        fields[x[1][2][-1][1]] = fields.get(x[1][2][-1][1], 0) + 1
    return fields


def e13_counter_accounting(F, R, M, rule='E13'):
    """The in-use counter moves by the number of descriptors a submission takes / a release returns: every store to it is
    `counter + 1` (one table descriptor), `counter + len(inputs) + len(outputs)` (one descriptor per buffer: each buffer-list
    parameter's length exactly once, nothing else - in particular no arithmetic on descriptor indices, which are not
    consecutive once the free list is fragmented), or `counter - 1` (per released descriptor)."""
    ctr = in_use_counter(F, M)
    if ctr is None:
        R.abstain(rule, 'counter-accounting', 'cannot identify the in-use counter', M.queue_adt)
        return
    n = 0
    for b in sorted(F.bodies.values(), key=lambda x: x['id']):
        if b.get('impl_adt') != M.queue_adt or not F.handwritten(b) or b['kind'] != 'AssocFn':
            continue
        sg0 = supergraph(F, b['id'], tag='flat', max_depth=0)
        S0 = sg0.sym
        for nd in sg0.nodes:
            if nd.kind != 'assign' or not nd.d['place']['p']:
                continue
            pl = nd.d['place']['p'][-1]
            if not (isinstance(pl, dict) and pl.get('adt') == M.queue_adt and pl.get('n') == ctr):
                continue
            v = S0.rvalue(nd.id, nd.d['rv'])
            v = v[1] if v[0] == 'field' else v
            n += 1
            bad = None
            if fold_const(v) == 0:
                continue        # initialisation
            if not (v[0] == 'bin' and v[1] in ('Add', 'AddWithOverflow', 'Sub', 'SubWithOverflow') and v[2][0] in ('load', 'load0')
                    and v[2][1][2] and v[2][1][2][-1][1] == ctr):
                bad = 'the counter is assigned %s, not counter +/- an amount' % fmt(v)[:80]
            elif v[1].startswith('Sub'):
                if fold_const(v[3]) != 1:
                    bad = 'a release subtracts %s instead of 1 per descriptor' % fmt(v[3])[:60]
            elif fold_const(v[3]) != 1:
                lens, other = [], []

                def walk(t):
                    t = strip_conv(t)
                    if t[0] == 'bin' and t[1] in ('Add', 'AddWithOverflow'):
                        walk(t[2]); walk(t[3])
                    elif t[0] == 'field' and t[1][0] == 'bin':
                        walk(t[1])
                    elif t[0] == 'call' and t[2].endswith('::len') and derives_from(t[3][0], lambda x: x[0] == 'param'):
                        lens.append([x[1] for x in subterms(t[3][0]) if x[0] == 'param'][0])
                    else:
                        other.append(t)
                walk(v[3])
                fn_ = sg0.entry_fn
                lists = [i + 1 for i, l_ in enumerate(fn_['locals'][1:fn_['arg_count'] + 1]) if '[&' in l_['ty'] and '[u8]' in l_['ty']]
                if other:
                    bad = 'a submission adds %s to the in-use counter: only the lengths of the buffer lists count descriptors (descriptor indices are not consecutive on a fragmented free list)' % fmt(other[0])[:80]
                elif sorted(lens) != sorted(lists):
                    bad = 'a submission adds the lengths of parameters %s, the buffer lists are parameters %s' % (sorted(lens), sorted(lists))
            R.check(bad is None, rule, '%s:counter-accounting' % b['id'], site(sg0, nd), 'counter +1 / + len(inputs) + len(outputs) / -1',
                    'descriptor accounting in %s: %s' % (b['name'], bad))
    R.count('counter_stores', n)


def e14_release_form(F, R, M, rule='E14'):
    """The form released is the form submitted: the release path takes the indirect-table branch (the per-head table slot is
    taken / read) only under a test of the *head descriptor's own* flags in the shadow table - not under a queue-wide setting,
    because a queue that negotiated indirect descriptors still submits single-buffer chains directly.  Decided on the queue's
    entry points with its private methods inlined, so the test may sit in the caller of an extracted release helper."""
    tf = M.qf.get('indirect_lists')
    sh = M.qf.get('shadow')
    if not tf or not sh or not any(f_['name'] == tf for f_ in F.adts[M.queue_adt]['variants'][0]['fields']):
        return      # configuration without indirect tables
    seen = {}
    roots = [b for b in F.bodies.values() if b.get('impl_adt') == M.queue_adt and F.handwritten(b) and b['kind'] == 'AssocFn' and b.get('pub') and 'impl_trait' not in b]
    for b in sorted(roots, key=lambda x: x['id']):
        sg0 = supergraph(F, b['id'], opaque=lambda t, bb: not (bb.get('impl_adt') == M.queue_adt and not bb.get('pub') and F.handwritten(bb)), tag='e14')
        S0 = sg0.sym
        onf = lambda t, f: any(x[0] == 'loc' and any(pp[0] == 'f' and pp[1] == f and len(pp) > 2 and pp[2] == M.queue_adt for pp in x[2]) for x in deep_subterms(S0, t))
        for c in sg0.calls(lambda d: d.get('fn', '').rsplit('::', 1)[-1] in ('take', 'replace') and d.get('fn', '').startswith('core::')):
            if not onf(S0.operand(c.id, c.d['args'][0]), tf):
                continue
            gs = [S0.operand(swid, sg0.nodes[swid].d['discr']) for swid, vals, succ in sg0.guards_of(c.id)]
            by_flag = any(onf(g, sh) and 'flags' in fmt(g) for g in gs)
            k = site(sg0, c)
            ok0, gs0 = seen.get(k, (True, []))
            seen[k] = (ok0 and by_flag, gs0 or gs)
    for k, (ok, gs) in sorted(seen.items()):
        fnname = k.split('(')[-1].rstrip(')') if '(' in k else k
        R.check(ok, rule, '%s:release-form-by-descriptor-flag' % fnname, k, 'the table slot is released under a test of the head descriptor\'s flags',
                'the indirect table of a chain is released without a test of the head descriptor\'s own flags (guards: %s): a directly submitted '
                'chain on a queue with indirect descriptors enabled is released as if it had a table' % [fmt(g)[:50] for g in gs][:3])
    R.count('table_releases', len(seen))


def e16_chain_link(F, R, M, rule='E16'):
    """Walking a chain to release it follows exactly the links that were written: the descriptor's link accessor (the function of
    the descriptor type returning Option<index>) yields Some(next field) iff the NEXT flag (bit 0) is set, for every value of the
    next field - index 0 included - and every combination of the other flags."""
    nf, ff = M.desc_field_by_role.get('next'), M.desc_field_by_role.get('flags')
    n = 0
    for b in sorted(F.bodies.values(), key=lambda x: x['id']):
        if b.get('impl_adt') != M.desc_adt or not F.handwritten(b) or b['kind'] != 'AssocFn' or b['arg_count'] != 1 or \
                not b.get('sig', '').endswith('-> core::option::Option<u16>'):
            continue
        sg = supergraph(F, b['id'])
        try:
            paths = [p for p in PathEnum(sg).run() if not p.panicked]
        except PathLimit as e:
            R.abstain(rule, '%s:chain-link' % b['id'], str(e), fn_site(F, b['id']))
            continue
        n += 1
        bad = None
        for flags in (0, 1, 2, 3, 4, 5, 7):
            for nxt in (0, 1, 5, 0x7fff, 0xffff):
                def leaf(t, flags=flags, nxt=nxt):
                    s_ = fmt(t)
                    if t[0] in ('load', 'load0', 'field') and s_.rstrip(')').endswith('.' + nf):
                        return nxt
                    if t[0] in ('load', 'load0', 'field') and ('.' + ff) in s_:
                        return flags
                    raise Unfoldable(s_[:60])
                fo = Folder(leaf)
                try:
                    hit = [p for p in paths if path_holds(fo, p)]
                    if len(hit) != 1:
                        bad = 'flags %#x next %d: %d feasible paths' % (flags, nxt, len(hit))
                        break
                    r = hit[0].ret
                    ev = err_variant(r)
                    if ev is None and r is not None and r[0] == 'call' and r[2].endswith('::then_some') and len(r[3]) == 2:
                        got = fo.ev(r[3][1]) if fo.ev(r[3][0]) else None      # cond.then_some(value)
                    elif ev in ('Some', 'None'):
                        got = fo.ev(r[2][0]) if ev == 'Some' else None
                    else:
                        bad = 'skip'
                        break
                except Unfoldable as e:
                    bad = 'unfoldable: %s' % e
                    break
                want = nxt if flags & 1 else None
                if got != want:
                    bad = 'flags %#x, next field %d: the accessor yields %s, the chain written says %s' % (flags, nxt, got, want)
                    break
            if bad:
                break
        if bad == 'skip':
            R.note('%s: link accessor returns its Option in a form that is not folded; not judged' % rule)
            continue
        if bad and bad.startswith('unfoldable'):
            R.abstain(rule, '%s:chain-link' % b['id'], bad, fn_site(F, b['id']))
            continue
        R.check(bad is None, rule, '%s:chain-link' % b['id'], fn_site(F, b['id']), 'Some(next) iff NEXT is set, for every next index',
                'descriptor link accessor: %s - the release walk stops early (or runs on), leaving descriptors of a completed chain held' % bad)
    R.count('link_accessors', n)


def e17_helper_waits(F, R, M, roles, rule='E17'):
    """A blocking helper pops only after the completion test said something is ready: every way from its add to its pop_used
    passes an edge on which can_pop / peek_used reported a completion - whatever the notification decision was."""
    by = {}
    for k, v in roles.items():
        by.setdefault(v, []).append(k)
    ready_fns = set(by.get('can_pop', []) + by.get('peek_used', []))
    n = 0
    for hid in sorted(by.get('add_notify_wait_pop', [])):
        sg = supergraph(F, hid, opaque=lambda t, bb: bb['id'] in roles, tag='e17')
        S = sg.sym
        adds = [c for c in sg.calls(lambda d: roles.get(d.get('fn')) == 'add')]
        pops = [c for c in sg.calls(lambda d: roles.get(d.get('fn')) == 'pop_used')]
        if not adds or not pops:
            continue
        n += 1
        ready_edges = set()
        for nd in sg.nodes:
            if nd.kind != 'switch':
                continue
            d = S.operand(nd.id, nd.d['discr'])
            neg = False
            x = strip_conv(d)
            while x[0] == 'un' and 'Not' in str(x[1]):
                neg = not neg
                x = strip_conv(x[2])
            some = None
            if x[0] == 'discr' and any(y[0] == 'call' and y[2] in ready_fns for y in subterms(x)):
                some = True      # Option discriminant of peek_used: Some = 1
            elif x[0] == 'call' and x[2] in ready_fns:
                some = True
            elif x[0] == 'call' and x[2].rsplit('::', 1)[-1] in ('is_some', 'is_none') and any(y[0] == 'call' and y[2] in ready_fns for y in deep_subterms(S, x)):
                some = x[2].endswith('is_some')
            if some is None:
                continue
            want_true = some != neg
            explicit = [v_ for v_, _ in nd.switch_edges if v_ is not None]
            for v_, su in nd.switch_edges:
                is_true = (v_ is None and all(e_ == 0 for e_ in explicit)) or (v_ is not None and v_ != 0)
                if is_true == want_true:
                    ready_edges.add((nd.id, su))
        ok = bool(ready_edges)
        if ok:
            reach = sg.reach_fwd([s_ for a in adds for s_ in a.succ], avoid_edges=ready_edges)
            ok = not any(p.id in reach for p in pops)
        R.check(ok, rule, '%s:pops-after-ready' % hid, site(sg, pops[0]), 'every way from add to pop_used passes a "completion ready" edge',
                '%s can reach its pop_used without the completion test having reported a completion (e.g. when no notification was needed): the '
                'request is reported NotReady although the device will serve it, and the chain stays in flight' % hid.rsplit('::', 1)[1])
    R.count('blocking_helpers', n)


@shared_rule
def release_rule(F, R, rule):
    """E15 under any rule id.  A chain is released (descriptors recycled, buffers unshared, table freed) only for a completion that
    matched: the release function - the one that decrements the in-use counter - is reached from the queue's public methods only
    through the completion function that compares the used-ring id with the caller's token.  Any other route tears down a chain
    the device may still own (e.g. "clean up" of an entry that has just been published)."""
    M = model(F)
    M.require_rings()
    roles = C05.classify_api(C05.queue_api(F, M))
    ctr = in_use_counter(F, M)
    pops = set(k for k, v in roles.items() if v == 'pop_used')
    if ctr is None or not pops:
        raise Undecided('release function / completion function of the queue not found')
    rel = set()
    for b in F.bodies.values():
        if b.get('impl_adt') != M.queue_adt or not F.handwritten(b) or b['kind'] != 'AssocFn' or b['id'] in pops:
            continue
        sg0 = supergraph(F, b['id'], tag='flat', max_depth=0)
        for nd in sg0.nodes:
            if nd.kind != 'assign' or not nd.d['place']['p'] or not isinstance(nd.d['place']['p'][-1], dict) or nd.d['place']['p'][-1].get('n') != ctr:
                continue
            v = sg0.sym.rvalue(nd.id, nd.d['rv'])
            v = v[1] if v[0] == 'field' else v
            if v[0] == 'bin' and v[1] in ('Sub', 'SubWithOverflow'):
                rel.add(b['id'])
    if not rel:
        return      # the release is written inside the completion function itself
    n = 0
    for b in sorted(F.bodies.values(), key=lambda x: x['id']):
        if b.get('impl_adt') != M.queue_adt or not F.handwritten(b) or b['kind'] != 'AssocFn' or not b.get('pub') or b['id'] in pops or b['id'] in rel or 'impl_trait' in b:
            continue
        sg = supergraph(F, b['id'], opaque=lambda t, bb: bb['id'] in pops or bb['id'] in rel or not (bb.get('impl_adt') == M.queue_adt and not bb.get('pub') and F.handwritten(bb)), tag='e15')
        direct = [c for c in sg.calls(lambda d: d.get('fn') in rel)]
        n += 1
        R.check(not direct, rule, '%s:release-only-through-completion' % b['id'], site(sg, direct[0]) if direct else fn_site(F, b['id']),
                'the release function is reached only through the token-checked completion function',
                '%s releases a chain (%s) without going through the completion function that matches the used-ring id against the token: '
                'a chain the device still owns is torn down' % (b['name'], direct[0].d['fn'].rsplit('::', 1)[1] if direct else ''))
    R.count('release_routes', n)


def in_use_counter(F, M):
    """The descriptor-accounting field of the queue, found where it is maintained (field -= 1 on release / += n on
    submission), not from the test that is being checked."""
    dec = set()
    for b in queue_entry_points(F, M):
        sg0 = supergraph(F, b['id'], tag='flat', max_depth=0)
        S0 = sg0.sym
        for n in sg0.nodes:
            if n.kind != 'assign' or not n.d['place']['p'] or n.d.get('pty') != 'u16':
                continue
            pl = n.d['place']['p'][-1]
            if not (isinstance(pl, dict) and pl.get('adt') == M.queue_adt):
                continue
            v = S0.rvalue(n.id, n.d['rv'])
            v = v[1] if v[0] == 'field' else v
            if v[0] == 'bin' and v[1] in ('Sub', 'SubWithOverflow') and fold_const(v[3]) == 1 and v[2][0] in ('load', 'load0') and v[2][1][2] and v[2][1][2][-1][1] == pl['n']:
                dec.add(pl['n'])
    return dec.pop() if len(dec) == 1 else None


def e3_capacity(F, R, M, add_id, rule='E3', rule1='E1'):
    sg = supergraph(F, add_id, opaque=loop_opaque, tag='loopopaque')
    where = fn_site(F, add_id)
    try:
        paths = PathEnum(sg).run()
    except PathLimit as e:
        R.abstain(rule, add_id, str(e), where)
        return
    R.count('add_paths', len(paths))
    fields = num_used_field(paths)
    bool_fields = [f['name'] for f in F.adts[M.queue_adt]['variants'][0]['fields'] if f['ty'] == 'bool']
    flg = [f for f in fields if f in bool_fields]
    ctr = in_use_counter(F, M)
    if ctr is None:
        R.abstain(rule, add_id, 'cannot identify the in-use counter (no u16 field decremented by one on release)', where)
        return
    # the two free-running ring indices: their difference is the number of outstanding chains
    _roles = C05.classify_api(C05.queue_api(F, M))
    _can = [k for k, v in _roles.items() if v == 'can_pop']
    tfield = C05.trusted_avail_field(F, M, add_id)
    lfield = last_used_field(F, M, _can[0]) if _can else None
    # which opaque callee is the indirect form: the one whose body leaks a box
    def is_indirect_callee(fid):
        b = F.bodies.get(fid)
        if not b:
            return False
        return any(bl['term']['k'] == 'call' and (bl['term'].get('fn', '').endswith('::leak') or bl['term'].get('fn', '').endswith('::into_raw'))
                   for bl in b['blocks'])
    # the form that was admitted is the form that is written: the indirect writer (admitted with room for ONE descriptor)
    # never reaches the direct writer, which takes one descriptor per buffer
    forms = set(e[2] for p in paths if err_variant(p.ret) == 'Ok' for e in p.effects if e[0] == 'call' and e[2] in F.bodies and F.handwritten(F.bodies[e[2]])
                and has_loop_deep(F, F.bodies[e[2]]))
    ind_w = set(f for f in forms if is_indirect_callee(f))
    dir_w = forms - ind_w
    for iw in sorted(ind_w):
        seen, st = set(), [iw]
        while st:
            x = st.pop()
            if x in seen or x not in F.bodies:
                continue
            seen.add(x)
            for bl in F.bodies[x]['blocks']:
                t = bl['term']
                if t['k'] == 'call' and t.get('fn') in F.bodies and F.handwritten(F.bodies[t['fn']]):
                    st.append(t['fn'])
        hit = sorted(seen & dir_w)
        R.check(not hit, rule, '%s:admitted-form-is-written-form' % iw, fn_site(F, iw), 'the indirect writer does not fall back to the direct writer',
                'the indirect submission path can call the direct writer %s: the capacity test admitted it with room for one descriptor, '
                'the direct writer takes one per buffer and walks past the end of the free list into descriptors of chains still in flight' % hit)
    # E1 for add: refusal paths have no effects
    for p in paths:
        ev = err_variant(p.ret)
        if ev and ev not in ('Ok',):
            eff = [e for e in p.effects if e[0] == 'store' or (e[0] == 'call' and (e[4].get('trait') == HAL or e[4].get('local') and not e[2].startswith('core::')))]
            R.check(not eff, rule1, '%s:%s' % (add_id, ev), where, 'refusal %s is effect-free' % ev,
                    'refusal path returning %s has side effects: %s' % (ev, [fmt(e[2]) if e[0] == 'store' else e[2] for e in eff][:3]))
    rows = 0
    bad = None
    has_ind = bool(flg)
    try:
        for size in (1, 2, 4, 8, 16):
            for used in range(0, size + 1):
                for n_in in range(0, size + 3):
                    for n_out in range(0, size + 3):
                        if n_in + n_out > size + 2:
                            continue
                        for ind, chains in [(i_, c_) for i_ in ((0, 1) if has_ind else (0,)) for c_ in sorted(set([min(used, 1), used]))]:
                            def leaf(t):
                                if t[0] == 'call' and t[2].endswith('::len'):
                                    a = strip_ptr(t[3][0])
                                    a = a[1][1][1] if a[0] == 'ref' and a[1][1][0] == 'deref' else a
                                    return n_in if a == ('param', 2) else n_out
                                if t[0] == 'call' and t[2].endswith('::is_empty'):
                                    a = strip_ptr(t[3][0])
                                    a = a[1][1][1] if a[0] == 'ref' and a[1][1][0] == 'deref' else a
                                    return int((n_in if a == ('param', 2) else n_out) == 0)
                                if t[0] == 'load0' and t[1][2]:
                                    f = t[1][2][-1][1]
                                    if f == ctr:
                                        return used
                                    if f in flg:
                                        return ind
                                    if f in bool_fields:
                                        return 0
                                    if f == tfield:
                                        return (0xfffe + chains) & 0xffff       # outstanding chains = avail - last_used (across the wrap)
                                    if f == lfield:
                                        return 0xfffe
                                raise Unfoldable(fmt(t))
                            fo = Folder(leaf, generic={'SIZE': size})
                            # evaluate the decision prefix only: conditions up to the first opaque local call / return
                            outcome = None
                            for p in paths:
                                ok = True
                                for disc, (kind, vals), _ in p.conds:
                                    # stop at conditions that depend on results of the submission helpers
                                    if derives_from(disc, lambda x: x[0] == 'call' and x[2] in F.bodies):
                                        if p.panicked:
                                            ok = False
                                        break
                                    v = fo.ev(disc)
                                    if (kind == 'in' and v not in vals) or (kind != 'in' and v in vals):
                                        ok = False
                                        break
                                if ok:
                                    ev = err_variant(p.ret)
                                    if p.panicked:
                                        outcome = 'panic'
                                    elif ev == 'Ok':
                                        locs = [e[2] for e in p.effects if e[0] == 'call' and e[2] in F.bodies]
                                        outcome = 'indirect' if any(is_indirect_callee(x) for x in locs) else 'direct'
                                    else:
                                        outcome = ev
                                    break
                            rows += 1
                            needed = n_in + n_out
                            if needed == 0:
                                want = 'InvalidParam'
                            else:
                                use_ind = bool(ind) and needed > 1
                                cons = 1 if use_ind else needed
                                if needed > size or cons > size - used:
                                    want = 'QueueFull'
                                else:
                                    want = 'indirect' if use_ind else 'direct'
                            if outcome != want:
                                bad = 'SIZE=%d in_use=%d (in %d outstanding chains) inputs=%d outputs=%d indirect=%d: add -> %s, specification -> %s' % (
                                    size, used, chains, n_in, n_out, ind, outcome, want)
                                raise StopIteration
    except StopIteration:
        pass
    except Unfoldable as e:
        R.abstain(rule, add_id, 'cannot fold capacity predicate: %s' % e, where)
        return
    R.tables += rows
    R.count('capacity_rows', rows if bad is None else 100000)
    R.check(bad is None, rule, '%s:capacity' % add_id, where,
            'refusal predicate and submission form agree with the specification on %d rows (SIZE<=16)' % rows,
            'capacity predicate disagrees with the specification: %s' % bad)


def e1_e2_pop(F, R, M, pop_id, lfield):
    sg = supergraph(F, pop_id, opaque=loop_opaque, tag='loopopaque')
    where = fn_site(F, pop_id)
    paths = PathEnum(sg).run()
    R.count('pop_paths', len(paths))
    fn = sg.entry_fn
    tok = [i + 1 for i, l in enumerate(fn['locals'][1:fn['arg_count'] + 1]) if l['ty'] == 'u16']
    for p in paths:
        ev = err_variant(p.ret)
        if p.panicked or ev is None:
            continue
        if ev != 'Ok':
            eff = [e for e in p.effects if e[0] == 'store' or (e[0] == 'call' and (e[4].get('trait') == HAL or (e[4].get('local') and e[2] in F.bodies)))]
            R.check(not eff, 'E1', '%s:%s' % (pop_id, ev), where, 'refusal %s changes nothing' % ev,
                    'path returning %s has side effects: %s' % (ev, [fmt(e[2]) if e[0] == 'store' else e[2] for e in eff][:3]))
            continue
        inst = '%s:Ok' % pop_id
        # ret derives from used.ring.len load
        okv = p.ret[2][0]
        len_ok = derives_from(okv, lambda x: x[0] == 'load0' and M.loc_area(x[1]) == 'used.ring.len')
        R.check(len_ok, 'E2', inst + ':returns-len', where, 'Ok(%s)' % fmt(okv),
                'Ok value does not derive from the used element\'s len field: %s' % fmt(okv))
        # token comparison uses the id field
        cmp_ok = False
        for disc, (kind, vals), _ in p.conds:
            d = strip_conv(disc)
            if d[0] == 'bin' and d[1] in ('Ne', 'Eq') and tok:
                sides = [d[2], d[3]]
                if any(strip_conv(s) == ('param', tok[0]) for s in sides):
                    other = [s for s in sides if strip_conv(s) != ('param', tok[0])][0]
                    if derives_from(other, lambda x: x[0] == 'load0' and M.loc_area(x[1]) == 'used.ring.id') and \
                            not derives_from(other, lambda x: x[0] == 'load0' and M.loc_area(x[1]) == 'used.ring.len'):
                        # the Ok path must be on the 'equal' edge
                        eq_edge = (d[1] == 'Ne' and kind == 'in' and vals == (0,)) or (d[1] == 'Eq' and ((kind == 'in' and vals == (1,)) or (kind == 'notin' and 0 in vals)))
                        cmp_ok = eq_edge
        R.check(cmp_ok, 'E2', inst + ':token-test', where, 'completion released only when used id == token',
                'the Ok path is not guarded by (used.ring[slot].id == token)')
        # slot index
        slot_terms = set()
        for src_t in [okv] + [c[0] for c in p.conds]:
            for x in subterms(src_t):
                if x[0] in ('load0', 'load') and (M.loc_area(x[1]) or '').startswith('used.ring'):
                    for pp in x[1][2]:
                        if pp[0] == 'idx':
                            slot_terms.add(pp[1])
        good_slot = bool(slot_terms)
        for stt in slot_terms:
            this_ok = False
            t = strip_conv(stt)
            if t[0] == 'bin' and t[1] == 'BitAnd':
                a, b_ = strip_conv(t[2]), strip_conv(t[3])
                ctr_, mask = (a, b_) if a[0] == 'load0' else (b_, a)
                if ctr_[0] == 'load0' and ctr_[1][2][-1][1] == lfield and mask[0] == 'bin' and mask[1] == 'Sub' and fold_const(mask[3]) == 1 and 'SIZE' in fmt(mask[2]):
                    this_ok = True
            good_slot = good_slot and this_ok
        R.check(good_slot, 'E2', inst + ':slot', where, 'every used-ring element read (id and len) uses slot = last_used & (SIZE-1), pre-increment',
                'a used-ring element is read at a slot other than (pre-increment last-used index) & (SIZE-1): %s' % sorted(fmt(s) for s in slot_terms))
        # order: release (local loop-containing callee reaching Hal::unshare) before the last_used store; store value
        seq = []
        for e in p.effects:
            if e[0] == 'call' and e[2] in F.bodies:
                seq.append(('release', e))
            if e[0] == 'store' and e[2][2] and e[2][2][-1][0] == 'f' and e[2][2][-1][1] == lfield:
                seq.append(('inc', e))
        kinds = [k for k, _ in seq]
        inc_ok = False
        if 'inc' in kinds:
            e = [x for k, x in seq if k == 'inc'][0]
            v = e[3]
            inc_ok = v[0] == 'call' and v[2].endswith('::wrapping_add') and const_int(v[3][1]) == 1 and \
                v[3][0][0] == 'load0' and v[3][0][1][2][-1][1] == lfield
        R.check(kinds == ['release', 'inc'] and inc_ok, 'E2', inst + ':release-then-advance', where,
                'chain released, then last_used = wrapping_add(last_used, 1)',
                'consumption order/advance wrong: events=%s advance-by-wrapping-1=%s' % (kinds, inc_ok))


def e4_accounting(F, R, M, add_id, pop_id):
    sg = supergraph(F, add_id, opaque=loop_opaque, tag='loopopaque')
    paths = PathEnum(sg).run()
    fields = num_used_field(paths)
    bool_fields = [f['name'] for f in F.adts[M.queue_adt]['variants'][0]['fields'] if f['ty'] == 'bool']
    ctr = [f for f in fields if f not in bool_fields]
    if len(ctr) != 1:
        return
    ctr = ctr[0]
    from .C01 import field_writers
    ws = field_writers(F, M.queue_adt, ctr)
    allowed = set()
    for root in (add_id, pop_id):
        for c in supergraph(F, root).ctxs:
            allowed.add(c.fn['id'])
    bad = [w for w in ws if w[1] == 'store' and w[0] not in allowed]
    R.check(not bad, 'E4', 'who-may-write:%s' % ctr, '', 'in-use counter written only by %s' % sorted(set(w[0] for w in ws)),
            'the in-use counter `%s` is written outside the submission/release paths: %s' % (ctr, bad))
    # every release of a device-table descriptor decrements; every allocation increments (site pairing, shape)
    sgp = supergraph(F, pop_id)
    S = sgp.sym
    decs = 0
    for n in sgp.nodes:
        if n.kind == 'assign' and n.d['place']['p']:
            loc = S.place_loc(n.id, n.d['place'])
            if loc[2] and loc[2][-1][0] == 'f' and loc[2][-1][1] == ctr:
                v = S.rvalue(n.id, n.d['rv'])
                if v[0] == 'bin' and v[1] == 'Sub' and const_int(v[3]) == 1:
                    decs += 1
    uns = len(hal_calls(sgp, 'unshare'))
    R.count('release_decrements', decs)
    R.check(decs >= 1, 'E4', '%s:decrement' % pop_id, fn_site(F, pop_id), '%d decrement sites on the release path' % decs,
            'the release path never decrements the in-use counter')


def e5_counters(F, R, M, tfield, lfield, rule='E5'):
    """H-ctr over every function of the queue type."""
    nops = 0
    for b in queue_entry_points(F, M):
        sg = supergraph(F, b['id'], tag='flat', max_depth=0)
        S = sg.sym

        def is_ctr(x):
            if x[0] == 'load' and x[1][0] == 'loc' and x[1][2] and x[1][2][-1][0] == 'f' and x[1][2][-1][2] == M.queue_adt \
                    and x[1][2][-1][1] in (tfield, lfield):
                return True
            if x[0] == 'call' and x[2].startswith(ATOMIC) and x[2].endswith('::load'):
                p = strip_ptr(x[3][0])
                return p[0] == 'ref' and M.loc_area(p[1]) in ('used.idx', 'used.avail_event')
            return False

        def raw_ctr(t):
            """t is a counter value not yet reduced by a wrapping difference / mask."""
            t = strip_conv(t)
            if is_ctr(t):
                return True
            if t[0] == 'call' and t[2].endswith('::wrapping_add'):
                return any(raw_ctr(a) for a in t[3])
            if t[0] == 'phi':
                return any(raw_ctr(a) for a in t[1])
            return False
        for n in sg.nodes:
            if n.kind != 'assign' or n.d['rv']['rv'] != 'bin':
                continue
            t = S.rvalue(n.id, n.d['rv'])
            a, c = t[2], t[3]
            ra, rc = raw_ctr(a), raw_ctr(c)
            if not (ra or rc):
                continue
            nops += 1
            op = t[1]
            inst = '%s:%s' % (b['id'], op)
            if op in ('Lt', 'Le', 'Gt', 'Ge'):
                R.violated(rule, inst, site(sg, n), 'free-running ring index is order-compared by value (wrap-unsafe): %s' % fmt(t))
            elif op in ('Add', 'Sub', 'Mul', 'AddWithOverflow', 'SubWithOverflow', 'MulWithOverflow', 'AddUnchecked', 'SubUnchecked'):
                R.violated(rule, inst, site(sg, n), 'non-wrapping arithmetic on a free-running ring index: %s' % fmt(t))
            else:
                R.held(rule, inst, site(sg, n), 'index used with %s only' % op)
        for n in sg.calls():
            fn = n.d.get('fn', '')
            if fn.endswith('::wrapping_add') or fn.endswith('::wrapping_sub'):
                args = [S.operand(n.id, a) for a in n.d['args']]
                if any(raw_ctr(a) for a in args):
                    nops += 1
                    R.held(rule, '%s:%s' % (b['id'], fn.rsplit('::', 1)[1]), site(sg, n), 'wrapping arithmetic on index')
        # what is stored back into a free-running index is the full 16-bit wrapping sum - a masked or otherwise reduced value makes the
        # index stop being free-running (the device's copy and the driver's diverge after the reduced range wraps)
        for n in sg.nodes:
            if n.kind != 'assign' or not n.d['place']['p']:
                continue
            pl = n.d['place']['p'][-1]
            if not (isinstance(pl, dict) and pl.get('adt') == M.queue_adt and pl.get('n') in (tfield, lfield)):
                continue
            v = strip_conv(S.rvalue(n.id, n.d['rv']))
            if fold_const(v) is not None:
                continue
            nops += 1
            ok = v[0] == 'call' and v[2].endswith('::wrapping_add') and any(raw_ctr(a) for a in v[3])
            R.check(ok, rule, '%s:store:%s' % (b['id'], pl.get('n')), site(sg, n), 'the index is stored back as a full-width wrapping sum',
                    'a free-running ring index is stored back as %s, not as wrapping_add(index, n): it no longer runs over all 16 bits' % fmt(v)[:120])
    R.count('counter_ops', nops)


def e2b_all_slots(F, R, M, lfield):
    """Every read of a used-ring element anywhere in the queue API (peeking as well as popping) addresses the slot
    (last-used index) & (SIZE-1): the completion that is looked at is always the oldest unconsumed one."""
    n = 0
    for b in queue_api_entry_points(F, M):
        sg = supergraph(F, b['id'])
        S = sg.sym
        live = sg.live_nodes()
        for a in device_accesses(sg, M):
            if a.kind == 'load' and a.node in live and (a.area.startswith('avail') or a.area.startswith('desc')):
                # completions come from the used ring only: what the driver itself wrote into the available ring /
                # descriptor table says nothing about what the device has finished (and the device may have altered it)
                R.violated('E2', '%s:%s:completion-source' % (b['id'], a.area), site(sg, a.node),
                           'the queue reads %s back from driver-written, device-visible memory: a completion must be taken from the used ring '
                           '(with out-of-order completion the available ring names a chain the device has not finished)' % a.area)
            if a.kind != 'load' or not a.area.startswith('used.ring') or a.node not in live:
                continue
            n += 1
            idxs = [pp[1] for pp in a.loc[2] if pp[0] == 'idx']
            good = False
            for t in idxs:
                t = strip_conv(t)
                if t[0] == 'bin' and t[1] == 'BitAnd':
                    x, y = strip_conv(t[2]), strip_conv(t[3])
                    ctr_, mask = (x, y) if x[0] in ('load', 'load0') else (y, x)
                    if ctr_[0] in ('load', 'load0') and ctr_[1][2] and ctr_[1][2][-1][1] == lfield and mask[0] == 'bin' and mask[1] == 'Sub' \
                            and fold_const(mask[3]) == 1 and 'SIZE' in fmt(mask[2]):
                        good = True
            R.check(good, 'E2', '%s:%s:slot' % (b['id'], a.area), site(sg, a.node), 'used-ring element read at slot last_used & (SIZE-1)',
                    'a used-ring element is read at index %s, not at (last-used index) & (SIZE-1)' % [fmt(t)[:80] for t in idxs])
    R.count('used_ring_reads', n)


def e7_available(F, R, M, add_id):
    cands = [b for b in queue_entry_points(F, M) if b.get('pub') and b.get('sig', '').endswith('-> usize') and b['arg_count'] == 1 and not has_loop(b)]
    # the query that reads the in-use counter
    sgadd = supergraph(F, add_id, opaque=loop_opaque, tag='loopopaque')
    try:
        fields = num_used_field(PathEnum(sgadd).run())
    except PathLimit:
        fields = {}
    bools = [f['name'] for f in F.adts[M.queue_adt]['variants'][0]['fields'] if f['ty'] == 'bool']
    ctr = [f for f in fields if f not in bools]
    if len(ctr) != 1:
        return
    ctr = ctr[0]
    n = 0
    for b in cands:
        sg = supergraph(F, b['id'])
        try:
            paths = PathEnum(sg).run()
        except PathLimit:
            continue
        if not any(ctr in fmt(c[0]) or (p.ret is not None and ctr in fmt(p.ret)) for p in paths for c in (p.conds or [(('x',),)])):
            continue
        n += 1
        where = fn_site(F, b['id'])
        bad = None
        rows = 0
        for SZ in (1, 2, 4, 8):
            for used in range(0, SZ + 1):
                for ind in (0, 1):
                    def leaf(t, used=used, ind=ind):
                        if t[0] in ('load0', 'load') and t[1][2] and t[1][2][-1][0] == 'f' and t[1][2][-1][2] == M.queue_adt:
                            if t[1][2][-1][1] == ctr:
                                return used
                            if t[1][2][-1][1] in bools:
                                return ind if 'indirect' in t[1][2][-1][1] or len(bools) == 1 else 0
                        raise Unfoldable(fmt(t)[:60])
                    fo = Folder(leaf, generic={'SIZE': SZ})
                    try:
                        hit = [p for p in paths if not p.panicked and path_holds(fo, p)]
                        if len(hit) != 1:
                            bad = 'SIZE=%d in-use=%d indirect=%d: %d feasible paths' % (SZ, used, ind, len(hit))
                            break
                        got = fo.ev(hit[0].ret)
                    except Unfoldable as e:
                        bad = 'unfoldable: %s' % e
                        break
                    rows += 1
                    if (got == 0) != (used == SZ):
                        bad = 'SIZE=%d, %d descriptors in use, indirect=%d: reports %d free descriptors' % (SZ, used, ind, got)
                        break
                    if not ind and got != SZ - used:
                        bad = 'SIZE=%d, %d descriptors in use (no indirect descriptors): reports %d free, expected %d' % (SZ, used, got, SZ - used)
                        break
                if bad:
                    break
            if bad:
                break
        R.tables += rows
        if bad and bad.startswith('unfoldable'):
            R.abstain('E7', b['id'], bad, where)
            continue
        R.check(bad is None, 'E7', '%s:free-count' % b['id'], where, 'reports 0 iff full; SIZE - in-use without indirect descriptors (%d rows)' % rows, 'free-descriptor query: %s' % bad)
    R.count('free_queries', n)


def natural_loops(sg):
    loops = []
    for (u, v) in back_edges(sg):
        body = {v}
        st = [u]
        while st:
            x = st.pop()
            if x in body:
                continue
            body.add(x)
            st.extend(sg.nodes[x].pred)
        loops.append((v, body))
    return loops


def e6_relink(F, R, M, pop_id, rule='E6'):
    """<shape> The free-list relink of a released chain is decided by the *current* descriptor's own link:
    the end-of-chain test that guards `desc.next = <saved free-list head>` must only see cursor values read from
    a descriptor in the same iteration - never the loop-initial cursor or the previous iteration's value."""
    sg = supergraph(F, pop_id)
    S = sg.sym
    loops = natural_loops(sg)
    inloop = set()
    for _, body in loops:
        inloop |= body
    nextf = M.desc_field_by_role['next']
    be = back_edges(sg)
    found = 0
    for n in sg.nodes:
        if n.kind != 'assign' or not n.d['place']['p'] or n.id not in inloop:
            continue
        loc = S.place_loc(n.id, n.d['place'])
        if not (loc[2] and loc[2][-1][0] == 'f' and loc[2][-1][1] == nextf and loc[2][-1][2] == M.desc_adt and M.is_shadow_loc(loc)):
            continue
        v = S.rvalue(n.id, n.d['rv'])
        if not derives_from(v, lambda x: x[0] == 'load' and x[1][2] and x[1][2][-1][0] == 'f' and x[1][2][-1][2] == M.queue_adt):
            continue
        found += 1
        where = site(sg, n)
        gs = sg.guards_of(n.id)
        cursors = []
        for swid, vals, succ in gs:
            if swid not in inloop:
                continue
            d = S.operand(swid, sg.nodes[swid].d['discr'])
            for x in subterms(d):
                if x[0] == 'loc' and x[1][0] == 'local' and not x[2]:
                    cursors.append((swid, x[1][1], x[1][2]))
        if not cursors:
            R.abstain(rule, '%s:relink-guard' % pop_id, 'relink store found but its end-of-chain test is not a test of a local cursor', where)
            continue
        bad = None
        for swid, cx, l in cursors:
            # the node that evaluates the test operand (the call is_none(&cursor) or the switch itself)
            tests = [m.id for m in sg.nodes if m.kind == 'call' and m.inl is None and any(
                (a.get('move') or a.get('copy') or {}).get('l') is not None for a in m.d['args']) and m.id in inloop and m.ctx == cx and
                any(x[0] == 'loc' and x[1] == ('local', cx, l) for a in m.d['args'] for x in subterms(S.operand(m.id, a)))
                and sg.between_always(m.id, swid, [swid]) and swid in sg.reach_fwd(m.succ, avoid_edges=be)]
            at = tests[-1] if tests else swid
            defs, hit_entry = S.reaching_defs(at, cx, l)
            # on the loop-free graph: which definitions reach the test within one iteration
            dag_defs = []
            for dn in defs:
                if at in sg.reach_fwd(sg.nodes[dn].succ, avoid_edges=be):
                    # not killed by another def on the way (same iteration)?
                    others = [o for o in defs if o != dn]
                    r = sg.reach_fwd(sg.nodes[dn].succ, avoid=others, avoid_edges=be)
                    if at in r:
                        dag_defs.append(dn)
            outside = [dn for dn in dag_defs if dn not in inloop]
            stale = [dn for dn in defs if dn in inloop and dn not in dag_defs]
            if outside or (stale and not dag_defs):
                bad = (outside or stale)[0]
        R.check(bad is None, rule, '%s:relink-tests-current-link' % pop_id, where,
                'the end-of-chain test sees the link of the descriptor released in this iteration',
                'the test guarding the free-list relink examines a stale cursor (defined at %s) instead of the link of the descriptor being '
                'released: the tail of a recycled chain is not relinked to the old free list, so descriptors of chains still in flight can '
                'be handed out again' % (site(sg, bad) if bad is not None else ''))
    # every release path relinks: after the free-list head has been redirected to the released chain, every loop-free
    # path to the return stores the *saved* old head into a released descriptor's link (loop paths: rule above)
    fh_fields = set()
    relinks = []
    for n in sg.nodes:
        if n.kind != 'assign' or not n.d['place']['p']:
            continue
        loc = S.place_loc(n.id, n.d['place'])
        if loc[2] and loc[2][-1][0] == 'f' and loc[2][-1][1] == nextf and loc[2][-1][2] == M.desc_adt and M.is_shadow_loc(loc):
            v = S.rvalue(n.id, n.d['rv'])
            flds = [x[1][2][-1][1] for x in subterms(v) if x[0] in ('load', 'load0') and x[1][2] and x[1][2][-1][0] == 'f' and x[1][2][-1][2] == M.queue_adt]
            if flds:
                relinks.append(n.id)
                fh_fields |= set(flds)
    fh_stores = []
    for n in sg.nodes:
        if n.kind != 'assign' or not n.d['place']['p']:
            continue
        loc = S.place_loc(n.id, n.d['place'])
        if loc[2] and loc[2][-1][0] == 'f' and loc[2][-1][2] == M.queue_adt and loc[2][-1][1] in fh_fields:
            fh_stores.append((n, loc[2][-1][1]))
    # a relink must store the head that was saved *before* the free-list head was redirected; a load made after the
    # redirection yields the released chain itself (self-loop: every previously free descriptor becomes unreachable)
    def load_origins(nid, op, depth=0):
        pl = op.get('copy') or op.get('move')
        if pl is None or depth > 6:
            return set()
        if pl['p']:
            return {nid}
        out = set()
        defs, _ = S.reaching_defs(nid, sg.nodes[nid].ctx, pl['l'])
        for d in defs:
            dn = sg.nodes[d]
            if dn.kind == 'assign' and dn.d['rv']['rv'] in ('use', 'cast') and 'op' in dn.d['rv']:
                o2 = dn.d['rv']['op']
                p2 = o2.get('copy') or o2.get('move')
                if p2 is not None and p2['p']:
                    out.add(d)
                else:
                    out |= load_origins(d, o2, depth + 1)
        return out
    stale = []
    for r_ in list(relinks):
        rn = sg.nodes[r_]
        if rn.d['rv']['rv'] != 'use':
            continue
        for o in load_origins(r_, rn.d['rv']['op']):
            for fs, fld in fh_stores:
                if o in sg.reach_fwd(list(fs.succ)) and fs.id not in sg.reach_fwd(list(sg.nodes[o].succ), avoid_edges=back_edges(sg)):
                    stale.append((r_, o, fld))
    for r_, o, fld in stale:
        if r_ in relinks:
            relinks.remove(r_)
    R.check(not stale, rule, '%s:relink-uses-saved-head' % pop_id, site(sg, sg.nodes[stale[0][0]]) if stale else '',
            'every relink stores the free-list head saved before it was redirected',
            'the released descriptor is linked to `%s` as read *after* it was redirected to the released chain (load at %s): the descriptor points at itself, '
            'the previous free list becomes unreachable and the same descriptor is handed out for two outstanding chains' % (
                stale[0][2] if stale else '', site(sg, sg.nodes[stale[0][1]]) if stale else ''))
    # only the chain-walking loop (the one containing a relink store) is left to the shape rule above
    headers = set(h for h, body in loops if any(r_ in body for r_ in relinks))
    for n, fld in fh_stores:
        av = set(relinks) | headers
        r = sg.reach_fwd(list(n.succ), avoid=av)
        # a path only counts as a release path if it actually releases something (unshares a buffer): without the `alloc`
        # feature the indirect arm is empty and unreachable (no descriptor ever carries INDIRECT)
        acts = [c.id for c in sg.calls(lambda d: d.get('trait') == HAL and d.get('method') == 'unshare') if c.id in r]
        ex = [e for e in sg.exits if any(e in sg.reach_fwd(list(sg.nodes[a].succ), avoid=av) for a in acts)]
        R.check(not ex, rule, '%s:relink-on-every-release-path' % pop_id, site(sg, n),
                'after `%s` is redirected to the released chain every loop-free path stores the saved old head into a released descriptor\'s link (%d relink stores)' % (fld, len(relinks)),
                'a release path sets the free-list head `%s` to the released chain but never links that chain to the previous free list (no store of the saved head '
                'into a released descriptor\'s `%s`): the free list then continues into whatever the stale link points at, so a descriptor of a chain still in flight '
                'can be handed out again' % (fld, nextf))
    return found
