"""C16 - network frames pass unmodified; receive buffers are never lost or duplicated.

Decided:
 S1 one selector: every function that chooses between the two header forms tests one boolean flag with the same
    polarity: flag set -> only the 10-byte legacy header type is used, flag clear -> only the 12-byte type
    (layouts per VirtIO 1.2 5.1.6).  (The flag's value is C08.H5.)
 S2 transmit shape: send submits [bytes-of(header), caller bytes] (header only for an empty frame), nothing writable; the
    header value is the all-zero Default.
 S3 receive arithmetic: receive_complete returns (header size, used length - header size) through checked_sub with
    the error edge returned (folded over lengths and both header forms).
 S4 buffer custody: receive takes the buffer out of the slot indexed by the completed token and compares the token
    with an index field of the buffer; recycle_rx_buffer stores the buffer into the slot of the token returned by the
    new add, after that add succeeded, and records that token in the same index field; can_recv <=> peek_used is
    Some; can_send <=> at least the descriptors of the transmit shape are free.
 S13 every non-error return of a blocking sender (raw driver or buffer-managing wrapper) follows the submission of the frame.
 S11 the flag's value follows the negotiated VERSION_1 / MRG_RXBUF bits (= C08.H5).
 S10 packet views: RxBuffer-like byte views are bytes[header size .. header size + recorded length], one length field.
 S5 completions consumed with a token read from the used ring use the buffer looked up by that token (C07.T5).
Not decided: "posted + owned = all buffers at all times" over histories.
"""
from .common import *
from ..paths import *
from . import C05

EXPLANATION = ("Header-size selection sites are found by their use of both header types' sizes and folded for both flag values; send / "
               "receive_complete / receive / recycle are path-enumerated with the queue API as events and checked for operand shape, "
               "folded length arithmetic and slot/token provenance.")
FLOORS = {'selector_sites': {'*': 3, 'noalloc': 2}, 'custody_fns': {'*': 2, 'noalloc': 0}, 'packet_views': {'*': 2, 'noalloc': 0}}
RAW = 'device::net::dev_raw::VirtIONetRaw'
NET = 'device::net::dev::VirtIONet'


def hdr_types(F):
    h12 = [n for n, a in F.adts.items() if n.startswith('device::net::') and a.get('layout', {}).get('size') == 12 and a['kind'] == 'struct' and 'Hdr' in n]
    h10 = [n for n, a in F.adts.items() if n.startswith('device::net::') and a.get('layout', {}).get('size') == 10 and a['kind'] == 'struct' and 'Hdr' in n]
    return h12, h10


def run(F, R):
    M = model(F)
    M.require_rings()
    roles = C05.classify_api(C05.queue_api(F, M))
    h12, h10 = hdr_types(F)
    R.check(len(h12) == 1 and len(h10) == 1, 'S1', 'header-layouts', 'device::net', '12-byte header %s, 10-byte legacy header %s' % (h12, h10),
            'virtio-net header types with sizes 12 and 10 not found: %s / %s' % (h12, h10))
    if len(h12) != 1 or len(h10) != 1:
        return
    h12, h10 = h12[0], h10[0]
    # field layout of the modern header
    offs = dict(zip([f['name'] for f in F.adts[h12]['variants'][0]['fields']], F.adts[h12]['layout']['offsets']))
    R.check(sorted(offs.values()) == [0, 1, 2, 4, 6, 8, 10], 'S1', 'header-fields', h12, 'fields at 0,1,2,4,6,8,10', 'virtio_net_hdr field offsets %s' % offs)
    s1_selector(F, R, roles, h12, h10)
    s10_packet_view(F, R, roles, h12, h10)
    s13_send_always_submits(F, R, M, roles)
    s15_tx_buffer_is_callers_bytes(F, R)
    # S14: one used buffer = one frame rests on mergeable receive buffers not being negotiated: the net driver's supported set does
    # not contain MRG_RXBUF (it never reads num_buffers) - C08.H2
    from .C08 import h2_supported
    _ct = [b_ for b_ in F.bodies.values() if b_.get('impl_adt') == RAW and F.handwritten(b_) and any(bl['term']['k'] == 'call' and bl['term'].get('method') == 'begin_init' for bl in b_['blocks'])]
    guard(R, 'S14', 'supported-set', lambda: h2_supported(F, RuleProxy(R, {'H2': 'S14'}, only=lambda inst: inst.endswith(':MRG_RXBUF')), _ct))
    # S11: the selector's value: the legacy-header flag is (not VERSION_1 and not MRG_RXBUF) of the negotiated set, whatever the
    # transport's queue layout (C08.H5) - otherwise both directions use a header of the wrong size
    from .C08 import h5_net
    guard(R, 'S11', 'flag-value', lambda: h5_net(F, RuleProxy(R, {'H5': 'S11'})))
    s2_send(F, R, M, roles, h12, h10)
    s3_receive(F, R, roles, h12, h10)
    s7_tx_length(F, R, roles, h12, h10)
    s8_wait_loops(F, R, roles)
    s4_custody(F, R, M, roles)
    # S5: a completion is consumed for the buffer the caller posted: wherever the network drivers complete a receive or
    # transmit with a token read from the used ring, the buffer is looked up by that token (shared with C07.T5)
    from .C07 import t5_token_provenance
    t5_token_provenance(F, R, M, rule='S5', only=lambda bb: 'device::net' in bb['id'])
    # S6: the receive / transmit queues run in the negotiated modes (C08.H3)
    from .C08 import queue_modes_rule
    queue_modes_rule(F, R, M, 'S6', ['device::net'])
    # S9: packets keep being received / transmit completions seen after the 16-bit ring indices wrap (65536 completions on one queue): wrap-safe
    # counters and the folded completion test (C03.E5 / E9)
    from .C03 import wrap_rule
    wrap_rule(F, R, 'S9')
    # S12: lengths and ids of completions come from the used-ring slot of the trusted index; a refused poll consumes nothing (C03.E1 / E2)
    from .C03 import pop_rule
    pop_rule(F, R, 'S12')


def sizeofs(t):
    return [x[1] for x in subterms(t) if x[0] == 'sizeof']


def s10_packet_view(F, R, roles, h12, h10):
    """The packet view of a receive buffer is the bytes after the header, as long as the recorded packet length: every function of
    the network module that returns a byte slice and selects between the header sizes returns bytes[H .. H + self.<len field>],
    the same length field in every view (a view of another range hands the caller bytes the device did not write as packet)."""
    fields = {}
    n = 0
    for b in sorted(F.bodies.values(), key=lambda x: x['id']):
        if not F.handwritten(b) or b['kind'] != 'AssocFn' or 'device::net' not in b['id'] or not re.search(r"-> &'?\w* ?(mut )?\[u8\]$", b.get('sig', '')):
            continue
        if b['arg_count'] != 1:
            continue
        # the header-size selection may sit in the view itself or in a private helper of the module (inlined)
        sg = supergraph(F, b['id'], opaque=lambda t, bb: not ('device::net' in bb['id'] and F.handwritten(bb) and not has_loop(bb)), tag='c16v')
        szs = set(n_.d['substs'][0] for n_ in sg.calls(lambda d: d.get('fn') == 'core::mem::size_of' and d.get('substs')))
        if not ({h12, h10} <= szs):
            continue
        where = fn_site(F, b['id'])
        try:
            paths = [p for p in PathEnum(sg).run() if not p.panicked]
        except PathLimit as e:
            R.abstain('S10', b['id'], str(e), where)
            continue
        n += 1
        bad = None
        for p in paths:
            rng = [x for x in subterms(p.ret) if x[0] == 'agg' and str(x[1]).endswith('Range')] if p.ret is not None else []
            if len(rng) != 1:
                bad = 'the returned slice is not one sub-range of the buffer bytes: %s' % fmt(p.ret)[:100]
                continue
            start, end = [strip_conv(o) for o in rng[0][2]][:2]
            hs = set(sizeofs(start)) & {h12, h10}
            if len(hs) != 1 or start[0] != 'sizeof':
                bad = 'the view does not start right after the header: start = %s' % fmt(start)[:80]
                continue
            ok = end[0] == 'bin' and end[1] in ('Add', 'AddWithOverflow') and strip_conv(end[2]) == start
            lf = strip_conv(end[3]) if ok else None
            if not ok or not (lf[0] in ('load', 'load0') and lf[1][2] and lf[1][2][-1][0] == 'f'):
                bad = 'the view does not end at header size + recorded packet length: end = %s' % fmt(end)[:100]
                continue
            fields.setdefault(lf[1][2][-1][1], []).append(b['id'])
        R.check(bad is None, 'S10', '%s:packet-view' % b['id'], where, 'returns bytes[header size .. header size + recorded length]',
                '%s: %s' % (b['name'], bad))
    if n:
        R.check(len(fields) == 1, 'S10', 'packet-view:one-length-field', 'device::net', 'every packet view uses the one recorded length field %s' % sorted(fields),
                'packet views use different length fields: %s' % fields)
    R.count('packet_views', n)


def s13_send_always_submits(F, R, M, roles):
    """Frames of every length, the empty one included, reach the device: a blocking sender (a public method of the network drivers
    that submits readable-only chains and waits, or a wrapper that calls such a method) has no path that returns anything but an
    explicit error without the submission."""
    base = set()
    for b in F.bodies.values():
        if b.get('impl_adt') not in (RAW, NET) or b['kind'] != 'AssocFn' or not b.get('pub') or not F.handwritten(b):
            continue
        sg0 = supergraph(F, b['id'], opaque=lambda t, bb: bb['id'] in roles, tag='c16sb')
        for n_ in sg0.calls(lambda d: roles.get(d.get('fn')) == 'add_notify_wait_pop'):
            outs = array_elems(sg0.sym, sg0.sym.operand(n_.id, n_.d['args'][2]))
            if outs is not None and len(outs) == 0:
                base.add(b['id'])
    senders = set(base)
    for b in F.bodies.values():
        if b.get('impl_adt') in (RAW, NET) and b['kind'] == 'AssocFn' and b.get('pub') and F.handwritten(b) and b['id'] not in base and \
                any(bl['term']['k'] == 'call' and bl['term'].get('fn') in base for bl in b['blocks']):
            senders.add(b['id'])
    n = 0
    for fid in sorted(senders):
        b = F.bodies[fid]
        sg = supergraph(F, fid, opaque=lambda t, bb: bb['id'] in roles or (bb['id'] in base and bb['id'] != fid), tag='c16s')
        where = fn_site(F, fid)
        try:
            paths = [p for p in PathEnum(sg).run() if not p.panicked]
        except PathLimit as e:
            R.abstain('S13', '%s:always-submits' % fid, str(e), where)
            continue
        n += 1
        bad = None
        for p in paths:
            sub = any(e[0] == 'call' and (roles.get(e[2]) in ('add_notify_wait_pop', 'add') or (e[2] in base and e[2] != fid)) for e in p.effects)
            if not sub and err_variant(p.ret) in (None, 'Ok'):
                bad = 'a path returns %s without handing the frame to the transmit queue' % (fmt(p.ret)[:50] if p.ret is not None else 'normally')
        R.check(bad is None and bool(paths), 'S13', '%s:always-submits' % fid, where, 'every non-error return follows the submission of the frame',
                '%s: %s (the caller is told the frame was sent)' % (b['name'], bad))
    R.count('blocking_senders', n)


def s15_tx_buffer_is_callers_bytes(F, R):
    """A transmit buffer built from the caller's bytes holds exactly those bytes: the conversions of the network module that turn a
    byte slice into the owned transmit buffer only copy (Vec::from / to_vec / extend from the parameter) - they never resize, pad,
    truncate or push."""
    n = 0
    for b in sorted(F.bodies.values(), key=lambda x: x['id']):
        if not F.handwritten(b) or 'device::net::net_buf' not in b['id'] or b['kind'] != 'AssocFn' or b['arg_count'] != 1:
            continue
        if not (b['locals'][1]['ty'].endswith('[u8]') and 'TxBuffer' in b['locals'][0]['ty']):
            continue
        n += 1
        sg = supergraph(F, b['id'], tag='flat', max_depth=0)
        bad = [c.d['fn'] for c in sg.calls(lambda d: d.get('fn', '').startswith('alloc::vec::Vec::') and d['fn'].rsplit('::', 1)[1] in
                                         ('resize', 'resize_with', 'push', 'truncate', 'insert', 'pop', 'set_len', 'extend_from_within'))]
        R.check(not bad, 'S15', '%s:tx-buffer-is-callers-bytes' % b['id'], fn_site(F, b['id']), 'only copies the parameter',
                '%s builds the transmit buffer with %s: the frame handed to the device is not exactly the caller\'s bytes (padding / truncation)' % (
                    b['name'], [x.rsplit('::', 1)[1] for x in bad]))
    R.count('tx_buffer_ctors', n)


def s1_selector(F, R, roles, h12, h10):
    for b in F.bodies.values():
        if not F.handwritten(b) or b['kind'] != 'AssocFn' or 'device::net' not in b['id']:
            continue
        txt = set()
        for bl in b['blocks']:
            t = bl['term']
            if t['k'] == 'call' and t.get('fn') == 'core::mem::size_of' and t.get('substs'):
                txt.add(t['substs'][0])
        uses_ty = set()
        for l in b['locals']:
            for h in (h12, h10):
                if h == l['ty'] or l['ty'].endswith(h) or ('&' + h) in l['ty']:
                    uses_ty.add(h)
        if not ({h12, h10} & (txt | uses_ty)):
            continue     # the function does not touch either header form
        sg = supergraph(F, b['id'], opaque=lambda t, bb: bb['id'] in roles or has_loop(bb), tag='c16')
        where = fn_site(F, b['id'])
        try:
            paths = [p for p in PathEnum(sg).run()]
        except PathLimit as e:
            R.abstain('S1', b['id'], str(e), where)
            continue
        R.count('selector_sites', 1)
        bad = None
        # a private helper may receive the flag as a bool parameter: accepted when every call site passes the flag field
        flag_params = set()
        if not b.get('pub'):
            fn_ = sg.entry_fn
            for k_ in range(1, fn_['arg_count'] + 1):
                if fn_['locals'][k_]['ty'] != 'bool':
                    continue
                sites_ok, nsites = True, 0
                for cb in F.bodies.values():
                    if not F.handwritten(cb) or not any(bl['term']['k'] == 'call' and bl['term'].get('fn') == b['id'] for bl in cb['blocks']):
                        continue
                    sgc = supergraph(F, cb['id'], tag='flat', max_depth=0)
                    for cn in sgc.calls(lambda d: d.get('fn') == b['id']):
                        nsites += 1
                        a_ = strip_conv(sgc.sym.operand(cn.id, cn.d['args'][k_ - 1]))
                        if not (a_[0] in ('load', 'load0') and a_[1][2] and a_[1][2][-1][0] == 'f' and 'legacy' in a_[1][2][-1][1]):
                            sites_ok = False
                if nsites and sites_ok:
                    flag_params.add(k_)
        for p in paths:
            flag = None
            for disc, (kind, vals), _ in p.conds:
                d = disc
                if (d[0] == 'load0' and d[1][2] and d[1][2][-1][0] == 'f' and 'legacy' in d[1][2][-1][1]) or (d[0] == 'param' and d[1] in flag_params):
                    flag = (kind == 'notin' and 0 in vals) or (kind == 'in' and vals == (1,))
            used = set()
            for disc, _, _ in p.conds:
                used |= set(sizeofs(disc))
            for e in p.effects:
                if e[0] == 'call':
                    for a in e[3]:
                        used |= set(sizeofs(a))
                    for sub in e[4].get('substs', []):
                        if sub in (h12, h10) or sub.endswith(h12) or sub.endswith(h10):
                            used.add(h12 if sub.endswith(h12) and not sub.endswith(h10) else h10)
                elif e[0] == 'store':
                    used |= set(sizeofs(e[3]))
            if p.ret is not None:
                used |= set(sizeofs(p.ret))
            used &= {h12, h10}
            if flag is None:
                if used:
                    bad = 'a path uses header type %s without testing the legacy-header flag' % sorted(used)
                continue
            want = h10 if flag else h12
            if used - {want}:
                bad = 'with the legacy flag %s the path uses %s (expected only %s)' % ('set' if flag else 'clear', sorted(used), want)
        R.check(bad is None, 'S1', '%s:selector' % b['id'], where, 'legacy flag set -> 10-byte header, clear -> 12-byte header',
                'header form selection: %s' % bad)


def s2_send(F, R, M, roles, h12, h10):
    for b in F.bodies.values():
        if b.get('impl_adt') != RAW or b['name'] != 'send' or b['kind'] != 'AssocFn':
            continue
        sg = supergraph(F, b['id'], opaque=lambda t, bb: bb['id'] in roles, tag='c16')
        S = sg.sym
        n_ok = 0
        undecided = False
        for n in sg.calls(lambda d: roles.get(d.get('fn')) == 'add_notify_wait_pop'):
            alts = array_alternatives(S, S.operand(n.id, n.d['args'][1]))
            outs = array_elems(S, S.operand(n.id, n.d['args'][2]))
            if alts is None:
                R.abstain('S2', '%s:shape' % b['id'], 'cannot recover buffer lists', site(sg, n))
                undecided = True
                continue
            for ins in alts:
                cls = []
                hdr_default = True
                for e in ins:
                    bo, ty, base = elem_object(sg, S, e)
                    v = local_value_of_ref(S, base)
                    if ty not in (h12, h10) and value_type(sg, v) in (h12, h10):
                        ty = value_type(sg, v)       # a header passed by value to a generic helper
                    if ty in (h12, h10):
                        cls.append('hdr')
                        if not is_default(v):
                            hdr_default = False
                    elif data_param(S, base):
                        cls.append('data')
                    else:
                        cls.append('?')
                ok = cls in (['hdr'], ['hdr', 'data']) and (outs == [] or outs is not None and not outs) and hdr_default
                n_ok += 1
                R.check(ok, 'S2', '%s:shape:%s' % (b['id'], '+'.join(cls)), site(sg, n), 'readable %s, nothing writable, zeroed header' % cls,
                        'send submits readable %s writable %s (zeroed default header: %s); expected [header] or [header, caller bytes]' % (cls, outs, hdr_default))
        if undecided:
            continue
        R.check(n_ok >= 2, 'S2', '%s:sites' % b['id'], fn_site(F, b['id']), '%d submission sites' % n_ok, 'send has %d submission sites' % n_ok)


def data_param(S, base):
    """Is this the caller's packet slice: a parameter of the entry point, possibly handed on to an inlined helper?"""
    for _ in range(4):
        if base[0] == 'param':
            return True
        if base[0] == 'ref' and base[1][1][0] == 'deref':
            base = strip_ptr(base[1][1][1])
            continue
        if base[0] == 'ref' and base[1][1][0] == 'local' and not base[1][2]:
            v = local_value_of_ref(S, base)
            if v is None:
                return False
            base = strip_ptr(v)
            continue
        return False
    return False


def is_default(v):
    if v is None:
        return False
    if v[0] == 'call' and v[2] == 'core::default::Default::default':
        return True
    if v[0] == 'const' and v[1] == 0:
        return True
    if v[0] == 'agg':
        return all(is_default(x) for x in v[2])
    if v[0] == 'phi':
        return all(is_default(x) for x in v[1])
    return False


def s7_tx_length(F, R, roles, h12, h10):
    """A frame to transmit is refused exactly when it is shorter than the header of the negotiated form: the length test of
    the transmit path is folded over lengths around both header sizes."""
    n = 0
    for b in F.bodies.values():
        if not F.handwritten(b) or b['kind'] != 'AssocFn' or b.get('impl_adt') != RAW:
            continue
        if any(bl['term']['k'] == 'call' and (bl['term'].get('fn') in roles or (F.bodies.get(bl['term'].get('fn')) or {}).get('impl_adt') == RAW) for bl in b['blocks']):
            continue      # only the pure length tests / header writers, not the operations that call them
        fn = b
        slices = [i + 1 for i, l in enumerate(fn['locals'][1:fn['arg_count'] + 1]) if l['ty'].endswith('[u8]')]
        if len(slices) != 1 or '-> core::result::Result<' not in b.get('sig', ''):
            continue
        if not any(bl['term']['k'] == 'call' and bl['term'].get('fn') == 'core::mem::size_of' and (bl['term'].get('substs') or [''])[0] in (h12, h10) for bl in b['blocks']):
            continue
        sg = supergraph(F, b['id'], opaque=lambda t, bb: bb['id'] in roles or has_loop(bb), tag='c16')
        try:
            paths = PathEnum(sg).run()
        except PathLimit:
            continue
        n += 1
        bad = None
        rows = 0
        for legacy in (0, 1):
            hs = 10 if legacy else 12
            for L in (0, 1, 9, 10, 11, 12, 13, 64, 1514):
                def leaf(t, legacy=legacy, L=L):
                    if t[0] in ('load0', 'load') and t[1][2] and t[1][2][-1][0] == 'f' and 'legacy' in t[1][2][-1][1]:
                        return legacy
                    if t[0] == 'param' and fn['locals'][t[1]]['ty'] == 'bool':
                        return legacy
                    if t[0] == 'call' and t[2].endswith('::len'):
                        return L
                    if 'log::' in fmt(t):
                        return 0
                    raise Unfoldable(fmt(t)[:80])
                fo = Folder(leaf)
                try:
                    hit = [p for p in paths if not p.panicked and path_holds(fo, p)]
                except Unfoldable as e:
                    bad = 'unfoldable: %s' % e
                    break
                rows += 1
                if len(hit) != 1:
                    bad = 'legacy=%d length %d: %d feasible paths' % (legacy, L, len(hit))
                    break
                ok_ret = err_variant(hit[0].ret) == 'Ok'
                if ok_ret != (L >= hs):
                    bad = 'a %d-byte transmit buffer with the %d-byte header form is %s' % (L, hs, 'accepted' if ok_ret else 'refused')
                    break
            if bad:
                break
        R.tables += rows
        if bad and bad.startswith('unfoldable'):
            R.abstain('S7', b['id'], bad, fn_site(F, b['id']))
            continue
        R.check(bad is None, 'S7', '%s:tx-length' % b['id'], fn_site(F, b['id']), 'accepted iff length >= header size (%d rows)' % rows, 'transmit length test: %s' % bad)
    R.count('tx_length_tests', n)


def s8_wait_loops(F, R, roles):
    """A blocking receive waits *until* a completion is there: a loop of the network driver whose condition tests the result of a
    completion poll (peek_used / a driver method returning its token) keeps spinning on the None edge and leaves on the Some edge."""
    n = 0
    pollers = set(b['id'] for b in F.bodies.values() if b.get('impl_adt') in (RAW, NET) and F.handwritten(b) and b['kind'] == 'AssocFn'
                  and any(bl['term']['k'] == 'call' and roles.get(bl['term'].get('fn')) == 'peek_used' for bl in b['blocks'])) | \
        set(k for k, v in roles.items() if v == 'peek_used')
    for b in F.bodies.values():
        if b.get('impl_adt') not in (RAW, NET) or not F.handwritten(b) or b['kind'] != 'AssocFn' or not has_loop(b):
            continue
        sg = supergraph(F, b['id'], tag='flat', max_depth=0)
        S = sg.sym
        for m in sg.nodes:
            if m.kind != 'switch':
                continue
            d = S.operand(m.id, m.d['discr'])
            kind = None
            if d[0] == 'call' and d[2].rsplit('::', 1)[-1] in ('is_none', 'is_some') and any(x[0] == 'call' and x[2] in pollers for x in deep_subterms(S, d)):
                kind = d[2].rsplit('::', 1)[-1]
            elif d[0] == 'discr' and any(x[0] == 'call' and x[2] in pollers for x in deep_subterms(S, d)):
                kind = 'discr'
            if kind is None:
                continue
            explicit = [x for x, _ in m.switch_edges if x is not None]
            for val, sc in m.switch_edges:
                loops_back = m.id in sg.reach_fwd([sc])
                if not any(m.id in sg.reach_fwd([s2]) for _, s2 in m.switch_edges):
                    continue       # not a loop condition
                truth = (val is not None and val != 0) or (val is None and 0 in explicit)
                none_edge = truth if kind == 'is_none' else (not truth)
                n += 1
                if loops_back != none_edge:
                    R.violated('S8', '%s:wait-loop' % b['id'], site(sg, m), '%s %s when the completion poll yields %s: the blocking receive returns before the device has '
                               'completed the buffer (and spins forever once it has)' % (b['name'], 'keeps waiting' if loops_back else 'stops waiting', 'None' if none_edge else 'a token'))
                    break
            else:
                R.held('S8', '%s:wait-loop' % b['id'], site(sg, m), 'spins while the completion poll yields None')
    R.count('wait_loop_edges', n)


def s3_receive(F, R, roles, h12, h10):
    for b in F.bodies.values():
        if b.get('impl_adt') != RAW or b['name'] != 'receive_complete':
            continue
        sg = supergraph(F, b['id'], opaque=lambda t, bb: bb['id'] in roles, tag='c16')
        paths = PathEnum(sg).run()
        where = fn_site(F, b['id'])
        bad = None
        for legacy in (0, 1):
            hs = 10 if legacy else 12
            for L in (0, 1, 9, 10, 11, 12, 13, 64, 1514, 65535):
                def leaf(t):
                    if t[0] == 'load0' and t[1][2] and t[1][2][-1][0] == 'f' and 'legacy' in t[1][2][-1][1]:
                        return legacy
                    if t[0] == 'discr' and t[1][0] == 'call' and roles.get(t[1][2]) == 'pop_used':
                        return 0
                    if t[0] == 'field' and t[1][0] == 'downcast' and t[1][1][0] == 'call' and roles.get(t[1][1][2]) == 'pop_used':
                        return L
                    raise Unfoldable(fmt(t)[:80])
                fo = Folder(leaf)
                try:
                    hit = [p for p in paths if path_holds(fo, p)]
                except Unfoldable as e:
                    R.abstain('S3', b['id'], 'cannot fold: %s' % e, where)
                    return
                R.tables += 1
                if len(hit) != 1 or hit[0].panicked:
                    bad = 'legacy=%d used length %d: %s' % (legacy, L, 'panics' if hit and hit[0].panicked else '%d paths' % len(hit))
                    break
                ev = err_variant(hit[0].ret)
                if L < hs:
                    if ev in ('Ok', None):
                        bad = 'legacy=%d used length %d shorter than the header: returns %s' % (legacy, L, ev)
                        break
                else:
                    if ev != 'Ok':
                        bad = 'legacy=%d used length %d (header %d + %d frame bytes): returns %s, expected (%d, %d)' % (legacy, L, hs, L - hs, ev, hs, L - hs)
                        break
                    tup = hit[0].ret[2][0]
                    try:
                        got = (fo.ev(tup[2][0]), fo.ev(tup[2][1]))
                    except Unfoldable as e:
                        bad = 'unfoldable result %s' % e
                        break
                    if ev != 'Ok' or got != (hs, L - hs):
                        bad = 'legacy=%d used length %d: returns %s %s, expected (%d, %d)' % (legacy, L, ev, got, hs, L - hs)
                        break
            if bad:
                break
        R.check(bad is None, 'S3', '%s:lengths' % b['id'], where, 'returns (header size, used length - header size) or an error', 'receive length arithmetic: %s' % bad)


def s4_custody(F, R, M, roles, rule='S4', only=None):
    if NET not in F.adts:
        R.note('%s: %s not present in this configuration' % (rule, NET))
        return
    raw_ops = {b['id']: b['name'] for b in F.bodies.values() if b.get('impl_adt') == RAW and b['kind'] == 'AssocFn'}
    qids = set(roles) | set(b['id'] for b in queue_entry_points(F, M))
    opq = lambda t, bb: bb['id'] in qids
    idx_field = None
    for b in F.bodies.values():
        if b.get('impl_adt') != NET or b['kind'] != 'AssocFn' or not b.get('pub'):
            continue
        if b['name'] == 'receive':
            R.count('custody_fns', 1)
            sg = supergraph(F, b['id'], opaque=opq, tag='c16')
            paths = [p for p in PathEnum(sg).run() if not p.panicked]
            where = fn_site(F, b['id'])
            okp = [p for p in paths if err_variant(p.ret) == 'Ok']
            good = bool(okp)
            for p in okp:
                peeks = [e for e in p.effects if e[0] == 'call' and roles.get(e[2]) == 'peek_used']
                pops = [e for e in p.effects if e[0] == 'call' and roles.get(e[2]) == 'pop_used']
                takes = [e for e in p.effects if e[0] == 'call' and (e[2].endswith('::take') or e[2] == 'core::mem::take')]
                cmp_ = None
                for disc, (kind, vals), _ in p.conds:
                    d = disc
                    if d[0] == 'bin' and d[1] in ('Ne', 'Eq') and peeks and derives_from(d, lambda x: x[0] == 'call' and x[1] == peeks[0][1]):
                        for side in (d[2], d[3]):
                            for x in subterms(side):
                                if x[0] in ('field',) and isinstance(x[2], str) and not x[2].isdigit():
                                    cmp_ = x[2]
                                if x[0] in ('load', 'load0') and x[1][2] and x[1][2][-1][0] == 'f':
                                    cmp_ = x[1][2][-1][1]
                idx_field = idx_field or cmp_
                # ... and the Ok path lies on the *equal* edge of that comparison
                for disc, (kind, vals), _ in p.conds:
                    d = disc
                    if d[0] == 'bin' and d[1] in ('Ne', 'Eq') and peeks and derives_from(d, lambda x: x[0] == 'call' and x[1] == peeks[0][1]):
                        truth = (kind == 'notin' and 0 in vals) or (kind == 'in' and 0 not in vals)
                        if (d[1] == 'Ne' and truth) or (d[1] == 'Eq' and not truth):
                            cmp_ = None
                            det_pol = True
                slot_ok = bool(takes) and peeks and any(derives_from(e[3][0], lambda x: x[0] == 'call' and x[1] == peeks[0][1]) for e in takes)
                pop_ok = bool(pops) and peeks and derives_from(pops[0][3][1], lambda x: x[0] == 'call' and x[1] == peeks[0][1])
                if not (slot_ok and pop_ok and cmp_):
                    good = False
                    det = 'slot indexed by the peeked token=%s, pop_used with that token=%s, token compared with a buffer index field=%s' % (slot_ok, pop_ok, cmp_)
            R.check(good, rule, '%s:take-by-token' % b['id'], where, 'buffer taken from the slot of the completed token and checked against its recorded index `%s`' % idx_field,
                    'receive does not take the buffer of the completed token: %s' % (det if not good and okp else 'no Ok path'))
            # the slot is the driver's only record that the id is in flight: it is vacated before the completion is consumed, on
            # every path that consumes one - also those that fail afterwards (short length) - so a repeated id finds it empty
            late = None
            for p in paths:
                pk = [k for k, e in enumerate(p.effects) if e[0] == 'call' and roles.get(e[2]) == 'pop_used']
                if not pk:
                    continue
                tk = [k for k, e in enumerate(p.effects) if e[0] == 'call' and (e[2].endswith('::take') or e[2] == 'core::mem::take')
                      and any(pp[0] == 'idx' for x in subterms(e[3][0]) if x[0] == 'loc' for pp in x[2])]
                if not tk or min(tk) > pk[0]:
                    late = 'a path returning %s consumes the completion %s' % (err_variant(p.ret), 'before the slot is vacated' if tk else 'and never vacates the slot')
            # the length the caller sees is this completion's: every Ok path stores a value derived from the pop_used result
            # into the returned buffer (a recycled buffer otherwise keeps the length of the frame it carried before)
            stale = None
            for p in okp:
                pops_ = [e for e in p.effects if e[0] == 'call' and roles.get(e[2]) == 'pop_used']
                sets = [e for e in p.effects if e[0] == 'store' and pops_ and derives_from(e[3], lambda x: x[0] == 'call' and x[1] == pops_[0][1])]
                if pops_ and not sets:
                    stale = 'a successful path returns the buffer without recording the received length'
            R.check(stale is None, rule, '%s:length-recorded' % b['id'], where, 'every Ok path records the length derived from the used length',
                    'receive: %s (e.g. only when it is non-zero): the buffer then reports the length of an earlier frame' % stale)
            R.check(late is None, rule, '%s:slot-vacated-before-pop' % b['id'], where, 'the in-flight slot is taken before pop_used on every consuming path',
                    'receive: %s; if the pop succeeds but receive then fails, the slot still claims the id is in flight and a repeated '
                    'used id releases the descriptor a second time' % late)
    for b in F.bodies.values():
        if b.get('impl_adt') != NET or b['kind'] != 'AssocFn' or not b.get('pub'):
            continue
        if b['name'] == 'recycle_rx_buffer':
            R.count('custody_fns', 1)
            sg = supergraph(F, b['id'], opaque=opq, tag='c16')
            paths = [p for p in PathEnum(sg).run() if not p.panicked]
            where = fn_site(F, b['id'])
            okp = [p for p in paths if err_variant(p.ret) == 'Ok']
            good = bool(okp)
            det = ''
            for p in okp:
                adds = [e for e in p.effects if e[0] == 'call' and roles.get(e[2]) == 'add']
                stores = [e for e in p.effects if e[0] == 'store']
                slot = [e for e in stores if any(pp[0] == 'idx' for pp in e[2][2]) and adds and any(
                    derives_from(pp[1], lambda x: x[0] == 'call' and x[1] == adds[0][1]) for pp in e[2][2] if pp[0] == 'idx')]
                rec = [e for e in stores if e[2][2] and e[2][2][-1][0] == 'f' and e[2][2][-1][1] == idx_field and adds and
                       derives_from(e[3], lambda x: x[0] == 'call' and x[1] == adds[0][1])]
                if not adds or not slot or (idx_field and not rec):
                    good = False
                    det = 'add performed=%s, buffer stored in the slot of the new token=%s, token recorded in `%s`=%s' % (bool(adds), bool(slot), idx_field, bool(rec))
                # the slot of the new token must be *empty* on the storing path (an occupied slot means the token is already in
                # flight): is_some(slot) false / is_none(slot) true / discriminant None
                for disc, (kind, vals), _ in p.conds:
                    d = disc
                    truth = (kind == 'notin' and 0 in vals) or (kind == 'in' and 0 not in vals)
                    if d[0] == 'call' and d[2].rsplit('::', 1)[-1] in ('is_some', 'is_none') and adds and derives_from(d, lambda x: x[0] == 'call' and x[1] == adds[0][1]):
                        occupied = truth if d[2].endswith('is_some') else not truth
                        if occupied:
                            good = False
                            det = 'the buffer is stored on the path where the slot of the new token is already occupied (and refused when it is free)'
                    elif d[0] == 'call' and d[2].rsplit('::', 1)[-1] in ('is_some', 'is_none') and adds and slot:
                        # an occupancy test of the buffer table that does not look at the slot of the new token (e.g. the buffer's old
                        # index): the refusal it guards then drops a buffer that has just been posted
                        tbl = [pp[1] for pp in slot[0][2][2] if pp[0] == 'f']
                        on_table = any(x[0] == 'loc' and any(pp[0] == 'idx' for pp in x[2]) and any(pp[0] == 'f' and pp[1] in tbl for pp in x[2]) for x in subterms(d))
                        if on_table:
                            good = False
                            det = 'the occupancy test guarding the store looks at slot %s, not at the slot of the token the new add returned' % fmt(d)[:70]
            R.check(good, rule, '%s:store-by-new-token' % b['id'], where, 'recycled buffer stored in the slot of the new token, which is recorded in `%s`' % idx_field,
                    'recycle_rx_buffer breaks the token <-> buffer mapping that receive() relies on: %s' % det)
        if b['name'] == 'can_recv' and not only:
            sg = supergraph(F, b['id'], opaque=opq, tag='c16')
            paths = [p for p in PathEnum(sg).run() if not p.panicked]
            ok = all(p.ret is not None and derives_from(p.ret, lambda x: x[0] == 'call' and roles.get(x[2]) == 'peek_used') for p in paths) and bool(paths)
            # folded: true exactly when peek_used yields Some
            pol = None
            for some in (0, 1):
                def leaf(t, some=some):
                    t_ = t
                    if t_[0] == 'discr':
                        t_ = t_[1]
                    if t_[0] == 'call' and roles.get(t_[2]) == 'peek_used':
                        return some
                    if t[0] == 'call' and t[2].rsplit('::', 1)[-1] in ('is_some', 'is_none') and t[3]:
                        inner = strip_ptr(t[3][0])
                        v_ = local_value_of_ref(sg.sym, inner) if inner[0] == 'ref' else inner
                        if v_ is not None and v_[0] == 'call' and roles.get(v_[2]) == 'peek_used':
                            return some if t[2].endswith('is_some') else 1 - some
                    raise Unfoldable(fmt(t)[:60])
                fo = Folder(leaf)
                try:
                    hit = [p for p in paths if path_holds(fo, p)]
                    got = fo.ev(hit[0].ret) if len(hit) == 1 else None
                except Unfoldable:
                    got = None
                    ok = ok and False
                if got is not None and bool(got) != bool(some):
                    pol = 'reports %s when the used ring %s a completed buffer' % ('ready' if got else 'not ready', 'holds' if some else 'does not hold')
            R.check(ok and pol is None, rule, '%s:readiness' % b['id'], fn_site(F, b['id']), 'can_recv is true exactly when peek_used yields a token',
                    'can_recv does not reflect the used ring: %s' % (pol or 'it does not derive from peek_used'))
    for b in F.bodies.values():
        if b.get('impl_adt') == RAW and b['name'] == 'can_send' and not only:
            sg = supergraph(F, b['id'], opaque=opq, tag='c16')
            paths = [p for p in PathEnum(sg).run() if not p.panicked]
            bad = None
            for av in (0, 1, 2, 3, 16):
                def leaf(t):
                    if t[0] == 'call' and t[2].endswith('available_desc'):
                        return av
                    raise Unfoldable(fmt(t)[:60])
                fo = Folder(leaf)
                try:
                    got = [fo.ev(p.ret) for p in paths if path_holds(fo, p)]
                except Unfoldable as e:
                    bad = 'unfoldable %s' % e
                    break
                if got != [int(av >= 2)]:
                    bad = '%d free descriptors -> can_send = %s' % (av, got)
            R.check(bad is None, rule, '%s:readiness' % b['id'], fn_site(F, b['id']), 'can_send <=> 2 descriptors (header + frame) are free', 'can_send: %s' % bad)
