"""C01 - published chains are well-formed and describe the caller's buffers.

Decided (structural, on the polymorphic MIR):
 F1 descriptor contents by provenance: in the function that shares a buffer (the one calling Hal::share), addr
    = the share result of *that* buffer, len = len of that buffer, flags = extra | (WRITE iff DeviceToDriver),
    Both panics; folded over all extra/old-flag values.  At each (inlined) use on the add path the buffer and
    direction are the two halves of the same iterator item, extra = NEXT for chain elements, exactly INDIRECT for
    the head of an indirect submission whose buffer is bytes-of(table) and direction DriverToDevice.
 F2 readable before writable: the item producer yields device-writable items only on the path where the readable
    list is exhausted, and tags items DriverToDevice / DeviceToDriver by the list they come from.
 F3 last element: on every add path NEXT is removed from an element after the item loop (shape).
 F4 indirect only when enabled: INDIRECT is stored only on paths guarded by the queue's indirect flag, which is
    written only by the constructor.
 F5 publication: exactly one avail.ring store and one avail.idx store on Ok paths, none on Err paths; slot index =
    trusted index & (SIZE-1) of the pre-increment index; stored value = returned head.
 F6 table coherence: on the submission path every descriptor field the driver follows (addr,len,flags,next) is
    copied from the shadow element to the device table.
 F7 release relinks the freed chain to the previous free list (C03.E6).  F8 the submission form agrees with the capacity
    test (C03.E3).  F9 every share/unshare receives the queue's one access-platform field (C04.P9).
 F12 the device is told where the rings are: transports' queue_set write each area address, low and high word, into that
     area's registers (= C10.M2 / C11.W3 traces); F11 also carries C06.L3's accessor / ring-pointer obligations.
Not decided: acyclicity / disjointness of chains over unbounded histories (free-list shape).
"""
from .common import *
from ..paths import *

EXPLANATION = ("Provenance and guarded-expression rules over the inlined MIR of VirtQueue::add: the function that calls "
               "Hal::share is path-enumerated and its descriptor field stores are folded over all flag/direction values; "
               "each inlined use is checked for item/direction pairing and extra-flag constants; the item producer is "
               "path-enumerated for readable-before-writable; publication and shadow->device coherence are path/who-writes "
               "queries. Holds for every SIZE/Hal/history because only the polymorphic bodies are inspected.")
FLOORS = {'share_sites': 1, 'share_contexts': 1, 'producer_paths': 2,
          'ring_store': 1, 'idx_store': 1}

NEXT, WRITE, INDIRECT = 1, 2, 4


def find_fn_with_call(F, trait, method):
    out = []
    for b in F.bodies.values():
        if not F.handwritten(b):
            continue
        for bl in b['blocks']:
            t = bl['term']
            if t['k'] == 'call' and t.get('trait') == trait and t.get('method') == method:
                out.append(b['id'])
                break
    return out


def run(F, R):
    M = model(F)
    M.require_rings()
    share_fns = find_fn_with_call(F, HAL, 'share')
    R.count('share_sites', len(share_fns))
    dir_adt = 'hal::BufferDirection'
    dvars = {v['name']: int(v['discr']) for v in F.adts[dir_adt]['variants']} if dir_adt in F.adts else {}
    flags_field = M.desc_field_by_role['flags']
    flags_ty = [f['ty'] for f in F.adts[M.desc_adt]['variants'][0]['fields'] if f['name'] == flags_field][0]
    for sf in share_fns:
        f1_share_fn(F, R, M, sf, dvars, flags_ty)
    # the entry points that publish: API methods whose (inlined) graph stores avail.idx and that do not merely wrap
    # another publishing API method
    cand = []
    for b in queue_api_entry_points(F, M):
        sg = supergraph(F, b['id'])
        acc = device_accesses(sg, M)
        if any(a.kind == 'store' and a.area == 'avail.idx' for a in acc):
            cand.append((b['id'], set(c.fn['id'] for c in sg.ctxs[1:])))
    cand_ids = set(c for c, _ in cand)
    pubs = [c for c, inl in cand if not (inl & (cand_ids - {c}))]
    if not pubs:
        raise Undecided('no public queue method stores avail.idx')
    for add_id in pubs:
        sg = supergraph(F, add_id)
        acc = device_accesses(sg, M)
        f1_uses(F, R, M, sg, share_fns, dvars)
        f3_last(F, R, M, sg, acc)
        f4_indirect(F, R, M, sg)
        f5_publication(F, R, M, sg, acc)
        f6_coherence(F, R, M, sg, acc)
    f2_producer(F, R, M, pubs, dvars)
    # F8: the form chosen (direct chain vs one indirect table) agrees with the capacity test that admitted the
    # submission, so the chain written always fits the descriptors reserved for it (shared with C03.E3)
    # F10: free-running ring indices only through wrapping arithmetic (a wrong wrap makes stale used entries release chains
    # that are still outstanding - one descriptor then belongs to two chains); shared with C03.E5
    from .C03 import counters_rule
    counters_rule(F, R, 'F10')
    # F14: indirect tables are used only when enabled for the queue: every driver constructs its queues with indirect = the negotiated
    # INDIRECT_DESC bit (C08.H3)
    from .C08 import queue_modes_rule
    queue_modes_rule(F, R, M, 'F14', ['device::'])
    # F11: the device finds the ring slot of an entry with the queue size it was told: queue_set receives SIZE (and the
    # queue's own index and areas) - shared with C06.L3
    from .C06 import registration_rule
    buffer_iter_rule(F, R, 'F13')
    registration_rule(F, R, 'F11')
    # F12: ... and at the addresses it was told: each transport's queue_set writes every area address, low and high word, into
    # that area's own registers (shared with C10.M2 / C11.W3)
    transport_registration_rule(F, R, 'F12')
    transport_registration_rule(F, R, 'F12', op='set_guest_page_size')      # a legacy device multiplies the registered page frame number by it
    from .C03 import e3_capacity
    for add_id in pubs:
        e3_capacity(F, R, M, add_id, rule='F8', rule1='F8')
    # F9: the device address written into each element is the one valid for the negotiated platform-access mode:
    # every share (and the matching unshare) receives the queue's one access-platform field (shared with C04.P9)
    from .C04 import p9_platform_flag
    p9_platform_flag(F, R, M, rule='F9')
    # F7: no descriptor in two outstanding chains - necessary condition on the release path (shared with C03.E6)
    from .C03 import e6_relink
    from . import C05 as _c5
    _roles = _c5.classify_api(_c5.queue_api(F, M))
    for _k, _v in _roles.items():
        if _v == 'pop_used':
            e6_relink(F, R, M, _k, rule='F7')


@shared_rule
def buffer_iter_rule(F, R, rule):
    """One descriptor per buffer: the iterator that feeds the descriptor writers (Item carries the buffer direction) yields exactly one
    item for every buffer of the two lists - its `next` is loop-free and returns Some on every path on which it took an element
    off a list, None only when both lists are exhausted.  The writers size tables and count descriptors by the list lengths, so
    an iterator that skips elements (empty buffers, say) leaves part of a published table unwritten."""
    n = 0
    for b in sorted(F.bodies.values(), key=lambda x: x['id']):
        if b.get('impl_trait') != 'core::iter::Iterator' or b['name'] != 'next' or not F.handwritten(b) or not b['id'].startswith('<queue::'):
            continue
        n += 1
        where = fn_site(F, b['id'])
        if has_loop(b):
            R.check(False, rule, '%s:one-item-per-buffer' % b['id'], where, 'loop-free next()',
                    'the buffer iterator\'s next() loops (it can skip list elements): the number of descriptors written no longer equals the number of buffers counted')
            continue
        sg = supergraph(F, b['id'], tag='flat', max_depth=0)
        bad = None
        for p in PathEnum(sg).run():
            if p.panicked:
                continue
            took = False
            for c in p.conds:
                d = c[0]
                if d[0] == 'discr' and d[1][0] == 'call' and c[1][0] == 'in' and 0 not in c[1][1]:
                    took = True
            ev = err_variant(p.ret)
            if took and ev != 'Some':
                bad = 'a path takes an element off a list and returns %s' % ev
            if not took and ev == 'Some':
                bad = 'a path returns an item without taking an element'
        R.check(bad is None, rule, '%s:one-item-per-buffer' % b['id'], where, 'Some exactly on the paths that take an element', 'buffer iterator: %s' % bad)
    R.count('buffer_iters', n)


def share_fn_rule(F, R, rule):
    """The descriptor-filling function (the one calling Hal::share) checked under another property's rule name."""
    M = model(F)
    M.require_rings()
    share_fns = find_fn_with_call(F, HAL, 'share')
    dir_adt = 'hal::BufferDirection'
    dvars = {v['name']: int(v['discr']) for v in F.adts[dir_adt]['variants']} if dir_adt in F.adts else {}
    flags_field = M.desc_field_by_role['flags']
    flags_ty = [f['ty'] for f in F.adts[M.desc_adt]['variants'][0]['fields'] if f['name'] == flags_field][0]
    if not share_fns:
        raise Undecided('no function calls Hal::share')
    for sf in share_fns:
        f1_share_fn(F, R, M, sf, dvars, flags_ty, rule=rule)


def f1_share_fn(F, R, M, sf, dvars, flags_ty, rule='F1'):
    sg = supergraph(F, sf)
    fn = sg.entry_fn
    ptys = [l['ty'] for l in fn['locals'][1:fn['arg_count'] + 1]]
    # parameter roles by type
    p_dir = [i + 1 for i, t in enumerate(ptys) if t == 'hal::BufferDirection']
    p_flags = [i + 1 for i, t in enumerate(ptys) if t == flags_ty]
    p_buf = [i + 1 for i, t in enumerate(ptys) if t.startswith('core::ptr::NonNull<[u8]>')]
    where = fn_site(F, sf)
    if len(p_dir) != 1 or len(p_buf) != 1:
        R.abstain(rule, '%s:params' % sf, 'cannot identify buffer/direction parameters by type: %s' % ptys, where)
        return
    pd, pb = p_dir[0], p_buf[0]
    try:
        paths = PathEnum(sg).run()
    except PathLimit as e:
        R.abstain(rule, '%s:paths' % sf, str(e), where)
        return
    normal = [p for p in paths if not p.panicked]
    seen_dirs = set()
    for p in paths:
        dval = None
        for disc, (kind, vals), _ in p.conds:
            if disc == ('discr', ('param', pd)) and kind == 'in' and len(vals) == 1:
                dval = vals[0]
        dname = [k for k, v in dvars.items() if v == dval]
        dname = dname[0] if dname else '?'
        if p.panicked:
            if dname == 'Both':
                R.held(rule, '%s:Both-panics' % sf, where, 'direction Both never yields a descriptor')
            continue
        seen_dirs.add(dname)
        inst = '%s:%s' % (sf, dname)
        stores = {}
        for e in p.effects:
            if e[0] == 'store':
                for pp in e[2][2]:
                    if pp[0] == 'f' and len(pp) > 2 and pp[2] == M.desc_adt:
                        stores.setdefault(M.desc_fields.get(pp[1]), []).append(e)
        shares = [e for e in p.effects if e[0] == 'call' and e[4].get('trait') == HAL and e[4].get('method') == 'share']
        # addr
        ok = False
        det = 'no addr store'
        if len(shares) == 1 and len(stores.get('addr', [])) == 1:
            v = stores['addr'][0][3]
            sh = shares[0]
            ok = v[0] == 'call' and v[1] == sh[1] and sh[3][0] == ('param', pb) and sh[3][1] == ('param', pd)
            det = 'addr <- %s' % fmt(v)
        R.check(ok, rule, inst + ':addr', where, det,
                'descriptor addr is not the result of Hal::share(buffer, direction) of this descriptor\'s buffer: ' + det)
        # len
        ok = False
        det = 'no len store'
        if len(stores.get('len', [])) == 1:
            v = stores['len'][0][3]
            lens = [x for x in subterms(v) if x[0] == 'call' and x[2].endswith('::len') and x[3] and strip_ptr(x[3][0]) == ('param', pb)]
            others = [x for x in subterms(v) if x[0] == 'param' and x != ('param', pb)]
            ok = bool(lens) and not others
            det = 'len <- %s' % fmt(v)
        R.check(ok, rule, inst + ':len', where, det, 'descriptor len does not derive from the length of this buffer: ' + det)
        # flags, folded over extra and old values
        ok = False
        det = 'no flags store'
        if len(stores.get('flags', [])) == 1:
            v = stores['flags'][0][3]
            want_w = WRITE if dname == 'DeviceToDriver' else 0
            bad = None
            rows = 0
            for extra in (0, NEXT, INDIRECT, NEXT | INDIRECT):
                for old in (0, WRITE, NEXT | WRITE | INDIRECT):
                    def leaf(t, extra=extra, old=old):
                        for x in subterms(t):
                            if x == ('param', p_flags[0] if p_flags else -1):
                                return extra
                        if t[0] in ('load0',) or (t[0] == 'field' and derives_from(t, lambda y: y[0] == 'load0')):
                            return old
                        raise Unfoldable(fmt(t))
                    try:
                        got = Folder(leaf).ev(v)
                    except Unfoldable as e:
                        bad = 'unfoldable: %s' % e
                        break
                    rows += 1
                    if got != (extra | want_w):
                        bad = 'extra=%d old=%d -> flags=%d, expected %d' % (extra, old, got, extra | want_w)
                        break
                if bad:
                    break
            R.tables += rows
            if bad and bad.startswith('unfoldable'):
                R.abstain(rule, inst + ':flags', bad, where)
                continue
            ok = bad is None
            det = 'flags <- %s%s' % (fmt(v), '' if ok else ' ; ' + bad)
        R.check(ok, rule, inst + ':flags', where, det,
                'descriptor flags are not exactly extra|%s for direction %s (VirtIO 1.2 2.7.5): %s' % (
                    'WRITE' if dname == 'DeviceToDriver' else '0', dname, det))
    for need in ('DriverToDevice', 'DeviceToDriver'):
        if need not in seen_dirs:
            R.violated(rule, '%s:%s:missing' % (sf, need), where, 'no normal path for direction %s' % need)


def f1_uses(F, R, M, sg, share_fns, dvars):
    S = sg.sym
    n_ctx = 0
    for c in sg.ctxs:
        if c.fn['id'] not in share_fns or c.parent is None:
            continue
        n_ctx += 1
        fn = c.fn
        ptys = [l['ty'] for l in fn['locals'][1:fn['arg_count'] + 1]]
        call = sg.nodes[c.call]
        args = [S.operand(call.id, a) for a in call.d['args']]
        buf = dirn = extra = None
        for t, a in zip(ptys, args):
            if t == 'hal::BufferDirection':
                dirn = a
            elif t.startswith('core::ptr::NonNull<[u8]>'):
                buf = a
            elif 'DescFlags' in t or t == [f['ty'] for f in F.adts[M.desc_adt]['variants'][0]['fields']][2]:
                extra = a
        where = site(sg, call)
        caller = sg.ctxs[c.parent].fn['id']
        ev = fold_const(extra) if extra is not None else None
        if isinstance(dirn, tuple) and dirn[0] == 'agg':
            # constant direction: the indirect head
            inst = '%s:head' % caller
            dn = dirn[1].rsplit('::', 1)[1]
            leak_args = [strip_ptr(S.operand(n.id, n.d['args'][0])) for n in sg.calls(
                lambda d: d.get('fn', '').endswith('::leak') or d.get('fn', '').endswith('::into_raw')) if n.d['args']]
            tab = any(derives_from(buf, lambda x, la=la: x == la) for la in leak_args)
            R.check(dn == 'DriverToDevice' and ev == INDIRECT and tab, 'F1', inst, where,
                    'indirect head: dir=%s extra=%s buffer=%s' % (dn, ev, fmt(buf)),
                    'descriptor with constant direction must be the indirect head: direction DriverToDevice, flags '
                    'exactly INDIRECT(4), buffer = bytes of the leaked table; got dir=%s extra=%s buf=%s' % (dn, ev, fmt(buf)))
        else:
            inst = '%s:element' % caller

            def base(t):
                t = t
                while t[0] in ('conv', 'idcall'):
                    t = t[2]
                if t[0] == 'field':
                    return t[1], t[2]
                return t, None
            b0, bf = base(buf)
            d0, df = base(dirn)
            same = b0 == d0 and bf is not None and df is not None and bf != df
            R.check(same and ev == NEXT, 'F1', inst, where,
                    'element: buffer and direction are fields %s/%s of one item; extra=%s' % (bf, df, ev),
                    'chain element must take buffer and direction from the same iterator item and extra flags NEXT(1): '
                    'buffer=%s direction=%s extra=%s' % (fmt(buf), fmt(dirn), ev))
    R.count('share_contexts', n_ctx)


def f2_producer(F, R, M, pubs, dvars):
    # the producer: Iterator::next impl whose Item mentions BufferDirection, reached from add
    ids = set()
    for pid in pubs:
        for c in supergraph(F, pid).ctxs:
            b = c.fn
            if b.get('impl_trait') == 'core::iter::Iterator' and b['name'] == 'next' and F.handwritten(b) and b['kind'] != 'Closure':
                ids.add(b['id'])
    prods = [F.bodies[i] for i in sorted(ids)]
    if not prods:
        raise Undecided('item producer (Iterator::next yielding BufferDirection) not found')
    for pb in prods:
        sg = supergraph(F, pb['id'])
        where = fn_site(F, pb['id'])
        adt = pb.get('impl_adt')
        fields = {f['name']: f['ty'] for f in F.adts[adt]['variants'][0]['fields']} if adt in F.adts else {}
        import re as _re
        fields = {k: _re.sub(r"'\w+ ", '', v) for k, v in fields.items()}
        rd = [n for n, t in fields.items() if t.startswith('&') and '&mut' not in t]
        wr = [n for n, t in fields.items() if t.startswith('&') and '&mut' in t]
        if len(rd) != 1 or len(wr) != 1:
            R.abstain('F2', pb['id'], 'cannot identify readable/writable lists by type: %s' % fields, where)
            continue
        rd, wr = rd[0], wr[0]
        paths = [p for p in PathEnum(sg).run() if not p.panicked]
        R.count('producer_paths', len(paths))

        def touches(t, fld):
            return derives_from(t, lambda x: x[0] == 'loc' and any(pp[0] == 'f' and pp[1] == fld and pp[2] == adt for pp in x[2]))
        for i, p in enumerate(paths):
            r = p.ret
            st_rd = [e for e in p.effects if e[0] == 'store' and any(pp[0] == 'f' and pp[1] == rd for pp in e[2][2])]
            st_wr = [e for e in p.effects if e[0] == 'store' and any(pp[0] == 'f' and pp[1] == wr for pp in e[2][2])]
            if r[0] == 'agg' and r[1].endswith('::None'):
                ok = not st_rd and not st_wr
                R.check(ok, 'F2', '%s:None' % pb['id'], where, 'exhausted: nothing consumed', 'returns None but consumes an element')
                continue
            if not (r[0] == 'agg' and r[1].endswith('::Some') and r[2][0][0] == 'agg' and len(r[2][0][2]) == 2):
                R.abstain('F2', '%s:path%d' % (pb['id'], i), 'unrecognised item shape %s' % fmt(r), where)
                continue
            buf, dirn = r[2][0][2]
            dn = dirn[1].rsplit('::', 1)[1] if dirn[0] == 'agg' else '?'
            # the readable list yielded None on this path (discriminant is not Some = 1)
            rd_exhausted = any(touches(c[0], rd) and ((c[1][0] == 'in' and 1 not in c[1][1]) or (c[1][0] == 'notin' and 1 in c[1][1])) for c in p.conds)
            if dn == 'DriverToDevice':
                ok = touches(buf, rd) and not touches(buf, wr) and len(st_rd) == 1 and not st_wr
                R.check(ok, 'F2', '%s:readable' % pb['id'], where, 'readable item from %s' % rd,
                        'DriverToDevice item must come from (and consume) the readable list only: %s' % fmt(buf))
            elif dn == 'DeviceToDriver':
                ok = touches(buf, wr) and not touches(buf, rd) and len(st_wr) == 1 and not st_rd and rd_exhausted
                R.check(ok, 'F2', '%s:writable' % pb['id'], where,
                        'writable item from %s only when %s is exhausted' % (wr, rd),
                        'DeviceToDriver item must come from the writable list and only on the path where the readable '
                        'list is exhausted (readable-before-writable): buf=%s, readable-exhausted-guard=%s' % (fmt(buf), rd_exhausted))
            else:
                R.violated('F2', '%s:dir' % pb['id'], where, 'producer yields direction %s' % dn)


def desc_flag_stores(sg, M):
    """(node, loc, value) of stores into a descriptor's flags field anywhere in the super-graph."""
    S = sg.sym
    out = []
    ff = M.desc_field_by_role['flags']
    for n in sg.nodes:
        if n.kind == 'assign' and n.d['place']['p']:
            loc = S.place_loc(n.id, n.d['place'])
            if any(p[0] == 'f' and p[1] == ff and len(p) > 2 and p[2] == M.desc_adt for p in loc[2]):
                out.append((n.id, loc, S.rvalue(n.id, n.d['rv'])))
    return out


def f3_last(F, R, M, sg, acc):
    """After the per-item loop, before publication, NEXT is cleared on an element (shape rule)."""
    live = sg.live_nodes()
    idx = [a for a in acc if a.kind == 'store' and a.area == 'avail.idx' and a.node in live]
    if not idx:
        return
    fs = [x for x in desc_flag_stores(sg, M) if x[0] in live]
    # a clearing store: value = old & !NEXT  (recognised: bin BitAnd with Not of 1 / difference)
    clear = []
    for n, loc, v in fs:
        def is_clear(t):
            for x in subterms(t):
                if x[0] == 'bin' and x[1] == 'BitAnd':
                    for side in (x[2], x[3]):
                        c = fold_const(side)
                        if c is not None and c & NEXT == 0 and c & 0xFFFF in (0xFFFE, 0xFFFE & 0xFFFF):
                            return True
                        if side[0] == 'un' and side[1] == 'Not' and fold_const(side[2]) == NEXT:
                            return True
            return False
        if is_clear(v):
            clear.append(n)
    loops = [n for n in sg.nodes if n.kind == 'call' and n.inl is not None and sg.ctxs[n.inl].fn.get('impl_trait') == 'core::iter::Iterator']
    share_nodes = [n.id for n in hal_calls(sg, 'share')]
    ok_all = True
    # every path from an element share (NEXT-flagged) to the idx store passes a clearing store
    for ctx in sg.ctxs:
        pass
    S = sg.sym
    elem_shares = []
    for c in sg.ctxs:
        if c.parent is None:
            continue
        if any(n.id in share_nodes and n.ctx == c.id for n in sg.nodes if n.kind == 'call'):
            call = sg.nodes[c.call]
            ex = [S.operand(call.id, a) for a in call.d['args']]
            if any(fold_const(e) == NEXT and 'Flags' in t for e, t in zip(ex, call.d['arg_tys'])):
                elem_shares += [n.id for n in sg.nodes if n.ctx == c.id and n.id in share_nodes]
    if not clear:
        if elem_shares:
            R.violated('F3', '%s:last-element' % sg.entry_fn['id'], site(sg, idx[0].node),
                       'no store clears NEXT on any descriptor before publication (the last element of every chain would '
                       'keep NEXT set)')
        else:
            R.abstain('F3', '%s:last-element' % sg.entry_fn['id'], 'no NEXT-flagged element sites recognised', site(sg, idx[0].node))
        return
    # F3 (which element): the element whose NEXT is cleared is the last one written - selected by the same free-list
    # index the element stores use (or by last_mut() of the table), never by arithmetic on the head index: descriptors of a
    # chain are not contiguous once completions have reordered the free list
    elem_idx = set()
    for n, loc, v in fs:
        if n not in clear:
            for pp in loc[2]:
                if pp[0] == 'idx':
                    elem_idx.add(strip_conv(pp[1]))
    def owner(nid):
        c = sg.ctxs[sg.nodes[nid].ctx]
        while c.parent is not None and not F.handwritten(c.fn):
            c = sg.ctxs[c.parent]
        return c.fn['id']
    for n in clear:
        loc = [x for x in fs if x[0] == n][0][1]
        ixs = [strip_conv(pp[1]) for pp in loc[2] if pp[0] == 'idx']
        if ixs:
            ix = ixs[0]
            arith = any(x[0] == 'bin' and x[1] not in ('BitAnd',) for x in subterms(ix))
            ok = ix in elem_idx and not arith
            R.check(ok, 'F3', '%s:last-element-index:%s' % (sg.entry_fn['id'], owner(n)), site(sg, n),
                    'NEXT is cleared on the element indexed like the element stores (%s)' % fmt(ix)[:60],
                    'NEXT is cleared on descriptor %s, which is %s the index the chain\'s elements were written at (%s): with a '
                    'reordered free list this is not the last element of the chain' % (
                        fmt(ix)[:80], 'computed arithmetically, not' if arith else 'not', ', '.join(sorted(fmt(e)[:40] for e in elem_idx))))
        else:
            via_last = any(x[0] == 'call' and x[2].rsplit('::', 1)[-1] in ('last_mut', 'last') for x in subterms(loc))
            R.check(via_last, 'F3', '%s:last-element-index:%s' % (sg.entry_fn['id'], owner(n)), site(sg, n),
                    'NEXT is cleared on last_mut() of the table', 'cannot relate the element whose NEXT is cleared (%s) to the last element written' % fmt(loc)[:100])
    for es in elem_shares:
        ok = sg.between_always(es, idx[0].node, clear)
        R.check(ok, 'F3', '%s:last-element:%s' % (sg.entry_fn['id'], sg.ctxs[sg.ctxs[sg.nodes[es].ctx].parent].fn['id']), site(sg, es),
                'every path from this element to publication clears NEXT on an element afterwards',
                'a path from a NEXT-flagged element to the avail.idx store does not clear NEXT on the last element')


def f4_indirect(F, R, M, sg):
    """INDIRECT constant is used only under the queue's indirect flag (guard), and that flag has one writer."""
    S = sg.sym
    live = sg.live_nodes()
    heads = []
    for c in sg.ctxs:
        if c.parent is None:
            continue
        call = sg.nodes[c.call]
        if call.id not in live:
            continue
        for a, t in zip(call.d['args'], call.d['arg_tys']):
            if 'Flags' in t:
                v = fold_const(S.operand(call.id, a))
                if v is not None and v & INDIRECT and any(n.kind == 'call' and n.d.get('trait') == HAL for n in sg.nodes if n.ctx == c.id):
                    heads.append(call)
    if not heads:
        R.note('F4: no INDIRECT submission path in this configuration (%s)' % F.cfg)
        return
    bool_fields = [f['name'] for f in F.adts[M.queue_adt]['variants'][0]['fields'] if f['ty'] == 'bool']
    for h in heads:
        gs = sg.guards_of(h.id)
        flag_guard = None
        for swid, vals, succ in gs:
            d = S.operand(swid, sg.nodes[swid].d['discr'])
            for x in subterms(d):
                if x[0] == 'load' and x[1][0] == 'loc' and x[1][2] and x[1][2][-1][0] == 'f' and x[1][2][-1][2] == M.queue_adt \
                        and x[1][2][-1][1] in bool_fields and (None in vals or any(v != 0 for v in vals)):
                    flag_guard = x[1][2][-1][1]
        R.count('indirect_heads', 1)
        R.check(flag_guard is not None, 'F4', '%s:indirect-guard' % sg.entry_fn['id'], site(sg, h),
                'INDIRECT head is control-dependent on queue flag `%s` being true' % flag_guard,
                'an INDIRECT descriptor is produced on a path not guarded by a boolean feature flag of the queue')
        if flag_guard:
            writers = field_writers(F, M.queue_adt, flag_guard)
            ctor_only = all(w[1] == 'ctor' for w in writers)
            R.check(ctor_only and len(writers) >= 1, 'F4', 'flag-writers:%s' % flag_guard, '',
                    'flag written only in constructor aggregates: %s' % [w[0] for w in writers],
                    'the indirect flag is written outside the constructor: %s' % writers)


def field_writers(F, adt, field):
    """All (function, kind) that write `adt.field`: 'ctor' for aggregate construction, 'store' for assignments."""
    out = []
    for b in F.bodies.values():
        if b.get('derived'):
            continue
        for bl in b['blocks']:
            for st in bl['stmts']:
                if st['k'] != 'assign':
                    continue
                rv = st['rv']
                if rv['rv'] == 'agg' and rv.get('kind') == 'adt' and rv.get('adt') == adt and field in rv.get('fields', []):
                    out.append((b['id'], 'ctor'))
                for p in st['place']['p']:
                    pass
                ps = st['place']['p']
                if ps and isinstance(ps[-1], dict) and ps[-1].get('n') == field and ps[-1].get('adt') == adt:
                    out.append((b['id'], 'store'))
    return out


def f5_publication(F, R, M, sg, acc):
    """One ring store + one idx store on every Ok path, none on Err paths; slot = idx & (SIZE-1); value = head."""
    live = sg.live_nodes()
    ring = [a for a in acc if a.kind == 'store' and a.area == 'avail.ring' and a.node in live]
    idx = [a for a in acc if a.kind == 'store' and a.area == 'avail.idx' and a.node in live]
    R.count('ring_store', len(ring))
    R.count('idx_store', len(idx))
    eid = sg.entry_fn['id']
    S = sg.sym
    # classify return paths by the aggregate assigned to _0
    ok_defs, err_defs = [], []
    for n in sg.nodes:
        if n.ctx == 0 and n.kind == 'assign' and not n.d['place']['p'] and n.d['place']['l'] == 0 and n.id in live:
            rv = n.d['rv']
            if rv['rv'] == 'agg' and rv.get('adt') == 'core::result::Result':
                (ok_defs if rv['variant'] == 'Ok' else err_defs).append(n)
    if not ok_defs:
        R.abstain('F5', eid, 'no Ok(..) return recognised', fn_site(F, eid))
        return
    pubs = set(a.node for a in ring + idx)
    for e in err_defs:
        before = sg.reach_bwd([e.id])
        bad = [p for p in pubs if p in before]
        R.check(not bad, 'F5', '%s:err-no-publication' % eid, site(sg, e),
                'refusal path publishes nothing', 'an Err return is reachable after a ring/index store at %s' % (site(sg, bad[0]) if bad else ''))
    for o in ok_defs:
        okr = len(ring) == 1 and sg.always_before([ring[0].node], o.id)
        oki = len(idx) == 1 and sg.always_before([idx[0].node], o.id)
        R.check(okr and oki, 'F5', '%s:ok-one-publication' % eid, site(sg, o),
                'exactly one avail.ring store and one avail.idx store dominate the Ok return',
                'Ok return not dominated by exactly one ring store and one index store (ring stores=%d idx stores=%d)' % (len(ring), len(idx)))
        if len(ring) == 1 and len(idx) == 1:
            r = ring[0]
            # slot index term
            it = None
            for p in r.loc[2]:
                if p[0] == 'idx':
                    it = p[1]
            rn = sg.nodes[r.node]
            val = S.rvalue(r.node, rn.d['rv'])
            ret_head = S.operand(o.id, o.d['rv']['ops'][0])
            same_head = strip_conv(val) == strip_conv(ret_head)
            R.check(same_head, 'F5', '%s:ring-value-is-head' % eid, site(sg, r.node), 'ring slot <- returned head %s' % fmt(val),
                    'value stored in the ring slot (%s) is not the head returned to the caller (%s)' % (fmt(val), fmt(ret_head)))
            # slot = trusted & (SIZE-1), computed before the increment
            ok_slot, why = slot_ok(sg, it, r.node, idx[0])
            R.check(ok_slot, 'F5', '%s:ring-slot' % eid, site(sg, r.node), why, why)
            R.check(sg.always_before([r.node], idx[0].node), 'F5', '%s:ring-before-idx' % eid, site(sg, idx[0].node),
                    'ring slot store dominates the index store', 'avail.idx store is not dominated by the ring slot store')


def strip_conv(t):
    while isinstance(t, tuple) and t[0] in ('conv', 'idcall') or (isinstance(t, tuple) and t[0] == 'cast' and t[1] == 'IntToInt'):
        t = t[2] if t[0] in ('conv', 'idcall') else t[3]
    return t


def slot_ok(sg, it, ring_node, idx_store):
    if it is None:
        return False, 'ring store has no index'
    t = strip_conv(it)
    if not (t[0] == 'bin' and t[1] in ('BitAnd', 'Rem')):
        return False, 'ring slot index is not (trusted index & (SIZE-1)) / (trusted index % SIZE): ' + fmt(t)
    a, b = t[2], t[3]
    if t[1] == 'Rem':
        mask, ctr = b, strip_conv(a)
        mk = strip_conv(mask)
        mask_ok = mk[0] != 'bin' and 'SIZE' in fmt(mk)      # index % SIZE (SIZE is a power of two by the queue's static assertion)
    else:
        mask, ctr = (b, a) if a[0] == 'load' else (a, b)
        mk = strip_conv(mask)
        mask_ok = mk[0] == 'bin' and mk[1] == 'Sub' and fold_const(mk[3]) == 1 and 'SIZE' in fmt(mk[2])
    # the counter must be the same trusted field whose value is later stored to avail.idx
    v = idx_store.value
    ctr_ok = ctr[0] == 'load' and isinstance(v, tuple) and v[0] == 'load' and v[1] == ctr[1]
    # and the slot must be computed from the pre-increment value: no store to that field reaches the slot computation
    pre = mem_value(sg, ctr[1], ring_node) if ctr[0] == 'load' else None
    pre_ok = pre is not None and pre[0] == 'load0'
    ok = mask_ok and ctr_ok and pre_ok
    return ok, 'slot=%s mask_ok=%s counter_is_published_index=%s pre_increment=%s' % (fmt(t), mask_ok, ctr_ok, pre_ok)


def f6_coherence(F, R, M, sg, acc, rule='F6'):
    """On the submission path the device table receives every field the driver follows, copied from the shadow."""
    live = sg.live_nodes()
    S = sg.sym
    dstores = [a for a in acc if a.kind == 'store' and a.area.startswith('desc') and a.node in live]
    eid = sg.entry_fn['id']
    if not dstores:
        R.violated(rule, '%s:device-table' % eid, fn_site(F, eid), 'submission path never writes the device descriptor table')
        return
    covered = set()
    from_shadow = True
    for a in dstores:
        n = sg.nodes[a.node]
        v = S.rvalue(a.node, n.d['rv'])
        sh = derives_from(v, lambda x: x[0] == 'loc' and M.is_shadow_loc(x))
        if not sh:
            from_shadow = False
            bad = a
        if a.area == 'desc':
            covered |= {'addr', 'len', 'flags', 'next'}
        else:
            fld = a.area.split('.', 1)[1]
            # the copied value must come from the same field of the shadow element
            same = derives_from(v, lambda x: x[0] == 'loc' and M.is_shadow_loc(x) and any(
                p[0] == 'f' and len(p) > 2 and p[2] == M.desc_adt and M.desc_fields.get(p[1]) == fld for p in x[2]))
            if same:
                covered.add(fld)
    R.check(from_shadow, rule, '%s:from-shadow' % eid, site(sg, dstores[0].node),
            'device-table stores copy from the trusted shadow table',
            'a device-table store does not copy from the shadow table')
    # ... at the index of an element this submission wrote: the copy's index is the free-list index the shadow element was
    # written at, not an index computed from the head (a chain's descriptors are not contiguous once the free list is permuted)
    elem_idx = set()
    for n_, loc_, v_ in desc_flag_stores(sg, M):
        if n_ in live:
            for pp in loc_[2]:
                if pp[0] == 'idx':
                    elem_idx.add(strip_conv(pp[1]))
    stray = None
    pubs = [a.node for a in acc if a.kind == 'store' and a.area == 'avail.idx' and a.node in live]
    before_pub = sg.reach_bwd(pubs) if pubs else set()
    for a in dstores:
        if a.node not in before_pub:
            continue        # table writes of the release path (after publication) are not part of the submission
        ixs = [strip_conv(pp[1]) for pp in a.loc[2] if pp[0] == 'idx']
        if ixs and elem_idx and ixs[0] not in elem_idx:
            stray = (a, ixs[0])
    R.check(stray is None, rule, '%s:copied-at-element-index' % eid, site(sg, (stray[0] if stray else dstores[0]).node),
            'every device-table write is at the index of a shadow element written by this submission',
            'the device table is written at index %s, which is not an index at which this submission wrote a shadow element (%s): with a permuted '
            'free list some descriptors of the chain are never copied and the device follows stale entries' % (
                fmt(stray[1])[:60] if stray else '', ', '.join(sorted(fmt(e)[:40] for e in elem_idx))))
    missing = {'addr', 'len', 'flags', 'next'} - covered
    R.check(not missing, rule, '%s:fields' % eid, site(sg, dstores[0].node),
            'device table receives addr,len,flags,next of each written element',
            'descriptor field(s) %s are never copied from the shadow table to the device table on the submission path, '
            'so the device can follow stale values once descriptors have been recycled' % sorted(missing))
