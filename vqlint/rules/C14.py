"""C14 - block requests carry the caller's data intact and match the right completion.

Decided:
 K1 wire format: request header {type:u32@0, reserved:u32@4, sector:u64@8} = 16 bytes; type codes In 0, Out 1, Flush 4,
    GetId 8, GetLifetime 10, Discard 11, WriteZeroes 13, SecureErase 14; 1-byte status; sector size 512; config layout.
 K2 operation -> header: for each public operation the header reaching the queue has the right type constant, `sector`
    deriving from the block-number parameter, reserved = 0.
 K3 chain shape: the device-readable list is [header] (+ caller data for writes) and the device-writable list ends with
    the status byte (preceded by caller data for reads / device id).
 K4 sibling agreement: each complete_* passes to pop_used lists of the same shape and parameter provenance as its *_nb
    twin passes to add, and returns the mapping of that status byte.
 K5 status mapping: 0 -> Ok, 1 -> IoError, 2 -> Unsupported, anything else -> an error (folded over all 256 values).
 K7 several requests outstanding, completing in any order: the release path relinks a recycled chain's tail using the
    link of the descriptor being released (shape rule shared with C03.E6), so descriptors of in-flight requests are not reissued.
 K6 capacity = capacity_low | capacity_high << 32 read at config offsets 0 and 4 (wrapping in read_consistent is C13.G3);
    read-only flag and flush gating are C08.H4.
 K8 descriptor flags exactly extra|direction for every previous slot content (C01.F1).  K9 refused polls change nothing,
    a successful poll consumes the head of the used ring (C03.E1/E2).  K10 capacity table (C03.E3).
 K13 completions keep being seen across the 16-bit index wrap (= C03.E5 / E9).  K14 a blocking request pops its own token (= C03.E8).
Not decided: data integrity and matching of out-of-order completions over histories (delegated to the queue properties).
"""
from .common import *
from ..paths import *
from . import C05

EXPLANATION = ("Struct layouts and enum discriminants from rustc are compared with VirtIO 1.2 5.2; for each public block operation the "
               "operands of the queue submission are recovered symbolically (array elements -> object type, header aggregate fields -> "
               "constants / parameters) and compared with the specified chain shape; the status conversion is folded over all byte values.")
FLOORS = {'operations': 6, 'status_rows': 256}
REQ_TYPES = {'In': 0, 'Out': 1, 'Flush': 4, 'GetId': 8, 'GetLifetime': 10, 'Discard': 11, 'WriteZeroes': 13, 'SecureErase': 14}
DRV = 'device::blk::VirtIOBlk'


def run(F, R):
    M = model(F)
    M.require_rings()
    roles = C05.classify_api(C05.queue_api(F, M))
    if DRV not in F.adts:
        raise Undecided('block driver type %s not found' % DRV)
    k1_format(F, R)
    ops = k2_k3_ops(F, R, M, roles)
    k4_siblings(F, R, ops)
    k5_status(F, R)
    k6_capacity(F, R)
    k12_device_id(F, R, M, roles)
    # K7: outstanding requests may complete in any order - necessary condition on descriptor recycling (C03.E6)
    # K8: data part device-readable for writes / device-writable for reads depends on the descriptor flags being
    # exactly extra|direction for every previous content of the slot (shared with C01.F1)
    from .C01 import share_fn_rule
    share_fn_rule(F, R, 'K8')
    # K9: a completion poll with a token that is not next (or when nothing is ready) changes nothing, and a successful
    # one consumes exactly the head of the used ring - otherwise out-of-order polling loses another request's completion
    # (shared with C03.E1/E2)
    from . import C03 as _c3
    _by = {}
    for _k, _v in roles.items():
        _by.setdefault(_v, []).append(_k)
    _lf = _c3.last_used_field(F, M, _by['can_pop'][0]) if 'can_pop' in _by else None
    if _lf and 'pop_used' in _by:
        _c3.e1_e2_pop(F, RuleProxy(R, {'E1': 'K9', 'E2': 'K9'}), M, _by['pop_used'][0], _lf)
        # ... and the token a non-blocking caller is told (peek) is read from the same used-ring slot the pop will consume
        guard(R, 'K9', 'all-slots', lambda: _c3.e2b_all_slots(F, RuleProxy(R, {'E2': 'K9'}), M, _lf))
    # K13: completions keep being seen after the 16-bit ring indices wrap (65536 requests on one queue): wrap-safe counters
    # and the folded completion test (C03.E5 / E9)
    _c3.counters_rule(F, R, 'K13')
    if _lf and 'can_pop' in _by:
        _c3.e9_can_pop(F, R, M, _by['can_pop'][0], _lf, rule='K13')
    # K15: flush is sent exactly when VIRTIO_BLK_F_FLUSH (bit 9) was negotiated: the block feature constants have the specification's
    # bit numbers and the flush operation is gated on that feature (C08.H2 / H4)
    from . import C08 as _c8b
    guard(R, 'K15', 'feature-bits', lambda: _c8b.h2_constants(F, RuleProxy(R, {'H2': 'K15'}, only=lambda inst: 'blk' in inst.lower())))
    guard(R, 'K15', 'gated', lambda: _c8b.h4_gated(F, RuleProxy(R, {'H4': 'K15'}, only=lambda inst: 'VirtIOBlk' in inst), M))
    # K16: a blocking request waits for its completion whether or not a notification was needed (device polling with notifications
    # suppressed): pop only after the completion test reported ready (C03.E17)
    guard(R, 'K16', 'helper-waits', lambda: _c3.e17_helper_waits(F, R, M, roles, rule='K16'))
    # K14: a blocking request behind an unconsumed non-blocking completion pops its own token (C03.E8)
    guard(R, 'K14', 'helper-token', lambda: _c3.e8_helper_token(F, R, M, roles, rule='K14'))
    # K10: with several requests outstanding a further request is refused when the descriptors it needs are not free -
    # otherwise it overwrites the header / data / status descriptors of a request in flight (capacity table, C03.E3)
    if _lf and 'add' in _by:
        _c3.e3_capacity(F, R, M, _by['add'][0], rule='K10', rule1='K10')
    from .C03 import e6_relink
    for _k, _v in roles.items():
        if _v == 'pop_used':
            e6_relink(F, R, M, _k, rule='K7')
    # K11: the request queue runs in the modes that were negotiated: its indirect / event-index construction arguments are
    # contains(negotiated, INDIRECT_DESC) / contains(negotiated, EVENT_IDX) in that order (C08.H3, bits 28 / 29) - swapped,
    # a device that offered only one of them gets requests in a form it never negotiated
    from . import C08 as _c8
    _qctor = [b['id'] for b in queue_entry_points(F, M) if b.get('sig', '').find('-> core::result::Result<%s<' % M.queue_adt) >= 0]
    _c8.h1_constructors(F, RuleProxy(R, {'H3': 'K11'}, only=lambda inst: inst.startswith(DRV)), M, _qctor)


def find_adt(F, pred):
    return [n for n, a in F.adts.items() if pred(n, a)]


def k1_format(F, R):
    req = [n for n in F.adts if n.startswith('device::blk::') and F.adts[n]['kind'] == 'struct' and F.adts[n].get('layout', {}).get('size') == 16
           and len(F.adts[n]['variants'][0]['fields']) == 3]
    ok = False
    for n in req:
        a = F.adts[n]
        fs = a['variants'][0]['fields']
        ok = ok or (a['layout']['offsets'] == [0, 4, 8] and a['repr']['c'] and fs[2]['ty'] == 'u64' and fs[1]['ty'] == 'u32')
    R.check(ok, 'K1', 'layout:request-header', 'device::blk', 'request header {type@0, reserved@4, sector@8} 16 bytes repr(C)', 'block request header layout does not match VirtIO 1.2 5.2.6')
    rt = [n for n in F.adts if n.startswith('device::blk::') and F.adts[n]['kind'] == 'enum' and {v['name'] for v in F.adts[n]['variants']} >= {'In', 'Out', 'Flush'}]
    for n in rt:
        for v in F.adts[n]['variants']:
            if v['name'] in REQ_TYPES:
                R.tables += 1
                R.check(int(v['discr']) == REQ_TYPES[v['name']], 'K1', 'reqtype:%s' % v['name'], n, '%s = %d' % (v['name'], REQ_TYPES[v['name']]),
                        'request type %s encoded as %s, specification says %d' % (v['name'], v['discr'], REQ_TYPES[v['name']]))
        R.check(str(F.adts[n]['repr'].get('int')).replace(' ', '') in ('Fixed(I32,false)',), 'K1', 'reqtype:width', n,
                'request type is a 32-bit value', 'request type enum is not repr(u32): %s' % F.adts[n]['repr'])
    resp = [n for n in F.adts if n.startswith('device::blk::') and F.adts[n].get('layout', {}).get('size') == 1 and F.adts[n]['kind'] == 'struct']
    R.check(len(resp) >= 1, 'K1', 'layout:status', 'device::blk', 'status is one byte', 'no 1-byte status type')
    ss = F.const_val('device::blk::SECTOR_SIZE')
    R.check(ss == 512, 'K1', 'sector-size', 'device::blk::SECTOR_SIZE', 'sector size 512', 'SECTOR_SIZE = %s' % ss)
    cfg = [n for n in F.adts if n.startswith('device::blk::') and 'Config' in n and F.adts[n].get('layout')]
    for n in cfg:
        offs = dict(zip([f['name'] for f in F.adts[n]['variants'][0]['fields']], F.adts[n]['layout']['offsets']))
        R.check(offs.get('capacity_low') == 0 and offs.get('capacity_high') == 4, 'K1', 'layout:config-capacity', n, 'capacity at config offset 0 (low) / 4 (high)',
                'capacity words at offsets %s/%s' % (offs.get('capacity_low'), offs.get('capacity_high')))


EXPECT = {
    'read_blocks': ('In', True, ['hdr'], ['data', 'status']),
    'read_blocks_nb': ('In', True, ['hdr'], ['data', 'status']),
    'write_blocks': ('Out', True, ['hdr', 'data'], ['status']),
    'write_blocks_nb': ('Out', True, ['hdr', 'data'], ['status']),
    'flush': ('Flush', False, ['hdr'], ['status']),
    'device_id': ('GetId', False, ['hdr'], ['data', 'status']),
    'complete_read_blocks': (None, None, ['hdr'], ['data', 'status']),
    'complete_write_blocks': (None, None, ['hdr', 'data'], ['status']),
}


def classify_elem(F, sg, S, e):
    bo, ty, base = elem_object(sg, S, e)
    ty = ty or ''
    if 'BlkReq' in ty or (ty in F.adts and F.adts[ty].get('layout', {}).get('size') == 16):
        return 'hdr', base
    if 'BlkResp' in ty or (ty in F.adts and F.adts[ty].get('layout', {}).get('size') == 1):
        return 'status', base
    if '[u8' in ty or ty.endswith('[u8]'):
        return 'data', base
    return '?:%s' % ty, base


def k2_k3_ops(F, R, M, roles):
    ops = {}
    for b in F.bodies.values():
        if b.get('impl_adt') != DRV or 'impl_trait' in b or b['kind'] != 'AssocFn' or not b.get('pub') or b['name'] not in EXPECT:
            continue
        sg = supergraph(F, b['id'], opaque=lambda t, bb: bb['id'] in roles, tag='c14')
        S = sg.sym
        where = fn_site(F, b['id'])
        live = sg.live_nodes()
        subs = [n for n in sg.calls(lambda d: d.get('fn') in roles and roles[d['fn']] in ('add', 'add_notify_wait_pop', 'pop_used')) if n.id in live]
        # only the submission sites this operation can reach: a shared helper that switches on a request kind chosen by
        # the caller contributes the arm selected by this operation's (constant) choice
        if not back_edges(sg):
            try:
                feas = set(e[1] for p in PathEnum(sg).run() if not p.panicked for e in p.effects if e[0] == 'call')
                subs = [n for n in subs if n.id in feas]
            except PathLimit:
                pass
        want_ty, want_sector, want_in, want_out = EXPECT[b['name']]
        # flush has the submission on one branch only; others exactly one submission site
        if not subs:
            R.violated('K3', '%s:submission' % b['name'], where, 'operation %s never submits a request to the queue' % b['name'])
            continue
        R.count('operations', 1)
        for n in subs:
            role = roles[n.d['fn']]
            off = 1 if role == 'pop_used' else 0
            ins = array_elems(S, S.operand(n.id, n.d['args'][1 + off]))
            outs = array_elems(S, S.operand(n.id, n.d['args'][2 + off]))
            if ins is None or outs is None:
                R.abstain('K3', '%s:shape' % b['name'], 'cannot recover the buffer lists', site(sg, n))
                continue
            cin = [classify_elem(F, sg, S, e) for e in ins]
            cout = [classify_elem(F, sg, S, e) for e in outs]
            shape = ([c for c, _ in cin], [c for c, _ in cout])
            R.check(shape == (want_in, want_out), 'K3', '%s:shape' % b['name'], site(sg, n),
                    'device-readable %s, device-writable %s' % shape,
                    '%s submits device-readable %s / device-writable %s, the specification requires %s / %s' % (b['name'], shape[0], shape[1], want_in, want_out))
            # data element is the caller's buffer parameter
            datas = [base for c, base in cin + cout if c == 'data']
            for dbase in datas:
                okd = derives_from(dbase, lambda x: x[0] == 'param')
                R.check(okd, 'K3', '%s:data-is-caller-buffer' % b['name'], site(sg, n), 'data part is the caller\'s buffer', 'data part is not the caller\'s buffer: %s' % fmt(dbase)[:100])
            ops[b['name']] = (shape, [(c, param_of(base)) for c, base in cin + cout], n, sg)
            if want_ty is None:
                continue
            # header value
            hbase = [base for c, base in cin if c == 'hdr']
            if not hbase:
                continue
            hv = header_value(sg, S, hbase[0], n.id)
            if hv is None or hv[0] != 'agg':
                R.abstain('K2', '%s:header' % b['name'], 'cannot recover the header aggregate: %s' % (fmt(hv)[:80] if hv else None), site(sg, n))
                continue
            f = dict(zip(hv[3], hv[2]))
            tyv = [v for k, v in f.items() if v[0] == 'agg' and '::' in v[1]]
            tname = tyv[0][1].rsplit('::', 1)[1] if tyv else '?'
            R.check(tname == want_ty, 'K2', '%s:type' % b['name'], site(sg, n), 'request type %s' % tname, '%s sends request type %s, expected %s' % (b['name'], tname, want_ty))
            others = {k: v for k, v in f.items() if not (v[0] == 'agg' and '::' in v[1])}
            u64f = [k for k in others if fieldty(F, hv[1], k) == 'u64']
            u32f = [k for k in others if fieldty(F, hv[1], k) == 'u32']
            if u64f:
                sv = others[u64f[0]]
                if want_sector:
                    blockp = [i + 1 for i, l in enumerate(sg.entry_fn['locals'][1:sg.entry_fn['arg_count'] + 1]) if l['ty'] == 'usize']
                    oks = strip_conv(sv) == ('param', blockp[0]) if blockp else False
                    # ... at full width: no intermediate cast to a type narrower than the 64-bit sector field (a device above 2 TiB)
                    t_ = sv
                    while oks and t_[0] in ('cast', 'conv', 'idcall'):
                        if t_[0] == 'cast' and t_[1] == 'IntToInt' and str(t_[2]) in ('u8', 'u16', 'u32', 'i8', 'i16', 'i32'):
                            oks = False
                        t_ = t_[3] if t_[0] == 'cast' else t_[2]
                    R.check(oks, 'K2', '%s:sector' % b['name'], site(sg, n), 'sector = block number parameter', 'sector field is %s, expected the block number parameter' % fmt(sv))
                else:
                    R.check(const_int(sv) == 0, 'K2', '%s:sector' % b['name'], site(sg, n), 'sector = 0', 'sector field is %s, expected 0' % fmt(sv))
            for k in u32f:
                R.check(const_int(others[k]) == 0, 'K2', '%s:reserved' % b['name'], site(sg, n), 'reserved = 0', 'reserved field is %s' % fmt(others[k]))
    return ops


def fieldty(F, aggname, field):
    adt = aggname.rsplit('::', 1)[0]
    a = F.adts.get(adt)
    if not a:
        return None
    for f in a['variants'][0]['fields']:
        if f['name'] == field:
            return f['ty']
    return None


def param_of(t):
    for x in subterms(t):
        if x[0] == 'param':
            return x[1]
    return None


def header_value(sg, S, base, at):
    """The aggregate stored in the object `base` refers to."""
    v = local_value_of_ref(S, base)
    if v is not None:
        # by-value parameter of an inlined helper with struct-update defaults: resolve through phi/default calls
        return resolve_default(sg, S, v)
    if base[0] == 'ref':
        # *req = BlkReq{..}: store through a parameter reference
        mv = mem_value(sg, base[1], at)
        return resolve_default(sg, S, mv)
    if base[0] == 'param':
        mv = mem_value(sg, ('loc', ('deref', base, sg.entry_fn['locals'][base[1]]['ty']), ()), at)
        return resolve_default(sg, S, mv)
    return None


def resolve_default(sg, S, v):
    return v


def k4_siblings(F, R, ops):
    for nb, comp in (('read_blocks_nb', 'complete_read_blocks'), ('write_blocks_nb', 'complete_write_blocks')):
        if nb in ops and comp in ops:
            a, b = ops[nb], ops[comp]
            # same classes; same parameter *roles* (by class) - compare class sequence and that each element is a parameter
            same = a[0] == b[0] and all(p is not None for _, p in a[1]) and all(p is not None for _, p in b[1])
            R.check(same, 'K4', '%s~%s' % (nb, comp), site(b[3], b[2]), 'completion passes the same buffer shape as the submission',
                    '%s passes %s to pop_used but %s submitted %s' % (comp, b[0], nb, a[0]))
    # blocking and completion operations return the mapping of the status byte they posted
    for name, (shape, elems, n, sg) in ops.items():
        S = sg.sym
        rets = []
        fn = sg.entry_fn
        if 'Result' not in fn.get('sig', ''):
            continue
        conv = [m for m in sg.all_calls(lambda d: d.get('fn', '').endswith('::into') or 'From<device::blk::RespStatus>' in (d.get('resolved') or '') or 'RespStatus' in ' '.join(d.get('substs', []))
                                          # ... or a method of the status type itself that yields the Result (to_result())
                                          or ((F.bodies.get(d.get('fn'), {}).get('impl_adt') or '').endswith('RespStatus') and 'Result' in F.bodies[d['fn']].get('sig', '')))]
        if name.endswith('_nb'):
            continue
        ok = False
        for m in conv:
            t = S.operand(m.id, m.d['args'][0])
            if derives_from(t, lambda x: x[0] in ('load', 'field') and 'status' in fmt(x)):
                ok = True
        R.check(ok, 'K4', '%s:returns-status' % name, fn_site(F, fn['id']), 'result is the conversion of the response status byte', '%s does not return the mapping of the status byte' % name)
        # ... as the device left it: every read of the status byte happens after the completion was consumed (the bytes the
        # device wrote reach the caller's buffer when pop_used unshares it)
        from . import C05 as _c5
        _roles = _c5.classify_api(_c5.queue_api(F, model(F)))
        done = [m.id for m in sg.all_calls(lambda d: _roles.get(d.get('fn')) in ('pop_used', 'add_notify_wait_pop'))]
        reads = []
        for m in sg.nodes:
            if m.kind == 'assign' and m.d['rv']['rv'] == 'use':
                pl = m.d['rv']['op'].get('copy') or m.d['rv']['op'].get('move')
                if pl and any(isinstance(pp, dict) and pp.get('n') == 'status' and 'BlkResp' in (pp.get('adt') or '') for pp in pl['p']):
                    reads.append(m)
            if m.kind == 'call' and m.d.get('fn', '').endswith('BlkResp::status'):
                reads.append(m)
        early = [m for m in reads if done and not sg.always_before(done, m.id)]
        R.check(bool(reads) and bool(done) and not early, 'K4', '%s:status-read-after-completion' % name, fn_site(F, fn['id']),
                '%d status read(s), all after the completion call' % len(reads),
                '%s reads the response status%s before the completion is consumed: it reports what the buffer held before the device answered '
                '(with a bouncing HAL the device\'s byte only arrives when pop_used unshares the buffer)' % (name, (' at %s' % site(sg, early[0])) if early else ''))


def k12_device_id(F, R, M, roles):
    """The id query reports the bytes before the first NUL, or all 20 bytes when there is none."""
    for b in F.bodies.values():
        if b.get('impl_adt') != DRV or b['kind'] != 'AssocFn' or not b.get('pub') or '[u8; 20]' not in b.get('sig', ''):
            continue
        sg = supergraph(F, b['id'], opaque=lambda t, bb: bb['id'] in roles or (bb.get('impl_adt') == DRV and bb['id'] != b['id']), tag='k12')
        where = fn_site(F, b['id'])
        paths = [p for p in PathEnum(sg).run() if not p.panicked and err_variant(p.ret) == 'Ok']
        bad = None
        for p in paths:
            v = strip_conv(p.ret[2][0])
            if v[0] == 'call' and v[2].endswith('::unwrap_or') and len(v[3]) > 1:
                fb = strip_conv(v[3][1])
                full = const_int(fb) == 20 or (fb[0] == 'call' and fb[2].endswith('::len'))
                if not full:
                    bad = 'an id without a NUL byte is reported with length %s instead of 20' % fmt(fb)[:60]
                if not (v[3][0][0] == 'call' and v[3][0][2].endswith('::position')):
                    bad = 'the length is not the position of the first NUL byte'
            else:
                # the same selection written as a match / if-let on the search result: on the found edge the position itself,
                # on the not-found edge 20 (or the array's length)
                pos = [(c, x) for c in p.conds if c[0][0] == 'discr' for x in subterms(c[0]) if x[0] == 'call' and x[2].endswith('::position')]
                if not pos:
                    if not any(x[0] == 'call' and x[2].endswith('::position') for x in subterms(v)):
                        bad = 'the length is not the position of the first NUL byte: %s' % fmt(v)[:60]
                    continue        # another way of using the search result: not judged
                c = pos[0][0]
                found = (c[1][0] == 'in' and 0 not in c[1][1]) or (c[1][0] == 'notin' and 0 in c[1][1])
                if found:
                    if not any(x[0] == 'call' and x[2].endswith('::position') for x in subterms(v)):
                        bad = 'with a NUL byte present the length reported is %s, not its position' % fmt(v)[:60]
                elif not (const_int(v) == 20 or (v[0] == 'call' and v[2].endswith('::len'))):
                    bad = 'an id without a NUL byte is reported with length %s instead of 20' % fmt(v)[:60]
        R.check(bad is None and bool(paths), 'K12', 'device_id:length', where, 'length = position of the first NUL, else 20', 'device id: %s' % bad)


def k5_status(F, R):
    cands = [b for b in F.bodies.values() if b.get('impl_trait') == 'core::convert::From' and 'RespStatus' in b['id'] and 'Result' in b.get('impl_self', '')]
    if not cands:
        raise Undecided('status -> Result conversion not found')
    for b in cands:
        sg = supergraph(F, b['id'])
        paths = PathEnum(sg).run()
        bad = None
        for v in range(256):
            def leaf(t):
                if t[0] == 'field' and t[1] == ('param', 1):
                    return v
                if t == ('param', 1):
                    return v
                if t[0] == 'field':
                    return leaf(t[1])
                raise Unfoldable(fmt(t)[:60])
            fo = Folder(leaf)
            hit = None
            try:
                for p in paths:
                    if path_holds(fo, p):
                        hit = p
                        break
            except Unfoldable as e:
                R.abstain('K5', b['id'], 'cannot fold: %s' % e, fn_site(F, b['id']))
                return
            R.count('status_rows', 1)
            R.tables += 1
            got = err_variant(hit.ret) if hit else None
            want = {0: 'Ok', 1: 'IoError', 2: 'Unsupported'}.get(v)
            if (want and got != want) or (want is None and got in ('Ok', None)):
                bad = 'status %d maps to %s, expected %s' % (v, got, want or 'an error')
                break
        R.check(bad is None, 'K5', 'status-mapping', fn_site(F, b['id']), '0 Ok, 1 IoError, 2 Unsupported, otherwise an error (256 rows)', 'block status mapping: %s' % bad)


def k6_capacity(F, R):
    ctor = [b for b in F.bodies.values() if b.get('impl_adt') == DRV and b['name'] == 'new' and b['kind'] == 'AssocFn']
    for b in ctor:
        sg0 = supergraph(F, b['id'], tag='flat', max_depth=0)
        S0 = sg0.sym
        for n in sg0.calls(lambda d: d.get('method') == 'read_consistent'):
            clo = S0.operand(n.id, n.d['args'][1])
            cid = [x[1][len('closure:'):] for x in subterms(clo) if x[0] == 'agg' and x[1].startswith('closure:')]
            if not cid:
                continue
            sg = supergraph(F, cid[0])
            paths = [p for p in PathEnum(sg).run() if err_variant(p.ret) == 'Ok']
            bad = None
            for lo, hi in [(0xdeadbeef, 0x12345678), (2**32 - 1, 2**32 - 1)] + [(1 << i, 0) for i in range(0, 32, 3)] + [(0, 1 << i) for i in range(0, 32, 3)]:
                for p in paths:
                    reads = [e for e in p.effects if e[0] == 'call' and e[4].get('method') == 'read_config_space']
                    offs = [const_int(e[3][1]) for e in reads]
                    vals = {e[1]: (lo if const_int(e[3][1]) == 0 else hi if const_int(e[3][1]) == 4 else 0) for e in reads}

                    def leaf(t):
                        if t[0] == 'field' and t[1][0] == 'downcast':
                            return leaf(t[1][1])
                        if t[0] == 'call' and t[1] in vals:
                            return vals[t[1]]
                        if t[0] == 'field':
                            return leaf(t[1])
                        if t[0] == 'downcast':
                            return leaf(t[1])
                        raise Unfoldable(fmt(t)[:80])
                    try:
                        got = Folder(leaf).ev(p.ret[2][0])
                    except Unfoldable as e:
                        bad = 'abstain %s' % e
                        break
                    R.tables += 1
                    if sorted(offs) != [0, 4] or got != (lo | hi << 32):
                        bad = 'low=%#x high=%#x read at offsets %s -> %#x, expected %#x' % (lo, hi, offs, got, lo | hi << 32)
                        break
                if bad:
                    break
            if bad and bad.startswith('abstain'):
                R.abstain('K6', 'capacity', bad, fn_site(F, b['id']))
            else:
                R.check(bad is None, 'K6', 'capacity', site(sg0, n), 'capacity = low | high << 32 from config offsets 0 and 4', 'capacity assembly: %s' % bad)
