"""C10 - the MMIO transport performs exactly the register accesses the specification prescribes.

Decided:
 M1 register block: every register of VirtIO 1.2 4.2.2/4.2.4 exists in the header struct at its offset, is 32 bits
    wide and has a field type that permits only the specified access direction; config space offset 0x100, size 0x100.
 M2 per-operation traces: every method of `impl Transport for MmioTransport` (and its Drop) is path-enumerated for both
    interface versions; the ordered sequence of register reads/writes with folded values is compared with the
    specification: selector first, 64-bit addresses split into the right low/high words (folded on every single-bit
    address), QueueReady=1 last, legacy GuestPageSize/QueueAlign/QueuePFN order, features with selector 0 then 1,
    interrupt ack of the value read, reset on drop; no access outside the table for that operation.
 M3 probing: only reads (magic, device id, version); accepted iff magic = 0x74726976, version in {1,2} and the device id
    is in the device-type table (0 and unknown rejected); `new` rejects regions shorter than 0x100 with checked arithmetic.
 M5 config-space accessors of the MMIO transport: admitted iff inside the window, performed at the byte offset asked (= C13.G1).
 M4 delegation: every method of `impl Transport for SomeTransport` forwards to the same method of each variant with
    the same arguments in the same positions and returns its result.
"""
from .common import *
from ..paths import *
from ..mmio import *

EXPLANATION = ("Layout table from rustc's layout_of compared with the specification table; each Transport method of the MMIO "
               "transport is converted into guarded straight-line traces of safe_mmio accesses, folded for both versions over "
               "test vectors including every single-bit 64-bit address, and compared event by event with the specification's "
               "sequence; the probe function and the SomeTransport delegations are checked by the same trace extraction.")
FLOORS = {'registers': 26, 'operations': 13, 'delegations': 16}

# offset -> (spec name, direction)
REGS = {
    0x000: ('MagicValue', 'R'), 0x004: ('Version', 'R'), 0x008: ('DeviceID', 'R'), 0x00c: ('VendorID', 'R'),
    0x010: ('DeviceFeatures', 'R'), 0x014: ('DeviceFeaturesSel', 'W'), 0x020: ('DriverFeatures', 'W'),
    0x024: ('DriverFeaturesSel', 'W'), 0x028: ('GuestPageSize', 'W'), 0x030: ('QueueSel', 'W'),
    0x034: ('QueueNumMax', 'R'), 0x038: ('QueueNum', 'W'), 0x03c: ('QueueAlign', 'W'), 0x040: ('QueuePFN', 'RW'),
    0x044: ('QueueReady', 'RW'), 0x050: ('QueueNotify', 'W'), 0x060: ('InterruptStatus', 'R'), 0x064: ('InterruptACK', 'W'),
    0x070: ('Status', 'RW'), 0x080: ('QueueDescLow', 'W'), 0x084: ('QueueDescHigh', 'W'), 0x090: ('QueueDriverLow', 'W'),
    0x094: ('QueueDriverHigh', 'W'), 0x0a0: ('QueueDeviceLow', 'W'), 0x0a4: ('QueueDeviceHigh', 'W'),
    0x0fc: ('ConfigGeneration', 'R'),
}
LEGACY, MODERN = 1, 2
MAGIC = 0x74726976
DEVICE_IDS = {1, 2, 3, 4, 5, 6, 7, 8, 9, 10, 11, 12, 13, 16, 17, 18, 19, 20, 21, 22, 23, 24, 25}


def find_mmio(F):
    """(transport ADT, header ADT) : the Transport impl whose methods access a repr(C) register block with MagicValue."""
    for im in F.impls:
        if im.get('trait') == TRANSPORT and im.get('adt') in F.adts:
            adt = im['adt']
            for f in F.adts[adt]['variants'][0]['fields']:
                for m in f['mentions']:
                    a = F.adts.get(m)
                    if a and a['repr']['c'] and sum(1 for ff in a['variants'][0]['fields'] if ff['ty'].startswith('safe_mmio::fields::')) >= 20:
                        return adt, m, im
    return None, None, None


def run(F, R):
    tadt, hadt, im = find_mmio(F)
    if not tadt:
        raise Undecided('MMIO transport / register block not found')
    offs = field_offsets(F, hadt)
    by_off = {o: (n, t) for n, (o, t) in offs.items()}
    name_of = {}   # field name -> spec name
    # M1
    for off, (spec, direction) in sorted(REGS.items()):
        R.count('registers', 1)
        R.tables += 1
        ent = by_off.get(off)
        if not ent:
            R.violated('M1', 'reg:%s' % spec, hadt, 'no register field at offset %#x (%s)' % (off, spec))
            continue
        fname, ty = ent
        name_of[fname] = spec
        ac = access_class(ty)
        inner = inner_ty(ty)
        sz_ok = inner in ('u32',) or (inner in F.adts and F.adts[inner].get('layout', {}).get('size') == 4)
        ok = ac == direction and sz_ok
        R.check(ok, 'M1', 'reg:%s' % spec, '%s.%s' % (hadt, fname), '%s @%#x %s %s' % (spec, off, ac, inner),
                'register %s at %#x must be a 32-bit %s register; field `%s` is %s (permits %s)' % (spec, off, direction, fname, ty, ac))
    cso = F.const_val('transport::mmio::CONFIG_SPACE_OFFSET')
    consts = [v for k, v in F.consts.items() if k.startswith('transport::mmio::') and v.get('bits') == '256' and v['ty'] == 'usize']
    R.check(F.adts[hadt]['layout']['size'] == 0x100 and bool(consts), 'M1', 'config-space-offset', hadt,
            'register block is 0x100 bytes; config space offset constant 0x100 present',
            'register block size %#x / config space offset constant 0x100 missing' % F.adts[hadt]['layout']['size'])
    # M2
    methods = {it['name']: it['path'] for it in im['items'] if it['kind'] == 'AssocFn'}
    verfield = None
    for f in F.adts[tadt]['variants'][0]['fields']:
        a = F.adts.get(f['ty'])
        if a and a['kind'] == 'enum' and sorted(int(v['discr']) for v in a['variants']) == [1, 2]:
            verfield = f['name']
    if not verfield:
        raise Undecided('cannot find the version field (enum with discriminants 1,2) of the MMIO transport')
    m2_traces(F, R, tadt, hadt, methods, name_of, verfield)
    # Drop
    drop = F.adts[tadt].get('drop_impl')
    if not drop:
        R.violated('M2', 'drop:reset', tadt, 'the MMIO transport has no Drop impl: the device is not reset when the transport is dropped')
    else:
        sg = supergraph(F, drop)
        tr = Tracer(F, sg, {hadt})
        for ver in (LEGACY, MODERN):
            r = tr.run({}, fields={verfield: ver})
            ev = [(k, name_of.get(f, f), v) for k, f, v, _ in r[0]] if r else None
            R.check(ev == [('W', 'Status', 0)], 'M2', 'drop:reset:v%d' % ver, fn_site(F, drop), 'Drop writes Status=0',
                    'Drop of the MMIO transport must reset the device (write Status=0 only); trace: %s' % ev)
    m3_probe(F, R, tadt, hadt, name_of, verfield)
    m4_delegation(F, R)
    # M5: configuration-space accesses land where the driver asked: the MMIO accessors admit an access iff it lies inside the
    # window and perform it at byte offset `offset` of the window, reads and writes alike (table shared with C13.G1); not
    # repeated when this module itself runs as a shared analysis of another property
    if ONLY_OPS is None and not isinstance(R, RuleProxy):
        from .C13 import g1_bounds
        guard(R, 'M5', 'config-access', lambda: g1_bounds(F, RuleProxy(R, {'G1': 'M5'}, only=lambda inst: 'Mmio' in inst)))


ONLY_OPS = None      # set by other properties that reuse a subset of the per-operation traces


def expect(R, rule, inst, where, got, want, what):
    ok = got == want
    R.check(ok, rule, inst, where, '%s: %s' % (what, got), '%s: register trace differs from the specification\n    got:      %s\n    expected: %s' % (what, got, want))
    return ok


def m2_traces(F, R, tadt, hadt, methods, name_of, verfield):
    def tracer(m):
        fid = methods.get(m)
        if not fid or fid not in F.bodies or (ONLY_OPS is not None and m not in ONLY_OPS):
            return None, None
        sg = supergraph(F, fid)
        return Tracer(F, sg, {hadt}), fid

    def named(events):
        return [(k, name_of.get(f, f), v) for k, f, v, _ in events]

    ops = 0
    # --- read_device_features
    tr, fid = tracer('read_device_features')
    if tr:
        ops += 1
        for ver in (LEGACY, MODERN):
            bad = None
            for lo, hi in [(0xdeadbeef, 0x12345678), (0xffffffff, 0xffffffff), (0, 1), (1, 0), (0x80000000, 0x80000000)] + \
                    [(1 << i, 0) for i in range(32)] + [(0, 1 << i) for i in range(32)]:
                r = tr.run({}, fields={verfield: ver}, reads=[lo, hi])
                R.tables += 1
                if r is None:
                    bad = 'no path'
                    break
                ev, ret, _ = r
                want = [('W', 'DeviceFeaturesSel', 0), ('R', 'DeviceFeatures', None), ('W', 'DeviceFeaturesSel', 1), ('R', 'DeviceFeatures', None)]
                if named(ev) != want:
                    bad = 'trace %s, expected %s' % (named(ev), want)
                    break
                if ret != (lo | hi << 32):
                    bad = 'low word %#x, high word %#x -> %#x, expected %#x' % (lo, hi, ret if isinstance(ret, int) else -1, lo | hi << 32)
                    break
            R.check(bad is None, 'M2', 'read_device_features:v%d' % ver, fn_site(F, fid), 'Sel=0,read,Sel=1,read; result = low | high<<32',
                    'read_device_features: %s' % bad)
    # --- write_driver_features
    tr, fid = tracer('write_driver_features')
    if tr:
        ops += 1
        for ver in (LEGACY, MODERN):
            bad = None
            for v in [0x123456789abcdef0, 0xffffffffffffffff, 0] + [1 << i for i in range(64)]:
                r = tr.run({2: v}, fields={verfield: ver})
                R.tables += 1
                want = [('W', 'DriverFeaturesSel', 0), ('W', 'DriverFeatures', v & 0xffffffff), ('W', 'DriverFeaturesSel', 1), ('W', 'DriverFeatures', v >> 32)]
                if r is None or named(r[0]) != want:
                    bad = 'features=%#x: trace %s, expected %s' % (v, named(r[0]) if r else None, want)
                    break
            R.check(bad is None, 'M2', 'write_driver_features:v%d' % ver, fn_site(F, fid), 'Sel=0,low,Sel=1,high', 'write_driver_features: %s' % bad)
    # --- simple ones
    simple = {
        'max_queue_size': (lambda q: {2: q}, lambda q, ver: [('W', 'QueueSel', q), ('R', 'QueueNumMax', None)], 'ret_read'),
        'notify': (lambda q: {2: q}, lambda q, ver: [('W', 'QueueNotify', q)], None),
        'get_status': (lambda q: {}, lambda q, ver: [('R', 'Status', None)], 'ret_read'),
        'set_status': (lambda q: {2: q}, lambda q, ver: [('W', 'Status', q)], None),
        'set_guest_page_size': (lambda q: {2: q}, lambda q, ver: [('W', 'GuestPageSize', q)] if ver == LEGACY else [], None),
        'read_config_generation': (lambda q: {}, lambda q, ver: [('R', 'ConfigGeneration', None)], 'ret_read'),
        'queue_used': (lambda q: {2: q}, lambda q, ver: [('W', 'QueueSel', q), ('R', 'QueuePFN' if ver == LEGACY else 'QueueReady', None)], 'ret_nonzero'),
    }
    for m, (mkparams, mkwant, retkind) in simple.items():
        tr, fid = tracer(m)
        if not tr:
            continue
        ops += 1
        for ver in (LEGACY, MODERN):
            bad = None
            for q in (0, 1, 5, 0xffff, 4096):
                if m in ('max_queue_size', 'notify', 'queue_used') and q > 0xffff:
                    continue
                for rdv in (0, 1, 0x1234):
                    r = tr.run(mkparams(q), fields={verfield: ver}, reads=[rdv])
                    R.tables += 1
                    want = mkwant(q, ver)
                    if r is None or named(r[0]) != want:
                        bad = 'arg=%d: trace %s, expected %s' % (q, named(r[0]) if r else None, want)
                        break
                    if retkind == 'ret_read' and r[1] != rdv:
                        bad = 'returns %s, expected the value read (%d)' % (r[1], rdv)
                        break
                    if retkind == 'ret_nonzero' and r[1] != int(rdv != 0):
                        bad = 'read %d -> returns %s' % (rdv, r[1])
                        break
                if bad:
                    break
            R.check(bad is None, 'M2', '%s:v%d' % (m, ver), fn_site(F, fid), 'trace matches the specification', '%s: %s' % (m, bad))
    # --- requires_legacy_layout
    tr, fid = tracer('requires_legacy_layout')
    if tr:
        ops += 1
        for ver in (LEGACY, MODERN):
            r = tr.run({}, fields={verfield: ver})
            R.check(r is not None and r[0] == [] and r[1] == int(ver == LEGACY), 'M2', 'requires_legacy_layout:v%d' % ver, fn_site(F, fid),
                    'legacy layout iff version 1', 'requires_legacy_layout returns %s for version %d' % (r[1] if r else None, ver))
    # --- ack_interrupt
    tr, fid = tracer('ack_interrupt')
    if tr:
        ops += 1
        for ver in (LEGACY, MODERN):
            bad = None
            for iv in (0, 1, 2, 3, 4, 5, 6, 0x80, 0x80000000, 0x80000001, 0xffffffff):
                r = tr.run({}, fields={verfield: ver}, reads=[iv])
                R.tables += 1
                want = [('R', 'InterruptStatus', None)] + ([('W', 'InterruptACK', iv)] if iv else [])
                if r is None or named(r[0]) != want:
                    bad = 'status=%#x: trace %s, expected %s (every pending bit read must be acknowledged, also bits the driver does not know)' % (iv, named(r[0]) if r else None, want)
                    break
                if r[1] != (iv & 3):
                    bad = 'status=%#x returned as %s' % (iv, r[1])
                    break
            R.check(bad is None, 'M2', 'ack_interrupt:v%d' % ver, fn_site(F, fid), 'read status; ack exactly the bits read', 'ack_interrupt: %s' % bad)
    # --- queue_set
    tr, fid = tracer('queue_set')
    if tr:
        ops += 1
        # modern
        bad = None
        vecs = [(3, 8, 0x123456789000, 0xabcdef012000, 0x0fedcba98000)]
        for i in range(64):
            vecs.append((1, 16, 1 << i, 0, 0))
            vecs.append((1, 16, 0, 1 << i, 0))
            vecs.append((1, 16, 0, 0, 1 << i))
        vecs.append((0xffff, 0x8000, 2**64 - 1, 2**64 - 1, 2**64 - 1))
        for q, size, d, a, u in vecs:
            r = tr.run({2: q, 3: size, 4: d, 5: a, 6: u}, fields={verfield: MODERN})
            R.tables += 1
            if r is None:
                bad = 'no path for modern'
                break
            ev = named(r[0])
            want_set = {('W', 'QueueNum', size), ('W', 'QueueDescLow', d & 0xffffffff), ('W', 'QueueDescHigh', d >> 32),
                        ('W', 'QueueDriverLow', a & 0xffffffff), ('W', 'QueueDriverHigh', a >> 32),
                        ('W', 'QueueDeviceLow', u & 0xffffffff), ('W', 'QueueDeviceHigh', u >> 32)}
            if not ev or ev[0] != ('W', 'QueueSel', q):
                bad = 'QueueSel must be written first with the queue index: %s' % ev[:2]
            elif ev[-1] != ('W', 'QueueReady', 1):
                bad = 'QueueReady=1 must be the last write: ...%s' % ev[-2:]
            elif len(ev) != 9 or set(ev[1:-1]) != want_set:
                miss = want_set - set(ev[1:-1])
                extra = [e for e in ev[1:-1] if e not in want_set]
                bad = 'desc=%#x driver=%#x device=%#x size=%d: missing %s, unexpected %s' % (d, a, u, size, sorted(miss), extra)
            if bad:
                break
        R.check(bad is None, 'M2', 'queue_set:v2', fn_site(F, fid),
                'QueueSel first, QueueNum + six address words (each bit verified), QueueReady=1 last (%d vectors)' % len(vecs),
                'modern queue_set: %s' % bad)
        # legacy: consistent layout required by the asserts
        bad = None
        for q, size, d in [(0, 8, 0x12345000), (2, 256, 0x7ffff000), (1, 1, 0x1000), (5, 32768, 0xfffff000 * 1)]:
            a = d + 16 * size
            u = d + ((16 * size + 2 * (size + 3) + 4095) // 4096) * 4096
            r = tr.run({2: q, 3: size, 4: d, 5: a, 6: u}, fields={verfield: LEGACY}, generic={})
            R.tables += 1
            if r is None:
                bad = 'no normal path for a consistent legacy layout (desc=%#x size=%d)' % (d, size)
                break
            ev = named(r[0])
            want = [('W', 'QueueSel', q), ('W', 'QueueNum', size), ('W', 'QueueAlign', 4096), ('W', 'QueuePFN', d // 4096)]
            if ev != want:
                bad = 'trace %s, expected %s' % (ev, want)
                break
        R.check(bad is None, 'M2', 'queue_set:v1', fn_site(F, fid), 'QueueSel, QueueNum, QueueAlign=4096, QueuePFN=desc/4096',
                'legacy queue_set: %s' % bad)
    # --- queue_unset
    tr, fid = tracer('queue_unset')
    if tr:
        ops += 1
        bad = None
        for q in (0, 7):
            r = tr.run({2: q}, fields={verfield: LEGACY})
            want = [('W', 'QueueSel', q), ('W', 'QueueNum', 0), ('W', 'QueueAlign', 0), ('W', 'QueuePFN', 0)]
            if r is None or named(r[0]) != want:
                bad = 'legacy: %s expected %s' % (named(r[0]) if r else None, want)
        R.check(bad is None, 'M2', 'queue_unset:v1', fn_site(F, fid), 'legacy teardown: sel, num=0, align=0, pfn=0', 'queue_unset: %s' % bad)
        bad = None
        for q in (0, 7):
            r = tr.run({2: q}, fields={verfield: MODERN}, reads=[0])
            if r is None:
                bad = 'no path'
                break
            ev = named(r[0])
            ok = len(ev) >= 3 and ev[0] == ('W', 'QueueSel', q) and ev[1] == ('W', 'QueueReady', 0) and ev[2] == ('R', 'QueueReady', None)
            rest = set(ev[3:])
            want_rest = {('W', n, 0) for n in ('QueueNum', 'QueueDescLow', 'QueueDescHigh', 'QueueDriverLow', 'QueueDriverHigh', 'QueueDeviceLow', 'QueueDeviceHigh')}
            if not ok or rest != want_rest:
                bad = 'modern: %s' % ev
        # the wait loop: with QueueReady still reading 1 the function must not return
        r1 = tr.run({2: 0}, fields={verfield: MODERN}, reads=[1])
        if r1 is not None and bad is None:
            bad = 'modern teardown returns although QueueReady still reads non-zero'
        R.check(bad is None, 'M2', 'queue_unset:v2', fn_site(F, fid), 'modern teardown: sel, ready=0, wait until ready reads 0, clear', 'queue_unset: %s' % bad)
    R.count('operations', ops)


def m3_probe(F, R, tadt, hadt, name_of, verfield):
    # the constructor(s) that read MagicValue
    ctors = [b for b in F.bodies.values() if b.get('impl_adt') == tadt and 'impl_trait' not in b and F.handwritten(b) and b['kind'] == 'AssocFn'
             and 'Result<' in b.get('sig', '') and 'Self' not in b.get('name', '')]
    probe = None
    # the constructor that reads the identification registers (directly or through private helpers) and does not
    # itself delegate to another such constructor
    reading, callees = [], {}
    for b in ctors:
        flat = supergraph(F, b['id'], tag='flat', max_depth=0)
        callees[b['id']] = {n.d.get('fn') for n in flat.calls()}
        sg = supergraph(F, b['id'])
        if any('safe_mmio' in (n.d.get('fn') or '') and n.d['fn'].endswith('::read') for n in sg.calls()):
            reading.append(b)
    for b in reading:
        if not any(o['id'] in callees[b['id']] for o in reading if o is not b):
            probe = b
    if not probe:
        raise Undecided('probe function of the MMIO transport not found')
    sg = supergraph(F, probe['id'])
    tr = Tracer(F, sg, {hadt})
    where = fn_site(F, probe['id'])

    def rd(adt, field, k, vals={}):
        return vals.get(name_of.get(field, field), 0)
    rows = 0
    bad = None
    for magic in (MAGIC, 0, MAGIC ^ 1, 0x76697274):
        for ver in (0, 1, 2, 3):
            for dev in list(range(0, 30)) + [0xffffffff, 256 + 2, 0x10000 + 2, 0x80000001, 0xffff0019, 0x10000]:     # ids that are known types only after truncation
                vals = {'MagicValue': magic, 'Version': ver, 'DeviceID': dev}
                try:
                    r = tr.run({}, reads=lambda a, f, k, vals=vals: vals.get(name_of.get(f, f), 0))
                except Unfoldable as e:
                    r = ('unfoldable', str(e))
                rows += 1
                if r is None or r[0] == 'unfoldable':
                    bad = 'cannot evaluate probe for %s: %s' % (vals, r)
                    break
                ev, ret, p = r
                if any(k == 'W' for k, *_ in ev):
                    bad = 'probe writes a register: %s' % [(k, name_of.get(f, f)) for k, f, v, _ in ev]
                    break
                accept = err_variant(p.ret) == 'Ok'
                want = magic == MAGIC and ver in (1, 2) and dev in DEVICE_IDS
                if accept != want:
                    bad = 'magic=%#x version=%d device id=%d: %s, specification: %s' % (magic, ver, dev, 'accepted' if accept else 'rejected', 'accept' if want else 'reject')
                    break
            if bad:
                break
        if bad:
            break
    R.tables += rows
    R.check(bad is None, 'M3', 'probe:accept-table', where, 'accepts iff magic ok, version in {1,2}, known non-zero device id; reads only (%d rows)' % rows,
            'probe: %s' % bad)
    # region size check in the raw constructor
    raw = [b for b in ctors if b.get('unsafe') and b['id'] != probe['id']]
    for b in raw:
        sg = supergraph(F, b['id'], opaque=lambda t, bb: bb['id'] == probe['id'], tag='m3raw')
        paths = PathEnum(sg).run()
        fn = sg.entry_fn
        ps = [i + 1 for i, l in enumerate(fn['locals'][1:fn['arg_count'] + 1]) if l['ty'] == 'usize']
        bad = None
        rows = 0
        if len(ps) == 1:
            for size in (0, 1, 0xff, 0x100, 0x101, 0x1000, 2**64 - 1):
                def leaf(t, size=size):
                    if t == ('param', ps[0]):
                        return size
                    if t[0] == 'call' and t[2].endswith('::checked_sub'):
                        raise Unfoldable('x')
                    raise Unfoldable(fmt(t)[:80])
                hit = None
                for p in paths:
                    fo = Folder(lambda t, size=size: checked_leaf(t, ps[0], size))
                    try:
                        if path_holds(fo, p):
                            hit = p
                            break
                    except Unfoldable:
                        continue
                rows += 1
                rejected = hit is not None and err_variant(hit.ret) not in ('Ok', None) and not any(e[0] == 'call' and e[2] == probe['id'] for e in hit.effects)
                want_reject = size < 0x100
                if hit is None:
                    bad = 'size %#x: no feasible path' % size
                    break
                if rejected != want_reject:
                    bad = 'region size %#x is %s' % (size, 'rejected' if rejected else 'accepted')
                    break
        else:
            bad = 'cannot identify the size parameter'
        R.tables += rows
        R.check(bad is None, 'M3', 'probe:region-size', fn_site(F, b['id']), 'regions shorter than 0x100 are refused (checked arithmetic)', 'raw constructor: %s' % bad)


def checked_leaf(t, pidx, size):
    if t == ('param', pidx):
        return size
    if t[0] == 'discr' and t[1][0] == 'call' and t[1][2].endswith('::checked_sub'):
        a, b = t[1][3]
        av = size if a == ('param', pidx) else const_int(a)
        bv = size if b == ('param', pidx) else const_int(b)
        return 1 if av >= bv else 0
    raise Unfoldable(fmt(t)[:80])


def m4_delegation(F, R):
    some = None
    for im in F.impls:
        if im.get('trait') == TRANSPORT and im.get('adt') in F.adts and F.adts[im['adt']]['kind'] == 'enum':
            some = im
    if not some:
        R.note('M4: no enum transport wrapper found')
        return
    adt = F.adts[some['adt']]
    nvar = len(adt['variants'])
    for it in some['items']:
        if it['kind'] != 'AssocFn' or it['path'] not in F.bodies:
            continue
        b = F.bodies[it['path']]
        sg = supergraph(F, b['id'], tag='flat', max_depth=0)
        S = sg.sym
        calls = [n for n in sg.calls() if n.d.get('trait') == TRANSPORT]
        nparams = b['arg_count']
        ok = len(calls) == nvar
        det = []
        for n in calls:
            if n.d.get('method') != it['name']:
                ok = False
                det.append('calls %s' % n.d.get('method'))
            args = [S.operand(n.id, a) for a in n.d['args']]
            for i, a in enumerate(args[1:], start=2):
                if strip_conv(a) != ('param', i):
                    ok = False
                    det.append('argument %d is %s' % (i, fmt(a)))
            # result returned
            if n.d['dest']['l'] != 0 or n.d['dest']['p']:
                v = None
                for r in sg.exits:
                    v = S.local_value(r, 0, 0)
                if v is None or not derives_from(v, lambda x: x[0] == 'call' and x[1] == n.id):
                    if 'Result' in b.get('sig', '') or not b.get('sig', '').endswith('}') :
                        pass
        R.count('delegations', 1)
        R.check(ok, 'M4', 'delegate:%s' % it['name'], fn_site(F, b['id']), 'forwards to %d variants with identical arguments' % nvar,
                'SomeTransport::%s does not forward faithfully: %d forwarding calls for %d variants; %s' % (it['name'], len(calls), nvar, det))


def thorough_extra(R, here):
    run_witnesses(R, here, {'C10M1PrivateRegisters': 'access to a VirtIOHeader register field from outside the transport module'}, 'M1')
