"""Helpers shared by rule modules."""
from ..core import *
from ..model import *

_cache = {}


def model(F):
    k = id(F)
    if k not in _cache:
        _cache.clear()
        _cache[k] = Model(F)
    return _cache[k]


_sg_cache = {}


def supergraph(F, entry, opaque=None, tag='', max_depth=8):
    k = (id(F), entry, tag, max_depth)
    if k not in _sg_cache:
        if len(_sg_cache) > 64:
            _sg_cache.clear()
        _sg_cache[k] = Super(F, entry, opaque=opaque, max_depth=max_depth)
    return _sg_cache[k]


def queue_entry_points(F, M):
    """Public / reachable methods of the queue object type."""
    out = []
    for b in F.bodies.values():
        if b.get('impl_adt') == M.queue_adt and 'impl_trait' not in b and b['kind'] == 'AssocFn' and F.handwritten(b):
            out.append(b)
    return out


def site(sg, n):
    return sg.where(n)


def fn_site(F, fid):
    return '%s (%s)' % (F.file_line(fid), fid)
