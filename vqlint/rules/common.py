"""Helpers shared by rule modules."""
from ..core import *
from ..model import *

_cache = {}


def model(F):
    k = id(F)
    if k not in _cache:
        _cache.clear()
        _cache[k] = Model(F)
    return _cache[k]


_sg_cache = {}


def supergraph(F, entry, opaque=None, tag='', max_depth=8):
    k = (id(F), entry, tag, max_depth)
    if k not in _sg_cache:
        if len(_sg_cache) > 64:
            _sg_cache.clear()
        _sg_cache[k] = Super(F, entry, opaque=opaque, max_depth=max_depth)
    return _sg_cache[k]


def queue_entry_points(F, M):
    """Public / reachable methods of the queue object type."""
    out = []
    for b in F.bodies.values():
        if b.get('impl_adt') == M.queue_adt and 'impl_trait' not in b and b['kind'] == 'AssocFn' and F.handwritten(b):
            out.append(b)
    return out


def site(sg, n):
    return sg.where(n)


def fn_site(F, fid):
    return '%s (%s)' % (F.file_line(fid), fid)


_loop_cache = {}


def has_loop(b):
    k = b['id']
    if k in _loop_cache:
        return _loop_cache[k]
    blocks = b['blocks']
    succ = {}
    for i, bl in enumerate(blocks):
        t = bl['term']
        s = []
        if t['k'] == 'goto':
            s = [t['target']]
        elif t['k'] == 'switch':
            s = [x[1] for x in t['targets']] + [t['otherwise']]
        elif t['k'] in ('call', 'drop', 'assert'):
            s = [t['target']] if t.get('target') is not None else []
        succ[i] = s
    color = {}
    found = False
    st = [(0, iter(succ[0]))]
    color[0] = 1
    while st and not found:
        u, it = st[-1]
        adv = False
        for v in it:
            if color.get(v) == 1:
                found = True
                break
            if v not in color:
                color[v] = 1
                st.append((v, iter(succ[v])))
                adv = True
                break
        if not adv and not found:
            color[u] = 2
            st.pop()
    _loop_cache[k] = found
    return found


def loop_opaque(t, b):
    return has_loop(b)


def strip_conv(t):
    while isinstance(t, tuple) and t and (t[0] in ('conv', 'idcall') or (t[0] == 'cast' and t[1] == 'IntToInt')):
        t = t[2] if t[0] in ('conv', 'idcall') else t[3]
    return t


def err_variant(t):
    """Name of the Error variant of an Err(..) return term, 'Ok' for Ok(..), None otherwise."""
    if isinstance(t, tuple) and t[0] == 'agg':
        if t[1].endswith('::Ok'):
            return 'Ok'
        if t[1].endswith('::Err') and t[2]:
            e = t[2][0]
            while e[0] in ('conv', 'idcall'):
                e = e[2]
            if e[0] == 'agg':
                return e[1].rsplit('::', 1)[1]
            return 'Err(?)'
        if t[1].endswith('::None'):
            return 'None'
        if t[1].endswith('::Some'):
            return 'Some'
    return None
