"""Helpers shared by rule modules."""
from ..core import *
from ..model import *

_cache = {}


def model(F):
    k = id(F)
    if k not in _cache:
        _cache.clear()
        _cache[k] = Model(F)
    return _cache[k]


_sg_cache = {}


def supergraph(F, entry, opaque=None, tag='', max_depth=8):
    k = (id(F), entry, tag, max_depth)
    if opaque is loop_opaque:
        # "contains a loop" is a property of the callee including its private helpers (a loop may be extracted)
        # - but a loop-free dispatcher that chooses between several looping helpers is analysed inlined (the choice is
        # what the rules fold), with the helpers it dispatches to staying opaque
        opaque = lambda t, b: has_loop(b) or (has_loop_deep(F, b) and _loopy_callees(F, b) <= 1)
    if k not in _sg_cache:
        if len(_sg_cache) > 64:
            _sg_cache.clear()
        _sg_cache[k] = Super(F, entry, opaque=opaque, max_depth=max_depth)
    return _sg_cache[k]


def queue_entry_points(F, M):
    """Public / reachable methods of the queue object type."""
    out = []
    for b in F.bodies.values():
        if b.get('impl_adt') == M.queue_adt and 'impl_trait' not in b and b['kind'] == 'AssocFn' and F.handwritten(b):
            out.append(b)
    return out


_api_cache = {}


def queue_api_entry_points(F, M):
    """Methods of the queue type that the rest of the crate (or a user) can call: `pub`, or called from a function
    outside the queue's own impl.  Private helpers that are only reached through these are analysed inlined."""
    k = id(F)
    if k in _api_cache:
        return _api_cache[k]
    ids = set(b['id'] for b in queue_entry_points(F, M))
    called_outside = set()
    for b in F.bodies.values():
        if b.get('impl_adt') == M.queue_adt and 'impl_trait' not in b:
            continue
        for bl in b['blocks']:
            t = bl['term']
            if t['k'] == 'call' and t.get('fn') in ids:
                called_outside.add(t['fn'])
    out = [b for b in queue_entry_points(F, M) if b.get('pub') or b['id'] in called_outside]
    _api_cache[k] = out
    return out


def roles_reached(F, roles, through=None):
    """fn id -> set of queue-API roles called directly or through private (non-pub) hand-written helpers.
    A refactoring that moves a queue call into a private helper keeps the caller's role set."""
    through = through or (lambda bb: not bb.get('pub') and bb['id'] not in roles)
    direct, callees = {}, {}
    for b in F.bodies.values():
        if not F.handwritten(b):
            continue
        ds, cs = set(), set()
        for bl in b['blocks']:
            t = bl['term']
            if t['k'] == 'call' and t.get('fn'):
                if t['fn'] in roles:
                    ds.add(roles[t['fn']])
                elif t['fn'] in F.bodies:
                    cs.add(t['fn'])
        direct[b['id']] = ds
        callees[b['id']] = cs
    out = {k: set(v) for k, v in direct.items()}
    changed = True
    while changed:
        changed = False
        for k, cs in callees.items():
            for c in cs:
                cb = F.bodies.get(c)
                if cb is None or c not in out or not F.handwritten(cb) or not through(cb):
                    continue
                if not out[c] <= out[k]:
                    out[k] |= out[c]
                    changed = True
    return out


def site(sg, n):
    return sg.where(n)


def fn_site(F, fid):
    return '%s (%s)' % (F.file_line(fid), fid)


_loop_cache = {}


def has_loop(b):
    k = b['id']
    if k in _loop_cache:
        return _loop_cache[k]
    blocks = b['blocks']
    succ = {}
    for i, bl in enumerate(blocks):
        t = bl['term']
        s = []
        if t['k'] == 'goto':
            s = [t['target']]
        elif t['k'] == 'switch':
            s = [x[1] for x in t['targets']] + [t['otherwise']]
        elif t['k'] in ('call', 'drop', 'assert'):
            s = [t['target']] if t.get('target') is not None else []
        succ[i] = s
    color = {}
    found = False
    st = [(0, iter(succ[0]))]
    color[0] = 1
    while st and not found:
        u, it = st[-1]
        adv = False
        for v in it:
            if color.get(v) == 1:
                found = True
                break
            if v not in color:
                color[v] = 1
                st.append((v, iter(succ[v])))
                adv = True
                break
        if not adv and not found:
            color[u] = 2
            st.pop()
    _loop_cache[k] = found
    return found


_deep_cache = {}


def has_loop_deep(F, b, _stack=None):
    """The function or any crate-local function it calls (transitively) contains a loop."""
    k = (id(F), b['id'])
    if k in _deep_cache:
        return _deep_cache[k]
    _stack = _stack or set()
    if b['id'] in _stack:
        return False
    if has_loop(b):
        _deep_cache[k] = True
        return True
    _stack = _stack | {b['id']}
    r = False
    for bl in b['blocks']:
        t = bl['term']
        if t['k'] == 'call':
            cb = F.bodies.get(t.get('resolved') or t.get('fn'))
            if cb is not None and has_loop_deep(F, cb, _stack):
                r = True
                break
    _deep_cache[k] = r
    return r


def _loopy_callees(F, b):
    out = set()
    for bl in b['blocks']:
        t = bl['term']
        if t['k'] == 'call':
            cb = F.bodies.get(t.get('resolved') or t.get('fn'))
            if cb is not None and has_loop_deep(F, cb):
                out.add(cb['id'])
    return len(out)


def loop_opaque(t, b):
    return has_loop(b)


def strip_conv(t):
    while isinstance(t, tuple) and t and (t[0] in ('conv', 'idcall') or (t[0] == 'cast' and t[1] == 'IntToInt')):
        t = t[2] if t[0] in ('conv', 'idcall') else t[3]
    return t


def err_variant(t):
    """Name of the Error variant of an Err(..) return term, 'Ok' for Ok(..), None otherwise."""
    if isinstance(t, tuple) and t[0] == 'agg':
        if t[1].endswith('::Ok'):
            return 'Ok'
        if t[1].endswith('::Err') and t[2]:
            e = t[2][0]
            while e[0] in ('conv', 'idcall'):
                e = e[2]
            if e[0] == 'agg':
                return e[1].rsplit('::', 1)[1]
            return 'Err(?)'
        if t[1].endswith('::None'):
            return 'None'
        if t[1].endswith('::Some'):
            return 'Some'
    return None


def array_elems(S, t, depth=3):
    """Elements of an array/slice operand such as `&[a, b]` / `&mut [x, y]` (by value terms)."""
    t0 = t
    while t0[0] in ('cast', 'idcall', 'conv'):
        t0 = t0[3] if t0[0] == 'cast' else t0[2]
    if t0[0] == 'agg' and t0[1] == 'array':
        return list(t0[2])
    if t0[0] == 'ref' and t0[1][1][0] == 'local' and not t0[1][2] and depth > 0:
        _, cx, l = t0[1][1]
        vals = []
        for dn, part in S.defs.get((cx, l), []):
            if not part:
                vals.append(S.def_value(dn, cx, l))
        if len(vals) == 1:
            v = vals[0]
            if v[0] == 'agg' and v[1] == 'array':
                return list(v[2])
            return array_elems(S, v, depth - 1)
    if t0[0] == 'ref' and 'promoted' in fmt(t0):
        return []        # promoted constant `&[]`
    return None


def array_alternatives(S, t):
    """Element lists a slice operand can denote: one list, or one per alternative when the operand is selected
    between a whole array and a constant prefix / suffix of it (`if c { &a[..1] } else { &a }`)."""
    one = array_elems(S, t)
    if one is not None:
        return [one]
    t0 = t
    while t0[0] in ('cast', 'idcall', 'conv'):
        t0 = t0[3] if t0[0] == 'cast' else t0[2]
    if t0[0] == 'ref' and t0[1][1][0] == 'deref' and not t0[1][2]:
        t0 = strip_ptr(t0[1][1][1])
    if t0[0] == 'phi':
        out = []
        for a in t0[1]:
            r = array_alternatives(S, a)
            if r is None:
                return None
            out.extend(r)
        return out
    if t0[0] == 'ref' and t0[1][1][0] == 'local' and len(t0[1][2]) == 1 and t0[1][2][0][0] == 'idx':
        rg = t0[1][2][0][1]
        whole = array_elems(S, ('ref', ('loc', t0[1][1], ())))
        if whole is None or rg[0] != 'agg':
            return None
        vals = [x[1] if x[0] == 'const' else None for x in rg[2]]
        if any(v is None for v in vals):
            return None
        kind = rg[1].rsplit('::', 1)[-1]
        if kind == 'RangeFull':
            return [whole]
        if kind == 'RangeToInclusive':
            return [whole[:vals[0] + 1]]
        if kind == 'RangeTo':
            return [whole[:vals[0]]]
        if kind == 'RangeFrom':
            return [whole[vals[0]:]]
        if kind == 'Range':
            return [whole[vals[0]:vals[1]]]
        return None
    return None


def value_type(sg, v):
    """Type of a call result: the type of the local the call writes."""
    if v is not None and v[0] == 'call' and isinstance(v[1], int):
        n = sg.nodes[v[1]]
        d = n.d.get('dest')
        if d is not None and not d['p']:
            return sg.ctxs[n.ctx].fn['locals'][d['l']]['ty']
    if v is not None and v[0] == 'agg' and '::' in v[1]:
        return v[1].rsplit('::', 1)[0]
    return None


def elem_object(sg, S, e):
    """(kind, type string, base term) of the object whose bytes a slice element denotes."""
    bytes_of = False
    t = e
    while True:
        if t[0] == 'idcall':
            if 'as_bytes' in t[1] or 'as_mut_bytes' in t[1]:
                bytes_of = True
            t = t[2]
            continue
        if t[0] in ('conv',):
            t = t[2]
            continue
        if t[0] == 'cast':
            t = t[3]
            continue
        break
    ty = None
    if t[0] == 'ref':
        loc = t[1]
        root = loc[1]
        if root[0] == 'local' and not loc[2]:
            ty = sg.ctxs[root[1]].fn['locals'][root[2]]['ty']
        elif loc[2] and loc[2][-1][0] == 'f':
            ty = 'field:%s' % loc[2][-1][1]
        elif root[0] == 'deref':
            ty = root[2].lstrip('&').replace('mut ', '')
    elif t[0] == 'param':
        fn = sg.ctxs[0].fn
        ty = fn['locals'][t[1]]['ty']
    return bytes_of, ty, t


def local_value_of_ref(S, t):
    """Value stored in the local a `&local` term points at (single whole assignment)."""
    if t[0] == 'ref' and t[1][1][0] == 'local':
        _, cx, l = t[1][1]
        vals = [S.def_value(dn, cx, l) for dn, part in S.defs.get((cx, l), []) if not part]
        if len(vals) == 1:
            return vals[0]
        if not vals and 1 <= l <= S.sg.ctxs[cx].fn['arg_count']:
            return S.param_value(cx, l)
    return None


def run_witnesses(R, here, wanted, rule):
    """Thorough tier: compile-fail witnesses (rustdoc compile_fail with error codes, nightly) and their compiling
    twins.  `wanted` maps witness struct name -> description.  A witness that now compiles is a violation; a twin that no
    longer compiles makes the witness unusable (abstain)."""
    import os
    import re
    import subprocess
    cache = os.path.join(here, '.work', 'witness-%s.txt' % _repo_tag())
    if os.path.exists(cache):
        out = open(cache).read()
    else:
        env = dict(os.environ)
        env['CARGO_NET_OFFLINE'] = 'true'
        r = subprocess.run([os.path.join(here, 'tools', 'witness.sh')], capture_output=True, text=True, env=env)
        out = r.stdout + r.stderr
        try:
            open(cache, 'w').write(out)
        except OSError:
            pass
    res = {}
    for m in re.finditer(r'^test src/lib\.rs - (\w+) \(line \d+\)( - compile fail)? \.\.\. (\w+)', out, re.M):
        res[(m.group(1), bool(m.group(2)))] = m.group(3)
    for name, what in wanted.items():
        cf = res.get((name, True))
        twin = res.get((name, False))
        if cf is None or twin is None:
            R.abstain(rule, 'witness:%s' % name, 'witness did not run (%s / %s)' % (cf, twin), 'witness/src/lib.rs')
        elif twin != 'ok':
            R.abstain(rule, 'witness:%s' % name, 'the compiling twin of the witness no longer compiles - witness unusable', 'witness/src/lib.rs')
        else:
            R.check(cf == 'ok', rule, 'witness:%s' % name, 'witness/src/lib.rs', '%s: rejected by the compiler (twin compiles)' % what,
                    '%s: the offending program now COMPILES (its twin differs only by the offending line)' % what)


def _repo_tag():
    import hashlib
    import os
    repo = os.environ.get('VERIF_REPO', '/repo')
    h = hashlib.sha256()
    for root, dirs, files in os.walk(os.path.join(repo, 'src')):
        dirs.sort()
        for f in sorted(files):
            p = os.path.join(root, f)
            h.update(p.encode())
            h.update(open(p, 'rb').read())
    wl = os.path.join(os.path.dirname(os.path.dirname(os.path.dirname(os.path.abspath(__file__)))), 'witness', 'src', 'lib.rs')
    try:
        h.update(open(wl, 'rb').read())
    except OSError:
        pass
    return h.hexdigest()[:16]


class RuleProxy:
    """Report view that re-labels the rules of a shared analysis for another property: `mapping` maps the original
    rule id to the new one; rules mapped to None (or absent when `drop_others`) are not recorded."""

    def __init__(self, R, mapping, drop_others=True, only=None):
        self._R, self._m, self._drop, self._only = R, mapping, drop_others, only

    def _rule(self, rule, instance=None):
        if self._only and instance is not None and not self._only(instance):
            return None
        if rule in self._m:
            return self._m[rule]
        return None if self._drop else rule

    def held(self, rule, instance, site='', detail=''):
        r = self._rule(rule, instance)
        return self._R.held(r, instance, site, detail) if r else None

    def violated(self, rule, instance, site='', detail='', **extra):
        r = self._rule(rule, instance)
        return self._R.violated(r, instance, site, detail, **extra) if r else None

    def check(self, cond, rule, instance, site='', detail='', bad_detail=None):
        r = self._rule(rule, instance)
        return self._R.check(cond, r, instance, site, detail, bad_detail) if r else None

    def abstain(self, rule, instance, why, site=''):
        r = self._rule(rule, instance)
        return self._R.abstain(r, instance, why, site) if r else None

    def note(self, msg):
        pass

    def count(self, name, n):
        self._R.count(name, n)

    @property
    def tables(self):
        return self._R.tables

    @tables.setter
    def tables(self, v):
        self._R.tables = v


def guard(R, rule, what, fn):
    """Run a rule shared from another property; if it cannot run on this tree (a role it needs is gone, an anchor is missing),
    record an abstention for *that* rule instead of aborting the whole check - the property's other violations are still reported,
    and without one the abstention fails closed."""
    from ..paths import PathLimit
    try:
        return fn()
    except (Undecided, KeyError, IndexError, PathLimit) as e:
        R.abstain(rule, 'shared:%s' % what, 'shared rule could not be evaluated: %s: %s' % (type(e).__name__, str(e)[:160]), '')
        return None


def shared_rule(fn):
    """Decorator for the `*_rule(F, R, rule, ...)` helpers (see guard)."""
    import functools
    import re as _re

    @functools.wraps(fn)
    def w(F, R, *a, **k):
        rule = k.get('rule') or next((x for x in a if isinstance(x, str) and _re.match(r'^[A-Z]\d+[a-z]?$', x)), '?')
        return guard(R, rule, fn.__name__, lambda: fn(F, R, *a, **k))
    return w


@shared_rule
def transport_registration_rule(F, R, rule, op='queue_set'):
    """The transports' queue_set write the three area addresses they receive - each 64-bit address split into its own
    low/high words, into its own register - and nothing else (register traces of C10.M2 / C11.W3 under another rule id).
    With op='notify': the notification register / window slot receives the queue's index."""
    from . import C10 as _c10, C11 as _c11
    _qs = lambda inst: op in inst
    _c10.ONLY_OPS = {op}
    try:
        _c10.run(F, RuleProxy(R, {'M2': rule, 'M4': rule}, only=_qs))      # M4: the enum wrapper forwards the operation's arguments unchanged
    finally:
        _c10.ONLY_OPS = None
    _c11.run(F, RuleProxy(R, {'W3': rule}, only=_qs))


@shared_rule
def decode_tables_rule(F, R, rule, prefixes):
    """Reader and writer tables agree: a conversion defined on a field-less enum (inherent fn / From / TryFrom taking one
    integer) maps each integer it accepts to the variant whose discriminant is that integer - the discriminants are the
    specification codes the encoding direction (`as` casts, `into`) uses."""
    import re as _re
    from ..paths import PathEnum, PathLimit
    n = 0
    for b in F.bodies.values():
        if not F.handwritten(b) or b['kind'] != 'AssocFn' or b['arg_count'] != 1:
            continue
        if b['locals'][1]['ty'] not in ('u8', 'u16', 'u32', 'u64', 'usize'):
            continue
        rty = b['locals'][0]['ty']
        m = _re.search(r'<([\w:]+)(?:, [^>]*)?>$', rty) if (rty.startswith('core::option::Option<') or rty.startswith('core::result::Result<')) else _re.match(r'^([\w:]+)$', rty)
        if not m:
            continue
        e = m.group(1)
        a = F.adts.get(e)
        if not a or a['kind'] != 'enum' or any(v['fields'] for v in a['variants']) or not any(e.startswith(p_) for p_ in prefixes):
            continue
        if not (b.get('impl_adt') == e or e in (b.get('impl_self') or '')):
            continue
        # only enums whose discriminants are explicit codes (not the implicit 0..n-1 numbering, which a harmless reordering
        # of the variants would change)
        if max(int(v.get('discr', 0)) for v in a['variants']) < len(a['variants']):
            continue
        sg = supergraph(F, b['id'])
        try:
            paths = PathEnum(sg).run()
        except PathLimit:
            continue
        rows = []
        for p in paths:
            if p.panicked or p.ret is None:
                continue
            vs = [x for x in subterms(p.ret) if x[0] == 'agg' and x[1].startswith(e + '::')]
            consts = [c[1][1] for c in p.conds if strip_conv(c[0]) == ('param', 1) and c[1][0] == 'in' and len(c[1][1]) == 1]
            if vs and consts:
                rows.append((consts[-1][0], vs[0][1]))
        if len(rows) < 2:
            continue
        n += 1
        bad = ['%#x -> %s (= %#x)' % (v, var.rsplit('::', 1)[1], VARIANT_DISCR.get(var, -1)) for v, var in rows if VARIANT_DISCR.get(var) != v]
        R.tables += len(rows)
        R.check(not bad, rule, 'decode:%s' % b['id'], fn_site(F, b['id']), 'each of the %d accepted codes decodes to the variant with that discriminant' % len(rows),
                'decoding table disagrees with the enum\'s codes: %s' % ', '.join(bad))
    R.count('decode_tables', n)
