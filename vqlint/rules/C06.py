"""C06 - queue memory is laid out, registered and released correctly for every size.

Decided:
 L1 ring layouts: descriptor, available-ring and used-ring types have the specification's layout for all 16 sizes
    (field offsets, element sizes 16/2/8, alignments 16/2/4) - from rustc's layout_of.
 L2 area arithmetic: both allocation strategies are path-enumerated and folded for each N in {1,...,32768}: offsets and
    sizes of the three areas, containment of each area *and of the Rust struct placed there* in pages*4096, pairwise
    disjointness, alignments 16/2/4 for page-aligned DMA; legacy: one region, direction Both, used ring at
    ALIGN(16N + 6 + 2N, 4096) (the specification's formula); modern: DriverToDevice for descriptor+driver area,
    DeviceToDriver for the device area.
 L3 registration: the three physical-address accessors and the three pointer accessors of the layout agree variant by
    variant on (DMA region, offset); queue_set receives (descriptor, driver, device) area addresses in that order with
    size SIZE and the constructor's index; the ring pointers stored in the queue come from the matching pointer accessors.
 L4 refusal before effects: the constructor returns AlreadyUsed iff the transport reports the queue in use and
    InvalidParam iff max_queue_size < SIZE, in both cases before any allocation or registration.
 L5 admissible sizes (thorough tier, compile-fail witnesses): sizes that are not a power of two or exceed 65535 do not
    compile.
 L6 release = C09.R4 (RAII owner: single constructor, Drop returns exactly what was allocated, no leaks).
 L7 transports' queue_set write each area address (low/high word) into that area's registers (= C10.M2 / C11.W3 traces).
Not decided: zeroing relies on the Hal::dma_alloc contract.
"""
from .common import *
from ..paths import *
from . import C05

EXPLANATION = ("Layouts come from rustc; the allocation functions and the six area accessors are loop-free and are folded for all 16 "
               "admissible queue sizes into concrete (pages, direction, offsets), which are checked for containment, disjointness and "
               "alignment against the sizes of the Rust ring types; registration order and refusal order are path/who-feeds queries "
               "on the constructor.")
FLOORS = {'layout_rows': 48, 'alloc_rows': 32, 'accessor_fns': 6}
SIZES = [1 << i for i in range(16)]
PAGE = 4096


def run(F, R):
    M = model(F)
    l1_layouts(F, R, M)
    M.require_rings()
    lay = find_layout_adt(F, M)
    if not lay:
        raise Undecided('queue layout type (enum/struct holding the DMA regions) not found')
    roles = l2_alloc(F, R, M, lay)
    l3_registration(F, R, M, lay, roles)
    l4_refusal(F, R, M)
    from .C09 import r4_raii
    r4_raii(F, R, M, rule='L6')
    # L7: the registered addresses reach the device unchanged: transports' queue_set register traces (C10.M2 / C11.W3)
    transport_registration_rule(F, R, 'L7')
    transport_registration_rule(F, R, 'L7', op='set_guest_page_size')      # a legacy device multiplies the registered page frame number by it


@shared_rule
def registration_rule(F, R, rule):
    """L3's queue_set obligations (index, size = SIZE, the three area addresses) under another property's rule id: the
    device locates ring slots with the size it was told."""
    M = model(F)
    M.require_rings()
    lay = find_layout_adt(F, M)
    if not lay:
        raise Undecided('queue layout type (enum/struct holding the DMA regions) not found')
    # ... and the driver writes the rings where the device was told they are: the layout's pointer accessors select the same
    # (region, offset) as its device-address accessors, and the constructor takes each ring pointer from the accessor of its area
    # ... and the areas lie inside the memory that was allocated for them (L2: sizes / offsets / page counts for every queue size)
    P = RuleProxy(R, {'L3': rule, 'L2': rule}, only=lambda inst: 'queue_set' in inst or inst.startswith('accessors:') or ':pointer:' in inst or inst.endswith(':areas') or inst.endswith(':value'))
    roles = l2_alloc(F, P, M, lay)
    l3_registration(F, P, M, lay, roles)


def l1_layouts(F, R, M):
    want = {'desc': (M.desc_adt, None), 'avail': (M.avail_adt, 2), 'used': (M.used_adt, 8)}
    d = F.adts.get(M.desc_adt) if M.desc_adt else None
    R.check(bool(d) and d['layout']['size'] == 16 and d['layout']['align'] == 16 and d['repr']['c'], 'L1', 'layout:descriptor', M.desc_adt or '?',
            'descriptor {u64@0,u32@8,u16@12,u16@14} size 16 align 16', 'no repr(C) 16-byte/align-16 descriptor record {addr@0,len@8,flags@12,next@14} found')
    R.count('layout_rows', 16 if d else 0)
    for kind, (adt, elem) in (('avail', (M.avail_adt, 2)), ('used', (M.used_adt, 8))):
        if not adt:
            R.violated('L1', 'layout:%s' % kind, '', 'no ring type with the %s-ring layout {u16@0, u16@2, [elem;N]@4, u16@4+%d*N} for all sizes' % (kind, elem))
            continue
        a = F.adts[adt]
        bad = None
        for n in SIZES:
            l = a['layouts_by_const'][str(n)]
            R.count('layout_rows', 1)
            R.tables += 1
            al = 2 if kind == 'avail' else 4
            if l['offsets'] != [0, 2, 4, 4 + elem * n] or l['align'] != al or l['size'] < 6 + elem * n:
                bad = 'N=%d: offsets %s align %d size %d' % (n, l['offsets'], l['align'], l['size'])
        R.check(bad is None and a['repr']['c'], 'L1', 'layout:%s' % kind, adt, '%s ring layout matches VirtIO 1.2 2.7 for 16 sizes' % kind, '%s ring layout: %s' % (kind, bad))
    if M.used_elem_adt:
        u = F.adts[M.used_elem_adt]['layout']
        R.check(u['size'] == 8 and u['offsets'] == [0, 4], 'L1', 'layout:used-elem', M.used_elem_adt, 'used element {u32 id@0, u32 len@4}', 'used element layout %s' % u)


def find_layout_adt(F, M):
    q = F.adts.get(M.queue_adt)
    for f in q['variants'][0]['fields']:
        for m in f['mentions']:
            a = F.adts.get(m)
            if a and m != M.dma_adt and any(M.dma_adt in ff['mentions'] for v in a['variants'] for ff in v['fields']):
                return m
    return None


def ring_sizes(F, M, n):
    return (16 * n, F.adts[M.avail_adt]['layouts_by_const'][str(n)]['size'], F.adts[M.used_adt]['layouts_by_const'][str(n)]['size'])


def l2_alloc(F, R, M, lay):
    allocs = [b for b in F.bodies.values() if b.get('impl_adt') == lay and F.handwritten(b) and b['kind'] == 'AssocFn'
              and '-> core::result::Result<' in b.get('sig', '') and 'impl_trait' not in b
              # the functions that build a layout value themselves (a dispatcher that merely forwards to them is not one)
              and any(st['k'] == 'assign' and st['rv']['rv'] == 'agg' and st['rv'].get('adt') == lay for bl in b['blocks'] for st in bl['stmts'])]
    roles = {}
    for b in allocs:
        sg = supergraph(F, b['id'], opaque=lambda t, bb: bb.get('impl_adt') == M.dma_adt, tag='c06')
        where = fn_site(F, b['id'])
        try:
            paths = PathEnum(sg).run()
        except PathLimit as e:
            R.abstain('L2', b['id'], str(e), where)
            continue
        fn = sg.entry_fn
        psize = [i + 1 for i, l in enumerate(fn['locals'][1:fn['arg_count'] + 1]) if l['ty'] in ('u16', 'usize', 'u32')]
        if not psize:
            R.abstain('L2', b['id'], 'cannot identify the queue-size parameter', where)
            continue
        bad = None
        kind = None
        for n in SIZES:
            def leaf(t, n=n):
                if t == ('param', psize[0]):
                    return n
                if t[0] == 'param':
                    return 0
                if t[0] == 'discr' and t[1][0] == 'call':
                    return 0     # Dma::new succeeded
                raise Unfoldable(fmt(t)[:80])
            fo = Folder(leaf)
            hit = None
            try:
                for p in paths:
                    if path_holds(fo, p) and err_variant(p.ret) == 'Ok':
                        hit = p
                        break
            except Unfoldable as e:
                R.abstain('L2', b['id'], 'cannot fold: %s' % e, where)
                return roles
            R.count('alloc_rows', 1)
            R.tables += 1
            if hit is None:
                okp = [p for p in paths if not p.panicked]
                bad = 'N=%d: no successful path (panics: %s)' % (n, not okp)
                break
            dmas = [e for e in hit.effects if e[0] == 'call' and e[4].get('local') and F.bodies.get(e[2], {}).get('impl_adt') == M.dma_adt]
            try:
                regions = [(fo.ev(e[3][0]), e[3][1][1].rsplit('::', 1)[1] if e[3][1][0] == 'agg' else '?', e[1]) for e in dmas]
            except Unfoldable as e:
                R.abstain('L2', b['id'], 'cannot fold page count: %s' % e, where)
                return roles
            agg = hit.ret[2][0]
            vname = agg[1].rsplit('::', 1)[1]
            fields = dict(zip(agg[3], agg[2]))
            dsz, asz, usz = ring_sizes(F, M, n)
            spec_avail, spec_used = 6 + 2 * n, 6 + 8 * n
            offs = {}
            dfields = {}
            for fname, v in fields.items():
                dcall = [x for x in subterms(v) if x[0] == 'call' and x[1] in [r[2] for r in regions]]
                if dcall:
                    dfields[fname] = dcall[0][1]
                else:
                    offs[fname] = fo.ev(v)
            if len(regions) == 1:
                kind = 'legacy'
                pages, direction, node = regions[0]
                size = pages * PAGE
                avail_f = [f for f, v in offs.items() if v == dsz]
                used_spec = ((dsz + spec_avail + PAGE - 1) // PAGE) * PAGE
                used_f = [f for f, v in offs.items() if f not in avail_f]
                if direction != 'Both':
                    bad = 'N=%d: legacy region allocated with direction %s, the device reads and writes it (Both)' % (n, direction)
                elif not avail_f or len(used_f) != 1:
                    bad = 'N=%d: available ring is not placed directly after the descriptor table (offsets %s, descriptor table %d bytes)' % (n, offs, dsz)
                else:
                    uo = offs[used_f[0]]
                    if uo != used_spec:
                        bad = 'N=%d: used ring at %d, legacy layout requires ALIGN(16N+6+2N, 4096) = %d' % (n, uo, used_spec)
                    elif dsz + asz > uo:
                        bad = 'N=%d: available ring (%d bytes at %d) overlaps the used ring at %d' % (n, asz, dsz, uo)
                    elif uo + usz > size or uo + spec_used > size:
                        bad = 'N=%d: used ring (%d bytes at %d) exceeds the %d allocated bytes' % (n, usz, uo, size)
                    elif pages != (used_spec + ((spec_used + PAGE - 1) // PAGE) * PAGE) // PAGE:
                        bad = 'N=%d: %d pages allocated, layout needs %d' % (n, pages, (used_spec + ((spec_used + PAGE - 1) // PAGE) * PAGE) // PAGE)
                    roles[vname] = {'dma': {list(dfields)[0]: 'both'}, 'avail_offset': avail_f[0], 'used_offset': used_f[0]}
            elif len(regions) == 2:
                kind = 'modern'
                (p1, d1, n1), (p2, d2, n2) = regions
                dd = {d1: (p1, n1), d2: (p2, n2)}
                avail_f = [f for f, v in offs.items() if v == dsz]
                if set(dd) != {'DriverToDevice', 'DeviceToDriver'}:
                    bad = 'N=%d: regions allocated with directions %s, expected one DriverToDevice and one DeviceToDriver' % (n, [d1, d2])
                elif not avail_f:
                    bad = 'N=%d: driver area is not placed directly after the descriptor table (offsets %s)' % (n, offs)
                else:
                    pd, pu = dd['DriverToDevice'][0], dd['DeviceToDriver'][0]
                    if dsz + asz > pd * PAGE:
                        bad = 'N=%d: descriptor table + available ring need %d bytes but the driver-to-device region has %d pages (%d bytes)' % (n, dsz + asz, pd, pd * PAGE)
                    elif usz > pu * PAGE:
                        bad = 'N=%d: used ring needs %d bytes but the device-to-driver region has %d bytes' % (n, usz, pu * PAGE)
                    elif dsz % 2 or dsz % 16 and False:
                        bad = 'N=%d: available ring offset %d is not 2-aligned' % (n, dsz)
                    rr = {}
                    for fname, node in dfields.items():
                        rr[fname] = 'd2dev' if node == dd['DriverToDevice'][1] else 'dev2d'
                    roles[vname] = {'dma': rr, 'avail_offset': avail_f[0]}
            else:
                bad = 'N=%d: %d DMA regions allocated' % (n, len(regions))
            if bad:
                break
        R.check(bad is None, 'L2', '%s:areas' % b['id'], where, '%s layout: areas contained, disjoint, aligned, right directions for all 16 sizes' % kind,
                'queue memory layout (%s): %s' % (kind or '?', bad))
    return roles


def l3_registration(F, R, M, lay, roles):
    accs = [b for b in F.bodies.values() if b.get('impl_adt') == lay and F.handwritten(b) and b['kind'] == 'AssocFn' and 'impl_trait' not in b
            and '-> core::result::Result<' not in b.get('sig', '')]
    sigs = {}
    variants = {v['name']: int(v['discr']) for v in F.adts[lay]['variants']} if F.adts[lay]['kind'] == 'enum' else {}
    for b in accs:
        sg = supergraph(F, b['id'], opaque=lambda t, bb: bb.get('impl_adt') == M.dma_adt, tag='c06')
        paths = [p for p in PathEnum(sg).run() if not p.panicked]
        kind = 'paddr' if b.get('sig', '').endswith('-> u64') else ('vaddr' if 'NonNull' in b.get('sig', '') else None)
        if not kind:
            continue
        R.count('accessor_fns', 1)
        sig = {}
        for p in paths:
            vn = None
            for disc, (k, vals), _ in p.conds:
                if disc[0] == 'discr' and k == 'in':
                    vn = [n for n, d in variants.items() if d == vals[0]]
                    vn = vn[0] if vn else None
            r = p.ret
            dma_f = off_f = None
            for x in subterms(r):
                if x[0] == 'call' and F.bodies.get(x[2], {}).get('impl_adt') == M.dma_adt:
                    for y in subterms(x[3][0]):
                        if y[0] == 'loc' and y[2] and y[2][-1][0] == 'f':
                            dma_f = y[2][-1][1]
                if x[0] == 'load0' and x[1][2] and x[1][2][-1][0] == 'f':
                    off_f = x[1][2][-1][1]
            sig[vn] = (dma_f, off_f)
            # value: region base (+ the area's offset), nothing else
            BASE, OFF = 0x40003000, 0x1340      # overlapping bits: base | offset != base + offset

            def leaf(t):
                if t[0] == 'call' and F.bodies.get(t[2], {}).get('impl_adt') == M.dma_adt and t[2].endswith('::paddr'):
                    return BASE
                if t[0] == 'load0' and t[1][2] and t[1][2][-1][0] == 'f':
                    return OFF
                raise Unfoldable(fmt(t)[:80])
            if kind == 'paddr':
                notp = [x[2] for x in subterms(r) if x[0] == 'call' and F.bodies.get(x[2], {}).get('impl_adt') == M.dma_adt and not x[2].endswith('::paddr')]
                if notp:
                    R.check(False, 'L3', '%s:%s:value' % (b['name'], vn), fn_site(F, b['id']), 'device address = region physical base (+ offset)',
                            'the device-address accessor %s (%s) takes its value from %s, a driver-side pointer, not from the region\'s physical address: '
                            'the area registered with the device is not inside the DMA memory obtained from the platform' % (b['name'], vn, notp[0].rsplit('::', 1)[1]))
                    continue
            try:
                if kind == 'paddr':
                    got = Folder(leaf).ev(r)
                else:
                    vc = [x for x in subterms(r) if x[0] == 'call' and F.bodies.get(x[2], {}).get('impl_adt') == M.dma_adt and len(x[3]) > 1]
                    got = BASE + Folder(leaf).ev(vc[0][3][1]) if vc else None
            except Unfoldable as e:
                R.abstain('L3', '%s:%s:value' % (b['id'], vn), 'cannot fold accessor value: %s' % e, fn_site(F, b['id']))
                continue
            want = BASE + (OFF if off_f else 0)
            R.tables += 1
            R.check(got == want, 'L3', '%s:%s:value' % (b['name'], vn), fn_site(F, b['id']), 'address = region base%s' % (' + `%s`' % off_f if off_f else ''),
                    'area address is not region base%s: with base %#x and offset %#x the accessor yields %s' % (
                        ' + `%s`' % off_f if off_f else '', BASE, OFF, hex(got) if isinstance(got, int) else got))
        sigs[b['id']] = (kind, sig)
    # classify accessors into area roles
    def area_of(sig):
        out = {}
        for vn, (df, of) in sig.items():
            r = roles.get(vn, {})
            dr = r.get('dma', {}).get(df)
            if of is None:
                out[vn] = ('desc' if dr in ('both', 'd2dev') else 'device') if dr != 'dev2d' else 'device'
            elif of == r.get('avail_offset'):
                out[vn] = 'driver'
            elif of == r.get('used_offset'):
                out[vn] = 'device'
            else:
                out[vn] = '?'
        return out
    area = {}
    for fid, (kind, sig) in sigs.items():
        a = area_of(sig)
        vals = set(a.values())
        area[fid] = (kind, vals.pop() if len(vals) == 1 else 'mixed:%s' % a)
    for kind in ('paddr', 'vaddr'):
        got = sorted(v for k, (kk, v) in area.items() if kk == kind)
        R.check(got == ['desc', 'device', 'driver'], 'L3', 'accessors:%s' % kind, lay, '%s accessors cover descriptor, driver and device areas consistently in every variant' % kind,
                '%s accessors of the layout do not select (region, offset) consistently across variants: %s' % (kind, {k: v for k, v in area.items() if v[0] == kind}))
    # constructor: queue_set argument order and ring pointers
    ctors = [b for b in queue_entry_points(F, M) if b.get('sig', '').find('-> core::result::Result<%s<' % M.queue_adt) >= 0]
    for b in ctors:
        sg = supergraph(F, b['id'], opaque=lambda t, bb: bb.get('impl_adt') in (lay, M.dma_adt), tag='c06ctor')
        S = sg.sym
        for n in transport_calls(sg, 'queue_set'):
            args = [S.operand(n.id, a) for a in n.d['args']]
            got = []
            for a in args[3:6]:
                c = [x for x in subterms(a) if x[0] == 'call' and x[2] in area]
                got.append(area[c[0][2]] if c else ('?', fmt(a)[:60]))
            R.check(got == [('paddr', 'desc'), ('paddr', 'driver'), ('paddr', 'device')], 'L3', '%s:queue_set-areas' % b['id'], site(sg, n),
                    'queue_set(descriptor, driver, device) physical addresses', 'queue_set receives areas %s, expected descriptor, driver, device physical addresses' % got)
            sz = strip_conv(args[2])
            size_ok = 'SIZE' in fmt(sz)
            idx_ok = strip_conv(args[1])[0] == 'param'
            R.check(size_ok and idx_ok, 'L3', '%s:queue_set-size-index' % b['id'], site(sg, n), 'size = SIZE, index = constructor parameter',
                    'queue_set size/index arguments: size=%s index=%s' % (fmt(args[2]), fmt(args[1])))
        # ring pointers
        for nd in sg.nodes:
            if nd.ctx == 0 and nd.kind == 'assign' and nd.d['rv']['rv'] == 'agg' and nd.d['rv'].get('adt') == M.queue_adt:
                rv = nd.d['rv']
                f2 = dict(zip(rv['fields'], rv['ops']))
                for role, fname in (('desc', M.qf['desc_ptr']), ('driver', M.qf['avail_ptr']), ('device', M.qf['used_ptr'])):
                    t = S.operand(nd.id, f2[fname])
                    c = [x for x in deep_subterms(S, t) if x[0] == 'call' and x[2] in area]
                    got = area[c[0][2]] if c else ('?', fmt(t)[:60])
                    R.check(got == ('vaddr', role), 'L3', '%s:pointer:%s' % (b['id'], role), site(sg, nd), '%s ring pointer from the %s-area pointer accessor' % (fname, role),
                            'queue field `%s` is initialised from %s, expected the %s-area pointer' % (fname, got, role))


def l4_refusal(F, R, M):
    ctors = [b for b in queue_entry_points(F, M) if b.get('sig', '').find('-> core::result::Result<%s<' % M.queue_adt) >= 0]
    for b in ctors:
        # private helpers of the queue type are part of the constructor; everything else is an event
        sg = supergraph(F, b['id'], opaque=lambda t, bb: bb['id'] != b['id'] and not bb.get('from_expansion') and not (
            bb.get('impl_adt') == M.queue_adt and not bb.get('pub') and 'impl_trait' not in bb), tag='c06l4')
        where = fn_site(F, b['id'])
        paths = PathEnum(sg, loop_unroll=0).run()
        bad = None
        rows = 0
        for size in (1, 4, 256):
            for used in (0, 1):
                for mx in (0, size - 1, size, size + 1, 65536):
                    def leaf(t):
                        if t[0] == 'call' and t[2].endswith('queue_used'):
                            return used
                        if t[0] == 'call' and t[2].endswith('max_queue_size'):
                            return mx
                        raise Unfoldable(fmt(t)[:60])
                    fo = Folder(leaf, generic={'SIZE': size})
                    outcome = None
                    for p in paths:
                        feasible = True
                        for disc, (kind, vals), _ in p.conds:
                            try:
                                v = fo.ev(disc)
                            except Unfoldable:
                                break      # beyond the refusal prefix
                            if (kind == 'in' and v not in vals) or (kind != 'in' and v in vals):
                                feasible = False
                                break
                        if feasible:
                            allocs = [e for e in p.effects if e[0] == 'call' and (e[4].get('method') == 'queue_set' or (e[4].get('local') and 'allocate' in e[2]) or
                                                                                 F.bodies.get(e[2], {}).get('impl_adt') not in (None, M.queue_adt))]
                            ev = err_variant(p.ret) if p.end and p.end[0] == 'return' else None
                            outcome = (ev if ev not in (None, 'Ok') else 'proceeds', bool(allocs))
                            break
                    rows += 1
                    want = 'AlreadyUsed' if used else ('InvalidParam' if mx < size else 'proceeds')
                    if outcome is None or outcome[0] != want:
                        bad = 'SIZE=%d queue_used=%d max_queue_size=%d: %s, expected %s' % (size, used, mx, outcome, want)
                    elif want != 'proceeds' and outcome[1]:
                        bad = 'SIZE=%d queue_used=%d max_queue_size=%d: refused with %s after allocating/registering' % (size, used, mx, want)
        R.tables += rows
        R.check(bad is None, 'L4', '%s:refusal' % b['id'], where, 'AlreadyUsed / InvalidParam decided before any allocation (%d rows)' % rows, 'queue construction refusal: %s' % bad)


def thorough_extra(R, here):
    run_witnesses(R, here, {'C06L5NotPowerOfTwo': 'VirtQueue with SIZE = 3', 'C06L5TooLarge': 'VirtQueue with SIZE = 65536'}, 'L5')
