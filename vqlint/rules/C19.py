"""C19 - event queues deliver each device event once, in order, and stay fully stocked.

Decided:
 Q1 re-post after delivery: in OwningQueue::poll every path on which the handler is invoked (Deliver) continues to a
    queue add of the same buffer slot before returning - whatever the handler returned; in
    VirtIOInput::pop_pending_event every path on which pop_used succeeded continues to a queue add of the same slot.
 Q2 token <-> buffer: the buffer handed to pop_used, to the handler and to the re-posting add is the slot selected by
    the token that peek_used returned (checked indexing); pop_used is called with that token.
 Q3 completion order: only peek_used (head of the used ring) selects what is delivered.
 Q4 exposure bound: the delivered slice is a checked sub-slice of the slot; no unchecked indexing on these paths.
 Q6 no driver access to a posted buffer: after a driver-owned buffer has been handed to `add`, no statement reachable
    from that call in the same function reads or writes the buffer's memory unless a pop_used lies in between
    (the delivered value must have been copied out before the buffer was re-posted).
 Q7 a completion is always seen: the free-running used/last-used indices are only compared for (in)equality and only
    advanced with wrapping arithmetic (C03.E5), so delivery does not stop after the 16-bit index wraps.
 Q8 delivered length = the length the device recorded for *that* completion: on the Ok path of pop_used the id and the
    length are read from the same used-ring slot (last-used & (SIZE-1)) and the refusal paths change nothing (C03.E1/E2).
 Q4b exposure table: the owning queue's pop is folded over the used length L against the buffer size B: it yields the
    slice [0, L) of the slot iff L <= B (a completely filled buffer is delivered in full) and an error otherwise.
 Q5 initial stocking: each constructor of a stocked queue adds every buffer in a loop and propagates failure.
 Q7 free-running indices only compared for (in)equality / advanced with wrapping arithmetic (C03.E5).
 Q8 id and length are read from the same used-ring slot; refused polls change nothing (C03.E1/E2).
 Q11 completion test across the index wrap (= C03.E9).  Q12 driver level: no path on which poll yielded an event loops to poll
     again without returning or collecting that event.
Not decided: "exactly once, count returns to SIZE" over histories.
"""
from .common import *
from ..paths import *
from . import C05

EXPLANATION = ("The poll / pop functions are loop-free once the queue API is treated as events: all their paths are enumerated and every "
               "path that delivers (or consumes) a completion is required to contain the re-posting add of the slot selected by the "
               "peeked token; stocking loops are found as queue adds inside CFG cycles of the constructors.")
CONFIGS = ['def', 'alloc', 'def-rel']    # these drivers need the `alloc` feature
FLOORS = {'exposure_tables': 1, 'post_sites': 1, 'deliver_paths': 1, 'consume_paths': 1, 'stocking_loops': 2, 'users': 3}


def run(F, R):
    M = model(F)
    M.require_rings()
    roles = C05.classify_api(C05.queue_api(F, M))
    byrole = {}
    for k, v in roles.items():
        byrole.setdefault(v, []).append(k)
    if not M.owning_adt:
        raise Undecided('owning queue type not found')
    # poll-like entry points of the owning queue: public methods taking a closure
    polls = [b for b in F.bodies.values() if b.get('impl_adt') == M.owning_adt and 'impl_trait' not in b and b.get('pub') and b['kind'] == 'AssocFn'
             and 'FnOnce' in b.get('sig', '') or (b.get('impl_adt') == M.owning_adt and b.get('pub') and 'impl FnOnce' in b.get('sig', ''))]
    polls = [b for b in F.bodies.values() if b.get('impl_adt') == M.owning_adt and 'impl_trait' not in b and b.get('pub') and b['kind'] == 'AssocFn'
             and any(bl['term']['k'] == 'call' and bl['term'].get('trait') in ('core::ops::FnOnce', 'core::ops::FnMut', 'core::ops::Fn') for bl in b['blocks'])]
    if not polls:
        raise Undecided('no public owning-queue method invokes a handler closure')
    for b in polls:
        q1_poll(F, R, M, b, roles, byrole)
    # drivers that pop and re-add their own event buffers (input); the queue calls may sit in private helpers
    reached = roles_reached(F, roles)
    # ... of the drivers whose constructor stocks a queue in a loop
    stocked = set(b.get('impl_adt') for b in F.bodies.values() if F.handwritten(b) and b['kind'] == 'AssocFn' and has_loop(b)
                  and '-> core::result::Result<' + (b.get('impl_adt') or '?') in b.get('sig', '') and 'add' in reached.get(b['id'], set()))
    stocked.discard(None)
    for b in F.bodies.values():
        if not F.handwritten(b) or b['kind'] != 'AssocFn' or b.get('impl_adt') in (M.queue_adt, M.owning_adt) or not b.get('pub'):
            continue
        if {'peek_used', 'pop_used', 'add'} <= reached.get(b['id'], set()) and b.get('impl_adt') in stocked:
            q1_pop_readd(F, R, M, b, roles, byrole)
    q5_stocking(F, R, M, roles, byrole)
    q12_no_event_dropped(F, R, M)
    # Q13: stocked queues post single-buffer chains, which are submitted directly even when indirect descriptors were negotiated: the
    # release path picks its branch by the head descriptor's own flag (C03.E14)
    from .C03 import e14_release_form
    guard(R, 'Q13', 'release-form', lambda: e14_release_form(F, R, M, rule='Q13'))
    q4b_exposure_table(F, R, M, roles)
    q6_no_access_after_post(F, R, M, roles)
    from .C03 import counters_rule
    counters_rule(F, R, 'Q7')
    from . import C03 as _c3
    _lf = _c3.last_used_field(F, M, byrole['can_pop'][0]) if 'can_pop' in byrole else None
    if _lf:
        _c3.e1_e2_pop(F, RuleProxy(R, {'E1': 'Q8', 'E2': 'Q8'}), M, byrole['pop_used'][0], _lf)
        # ... and every used-ring read of the queue API (peek included) takes the id from the used ring slot of the trusted index
        _c3.e2b_all_slots(F, RuleProxy(R, {'E2': 'Q8'}), M, _lf)
    users = [n for n, a in F.adts.items() if a['kind'] == 'struct' and n not in (M.owning_adt,) and any(
        M.owning_adt in f['mentions'] for f in a['variants'][0]['fields'])]
    R.count('users', len(users) + 1)
    # Q9: the stocked queues run in the negotiated modes (C08.H3)
    from .C08 import queue_modes_rule
    queue_modes_rule(F, R, M, 'Q9', ['device::input', 'device::sound', 'device::socket'])
    # Q11: events keep being delivered after the 16-bit ring indices wrap (65536 completions on one queue): wrap-safe
    # counters and the folded completion test (C03.E5 / E9)
    from .C03 import wrap_rule
    wrap_rule(F, R, 'Q11')
    # Q16: bytes buffered for a socket connection are read back once and in order: the per-connection ring's add/drain index arithmetic
    # (C17.V6)
    if any(n.endswith('RingBuffer') and n.startswith('device::socket::') for n in F.adts):
        from .C17 import v6_ring
        guard(R, 'Q16', 'ring-arithmetic', lambda: v6_ring(F, RuleProxy(R, {'V6': 'Q16'})))
    # Q10: delivered events are what the device wrote: the notification-type decoding table agrees with the enum's codes
    decode_tables_rule(F, R, 'Q10', ['device::sound', 'device::input', 'device::socket'])
    # Q15: a delivered socket packet carries exactly its payload: the body handed to the handler ends at header size + the header's
    # length field, whatever used length the device reported (C17.V10)
    if 'device::socket::vsock::VsockEvent' in F.adts:
        from .C17 import v10_body_bounded
        guard(R, 'Q15', 'body-range', lambda: v10_body_bounded(F, RuleProxy(R, {"V10": "Q15"})))
    # Q14: a delivered socket event is the one the device wrote: operation codes decode to the protocol's event kinds (C18.X1)
    if 'device::socket::vsock::VsockEvent' in F.adts:
        from .C18 import x10_event_decoding
        guard(R, 'Q14', 'event-decoding', lambda: x10_event_decoding(F, RuleProxy(R, {'X1': 'Q14'})))


def q12_no_event_dropped(F, R, M):
    """Driver level: an event obtained from the owning queue's poll is handed to the caller - a driver function does not go round
    a loop again (polling for the next one) on a path where poll has just yielded an event, unless it stores that event into a
    collection it returns; otherwise all but one of the events completed between two calls are consumed and never delivered."""
    polls = set(b['id'] for b in F.bodies.values() if b.get('impl_adt') == M.owning_adt and 'impl_trait' not in b and b.get('pub') and b['kind'] == 'AssocFn'
                and any(bl['term']['k'] == 'call' and bl['term'].get('trait') in ('core::ops::FnOnce', 'core::ops::FnMut', 'core::ops::Fn') for bl in b['blocks']))
    n = 0
    for b in sorted(F.bodies.values(), key=lambda x: x['id']):
        if not F.handwritten(b) or b.get('impl_adt') == M.owning_adt or b['kind'] not in ('AssocFn', 'Fn'):
            continue
        if not any(bl['term']['k'] == 'call' and bl['term'].get('fn') in polls for bl in b['blocks']):
            continue
        sg = supergraph(F, b['id'], opaque=lambda t, bb: True, tag='q12', max_depth=0)
        where = fn_site(F, b['id'])
        try:
            paths = [p for p in PathEnum(sg).run() if not p.panicked]
        except PathLimit as e:
            R.abstain('Q12', '%s:no-event-dropped' % b['id'], str(e), where)
            continue
        n += 1
        bad = None
        for p in paths:
            if getattr(p, 'end', (None,))[0] != 'loop':
                continue
            got = False
            for c in p.conds:
                d = c[0]
                if d[0] == 'discr' and d[1][0] != 'call' and any(x[0] == 'call' and x[2] in polls for x in subterms(d[1])):
                    some = (c[1][0] == 'in' and 0 not in c[1][1]) or (c[1][0] == 'notin' and 0 in c[1][1])
                    got = got or some
            if not got:
                continue
            kept = any(e[0] == 'call' and e[2].rsplit('::', 1)[-1] in ('push', 'push_back', 'extend', 'insert') and any(
                x[0] == 'call' and x[2] in polls for a in e[3] for x in subterms(a)) for e in p.effects)
            if not kept:
                bad = 'on a path where poll yielded an event the function loops to poll again without returning or collecting it'
        R.check(bad is None, 'Q12', '%s:no-event-dropped' % b['id'], where, 'every event obtained from poll is returned (or collected) before polling again',
                '%s: %s - events completed between two calls are consumed from the queue but only the last one is delivered' % (b['name'], bad))
    R.count('poll_users', n)


@shared_rule
def poll_rule(F, R, rule):
    """Q1's poll obligations under another property's rule id: after every return of a poll each buffer is back in the queue
    under its own descriptor (the invariant that lets pop trust a device-reported token)."""
    M = model(F)
    M.require_rings()
    roles = C05.classify_api(C05.queue_api(F, M))
    byrole = {}
    for k, v in roles.items():
        byrole.setdefault(v, []).append(k)
    if not M.owning_adt:
        return      # configuration without the owning queue (no alloc): nothing to decide
    polls = [b for b in F.bodies.values() if b.get('impl_adt') == M.owning_adt and 'impl_trait' not in b and b.get('pub') and b['kind'] == 'AssocFn'
             and any(bl['term']['k'] == 'call' and bl['term'].get('trait') in ('core::ops::FnOnce', 'core::ops::FnMut', 'core::ops::Fn') for bl in b['blocks'])]
    if not polls:
        raise Undecided('no public owning-queue method invokes a handler closure')
    P = RuleProxy(R, {'Q1': rule})
    for b in polls:
        q1_poll(F, P, M, b, roles, byrole)


@shared_rule
def pop_readd_rule(F, R, rule):
    """Q1's obligations for drivers that pop and re-add their own event buffers (input) under another rule id: every return after a
    successful pop has re-posted the buffer under the same token."""
    M = model(F)
    M.require_rings()
    roles = C05.classify_api(C05.queue_api(F, M))
    byrole = {}
    for k, v in roles.items():
        byrole.setdefault(v, []).append(k)
    reached = roles_reached(F, roles)
    stocked = set(b.get('impl_adt') for b in F.bodies.values() if F.handwritten(b) and b['kind'] == 'AssocFn' and has_loop(b)
                  and '-> core::result::Result<' + (b.get('impl_adt') or '?') in b.get('sig', '') and 'add' in reached.get(b['id'], set()))
    stocked.discard(None)
    P = RuleProxy(R, {'Q1': rule, 'Q2': rule})
    for b in F.bodies.values():
        if not F.handwritten(b) or b['kind'] != 'AssocFn' or b.get('impl_adt') in (M.queue_adt, M.owning_adt) or not b.get('pub'):
            continue
        if {'peek_used', 'pop_used', 'add'} <= reached.get(b['id'], set()) and b.get('impl_adt') in stocked:
            q1_pop_readd(F, P, M, b, roles, byrole)


def buffer_slot_terms(t):
    """Index/slot selections inside a buffer operand: get_mut(buffers, idx) calls and loc index projections."""
    out = []
    for x in subterms(t):
        if x[0] == 'call' and (x[2].endswith('::get_mut') or x[2].endswith('::get')) and len(x[3]) > 1:
            out.append(strip_conv(x[3][1]))
        if x[0] == 'loc':
            for pp in x[2]:
                if pp[0] == 'idx':
                    out.append(strip_conv(pp[1]))
    return out


def expand_ref(e, i):
    """Argument i of a call effect with by-reference locals replaced by their pointee value."""
    a = e[3][i]
    if len(e) > 5 and e[5] and i < len(e[5]) and e[5][i] is not None:
        return e[5][i]
    return a


def q1_poll(F, R, M, b, roles, byrole):
    sg = supergraph(F, b['id'], opaque=lambda t, bb: bb['id'] in roles, tag='c19')
    where = fn_site(F, b['id'])
    paths = PathEnum(sg).run()
    nd = 0
    silent = []
    for i, p in enumerate(paths):
        delivers = [k for k, e in enumerate(p.effects) if e[0] == 'call' and e[4].get('trait') in ('core::ops::FnOnce', 'core::ops::FnMut', 'core::ops::Fn')]
        pops = [k for k, e in enumerate(p.effects) if e[0] == 'call' and e[2] in byrole['pop_used']]
        peeks = [e for e in p.effects if e[0] == 'call' and e[2] in byrole.get('peek_used', [])]
        adds = [k for k, e in enumerate(p.effects) if e[0] == 'call' and e[2] in byrole['add']]
        if p.panicked:
            continue
        if not delivers:
            if pops:
                okpop = any(c[0][0] == 'discr' and c[0][1][0] == 'call' and c[0][1][1] == p.effects[pops[0]][1] and c[1] == ('in', (0,)) for c in p.conds)
                if okpop and not adds:
                    silent.append(err_variant(p.ret) in ('Ok', 'Some', 'None'))
                    R.note('Q1 advisory: %s has a path returning %s after a successful pop_used without re-posting the buffer (the device '
                           'claimed more bytes than the buffer holds); the device violated the specification on that path' % (b['id'], err_variant(p.ret)))
            continue
        nd += 1
        dk = delivers[0]
        later_adds = [k for k in adds if k > dk]
        inst = '%s:path-%s' % (b['id'], err_variant(p.ret) or ('handler-result' if p.ret and p.ret[0] == 'call' else 'other'))
        R.check(bool(later_adds), 'Q1', inst + ':repost-after-deliver', where, 'handler invocation is followed by a re-posting add',
                'a path on which the handler was invoked returns (%s) without adding the buffer back to the queue: every handler error '
                'permanently removes a buffer from the device' % (fmt(p.ret)[:80] if p.ret else None))
        if not later_adds or not peeks:
            continue
        tok = ('field', ('downcast', ('call', peeks[0][1], peeks[0][2], peeks[0][3]), 'Some'), '0')
        add_e = p.effects[later_adds[0]]
        pop_e = p.effects[pops[0]] if pops else None
        del_e = p.effects[dk]
        # Q2: same slot everywhere
        wr = expand_ref(add_e, 2)
        slots_add = buffer_slot_terms(wr) + [s for x in deep_terms_effects(p, wr) for s in buffer_slot_terms(x)]
        ok_add = any(derives_from(s, lambda x: x[0] == 'call' and x[1] == peeks[0][1]) for s in slots_add)
        ok_pop = pop_e is not None and derives_from(pop_e[3][1], lambda x: x[0] == 'call' and x[1] == peeks[0][1])
        ok_del = derives_from(del_e[3][1] if len(del_e[3]) > 1 else del_e[3][0], lambda x: x[0] == 'call' and x[1] == peeks[0][1])
        R.check(ok_add and ok_pop and ok_del, 'Q2', inst + ':token-slot', where, 'pop_used, handler and re-post all use the slot of the peeked token',
                'the popped token / delivered buffer / re-posted buffer do not all derive from the token returned by peek_used '
                '(add slot=%s pop token=%s delivered=%s)' % (ok_add, ok_pop, ok_del))
        # ret = handler result on the fully successful path
        if err_variant(p.ret) is None and p.ret is not None:
            R.check(p.ret[0] == 'call' and p.ret[1] == del_e[1], 'Q1', inst + ':returns-handler-result', where, 'returns what the handler returned', 'result is not the handler result')
    R.count('deliver_paths', nd)
    R.check(not any(silent), 'Q1', '%s:popped-buffer-not-dropped-silently' % b['id'], where,
            'every path that pops a buffer without delivering and re-posting it reports an error',
            'a path returns success/nothing-pending after a successful pop_used without re-posting the buffer: the buffer is silently '
            'removed from the device')
    # Q4 no unchecked indexing
    bad = [n for n in sg.calls(lambda d: d.get('fn', '').endswith('get_unchecked') or d.get('fn', '').endswith('get_unchecked_mut') or d.get('fn', '').endswith('from_raw_parts'))]
    R.check(not bad, 'Q4', '%s:checked-slices' % b['id'], where, 'only checked indexing / slicing on the delivery path', 'unchecked indexing on the delivery path')


def deep_terms_effects(p, t, depth=3, _seen=None):
    """Values of locals referenced by t (transitively, a few levels), from the path's final environment."""
    out = []
    _seen = set() if _seen is None else _seen
    for x in _deep_terms_once(p, t):
        k = id(x)
        if k in _seen:
            continue
        _seen.add(k)
        out.append(x)
        if depth > 1:
            out.extend(deep_terms_effects(p, x, depth - 1, _seen))
    return out


def _deep_terms_once(p, t):
    out = []
    for x in subterms(t):
        if x[0] == 'loc' and x[1][0] == 'local':
            k = (x[1][1], x[1][2])
            if k in p.env:
                out.append(p.env[k])
            loc = ('loc', x[1], ())
            if loc in p.mem:
                out.append(p.mem[loc])
            for mk, mv in p.mem.items():
                if mk[1] == x[1]:
                    out.append(mv)
    return out


def q1_pop_readd(F, R, M, b, roles, byrole):
    sg = supergraph(F, b['id'], opaque=lambda t, bb: bb['id'] in roles, tag='c19')
    where = fn_site(F, b['id'])
    try:
        paths = PathEnum(sg).run()
    except PathLimit as e:
        R.abstain('Q1', b['id'], str(e), where)
        return
    nc = 0
    for p in paths:
        if p.panicked:
            continue
        pops = [k for k, e in enumerate(p.effects) if e[0] == 'call' and e[2] in byrole['pop_used']]
        adds = [k for k, e in enumerate(p.effects) if e[0] == 'call' and e[2] in byrole['add']]
        peeks = [e for e in p.effects if e[0] == 'call' and e[2] in byrole.get('peek_used', [])]
        if not pops:
            continue
        pe = p.effects[pops[0]]
        # success of pop on this path?
        succ = False
        for disc, (kind, vals), _ in p.conds:
            if not derives_from(disc, lambda x: x[0] == 'call' and x[1] == pe[1]):
                continue
            if disc[0] == 'discr':
                inner = disc[1]
                if inner[0] == 'call' and inner[1] == pe[1]:
                    succ = (kind, vals) == ('in', (0,))
                else:
                    succ = (kind, vals) == ('in', (1,))     # Option from .ok(): Some
            elif disc[0] == 'call' and disc[2].startswith('core::result::Result::') and disc[2].rsplit('::', 1)[1] in ('is_err', 'is_ok'):
                truth = (kind == 'notin' and 0 in vals) or (kind == 'in' and 0 not in vals)
                succ = truth if disc[2].endswith('::is_ok') else not truth
        if not succ:
            continue
        nc += 1
        inst = '%s:consumed' % b['id']
        later = [k for k in adds if k > pops[0]]
        R.check(bool(later), 'Q1', inst + ':repost-after-pop', where, 'a consumed completion is followed by a re-posting add',
                'a path consumes a completion (pop_used succeeded) and returns without adding the buffer back')
        if later and peeks:
            add_e = p.effects[later[0]]
            wr_add = expand_ref(add_e, 2)
            wr_pop = expand_ref(pe, 3)
            s_add = buffer_slot_terms(wr_add) + [s for x in deep_terms_effects(p, wr_add) for s in buffer_slot_terms(x)]
            s_pop = buffer_slot_terms(wr_pop) + [s for x in deep_terms_effects(p, wr_pop) for s in buffer_slot_terms(x)]
            ok = any(derives_from(s, lambda x: x[0] == 'call' and x[1] == peeks[0][1]) for s in s_add) and \
                any(derives_from(s, lambda x: x[0] == 'call' and x[1] == peeks[0][1]) for s in s_pop) and \
                derives_from(pe[3][1], lambda x: x[0] == 'call' and x[1] == peeks[0][1])
            R.check(ok, 'Q2', inst + ':token-slot', where, 'pop_used and re-post use the slot of the peeked token',
                    'popped / re-posted buffers are not the slot selected by the token from peek_used')
    # the buffer re-posted is the buffer that was popped - the driver-owned slot itself, not a copy of its contents (a copy is a
    # stack temporary: the device would write the next event into dead memory and the slot would be unshared against it)
    from .C15 import elem_object
    S = sg.sym
    pop_b, add_b = set(), set()
    for n_ in sg.calls(lambda d: roles.get(d.get('fn')) in ('add', 'pop_used')):
        ai = 2 if roles[n_.d['fn']] == 'add' else 3
        els = array_elems(S, S.operand(n_.id, n_.d['args'][ai])) if ai < len(n_.d['args']) else None
        for e_ in els or []:
            try:
                base = elem_object(sg, S, e_)[2]
            except Exception:
                continue
            (add_b if roles[n_.d['fn']] == 'add' else pop_b).add(fmt(base))
    if pop_b and add_b:
        R.check(add_b <= pop_b, 'Q2', '%s:repost-same-buffer' % b['id'], where, 'the re-posted buffer is the popped slot itself',
                'the buffer handed back to the queue (%s) is not the slot that was popped (%s): a copy / another object is posted in its place' % (
                    sorted(add_b - pop_b)[0][:80] if add_b - pop_b else '', sorted(pop_b)[0][:80]))
    R.count('consume_paths', nc)


def q5_stocking(F, R, M, roles, byrole):
    n = 0
    for b in F.bodies.values():
        if not F.handwritten(b) or b['kind'] != 'AssocFn' or not has_loop(b):
            continue
        if not ('-> core::result::Result<' in b.get('sig', '') and ('Self' in b.get('sig', '') or (b.get('impl_adt') or '') in b.get('sig', ''))):
            continue
        if not any(bl['term']['k'] == 'call' and bl['term'].get('fn') in byrole['add'] for bl in b['blocks']):
            continue
        sg = supergraph(F, b['id'], tag='flat', max_depth=0)
        be = back_edges(sg)
        inloop = set()
        for (u, v) in be:
            body = {v}
            st = [u]
            while st:
                x = st.pop()
                if x in body:
                    continue
                body.add(x)
                st.extend(sg.nodes[x].pred)
            inloop |= body
        adds = [nn for nn in sg.calls(lambda d: d.get('fn') in byrole['add'])]
        for a in adds:
            if a.id not in inloop:
                continue
            n += 1
            # failure is propagated: an Err return is reachable from the add without passing the loop head again... (the `?`)
            S = sg.sym
            prop = False
            for m in sg.nodes:
                if m.kind == 'switch':
                    d = S.operand(m.id, m.d['discr'])
                    if derives_from(d, lambda x: x[0] == 'call' and x[1] == a.id) and d[0] == 'discr':
                        prop = True
            R.check(prop, 'Q5', '%s:stocking-loop' % b['id'], site(sg, a), 'every buffer is added in a loop and the result of add is examined',
                    'the stocking loop ignores the result of add')
    R.count('stocking_loops', n)


def q6_no_access_after_post(F, R, M, roles, rule='Q6', only=None):
    nsites = 0
    for b in F.bodies.values():
        if not F.handwritten(b) or b.get('impl_adt') == M.queue_adt or b['kind'] not in ('AssocFn', 'Fn'):
            continue
        if only and not only(b):
            continue
        sg = supergraph(F, b['id'], opaque=lambda t, bb: bb['id'] in roles, tag='q6')
        S = sg.sym
        pops = [n.id for n in sg.calls(lambda d: roles.get(d.get('fn')) in ('pop_used',))]
        for A in sg.calls(lambda d: roles.get(d.get('fn')) == 'add'):
            objs = []
            for ai in (1, 2):
                elems = array_elems(S, S.operand(A.id, A.d['args'][ai]))
                for e in elems or []:
                    try:
                        _, ty, base = elem_object(sg, S, e)
                    except Exception:
                        continue
                    if base and base[0] == 'ref' and derives_from(base, lambda x: x == ('param', 1)) and \
                            any(pp[0] == 'f' for x in subterms(base) if x[0] == 'loc' for pp in x[2]):
                        objs.append(base[1])
            if not objs:
                continue
            nsites += 1
            after = sg.reach_fwd(list(A.succ), avoid=pops)
            bad = None
            for n in sg.nodes:
                if n.id not in after or n.kind != 'assign' or n.id == A.id:
                    continue
                places = []
                rv = n.d['rv']
                if rv['rv'] == 'use':
                    pl = rv['op'].get('copy') or rv['op'].get('move')
                    if pl and pl['p']:
                        places.append(('read', pl))
                if n.d['place']['p']:
                    places.append(('write', n.d['place']))
                for kind, pl in places:
                    loc = S.place_loc(n.id, pl)
                    for o in objs:
                        if loc[1] == o[1] and tuple(loc[2][:len(o[2])]) == tuple(o[2]):
                            bad = '%s of %s at line %s after the buffer was posted at line %s' % (kind, fmt(loc)[:100], n.line, A.line)
            R.check(bad is None, rule, '%s:add@%s' % (b['id'], fmt(S.operand(A.id, A.d['args'][0]))[:50]), site(sg, A),
                    'no access to the driver-owned buffer between posting it and the next pop_used',
                    'a buffer owned by the device is accessed by the driver: %s' % bad)
    R.count('post_sites', nsites)


def _peel_option(t):
    """Option adaptors that keep the variant (copied, cloned, as_ref, as_mut, as_deref)."""
    while t[0] == 'call' and t[3] and t[2].rsplit('::', 1)[-1] in ('copied', 'cloned', 'as_ref', 'as_mut', 'as_deref', 'as_deref_mut') \
            and 'option::Option' in t[2]:
        t = t[3][0]
    return t


def _range_of(t):
    """(start, end) terms of a half-open range aggregate; None for the missing start of `..end`."""
    if t[0] != 'agg':
        return None
    if t[1].endswith('::Range') and len(t[2]) == 2:
        return (t[2][0], t[2][1])
    if t[1].endswith('::RangeTo') and len(t[2]) == 1:
        return (None, t[2][0])
    return None


def q4b_exposure_table(F, R, M, roles):
    n = 0
    for b in F.bodies.values():
        if b.get('impl_adt') != M.owning_adt or 'impl_trait' in b or not F.handwritten(b) or has_loop(b):
            continue
        if not any(bl['term']['k'] == 'call' and roles.get(bl['term'].get('fn')) == 'pop_used' for bl in b['blocks']):
            continue
        sg = supergraph(F, b['id'], opaque=lambda t, bb: bb['id'] in roles, tag='q4b')
        where = fn_site(F, b['id'])
        try:
            paths = PathEnum(sg).run()
        except PathLimit as e:
            R.abstain('Q4', b['id'] + ':table', str(e), where)
            continue
        n += 1
        B = 8
        bad = None
        rows = 0
        for L in (0, 1, B - 1, B, B + 1, 2 * B, 4096, 0xffffffff):
            def leaf(t, L=L):
                if t[0] == 'discr':
                    t = ('discr', _peel_option(t[1]))
                if t[0] == 'discr' and t[1][0] == 'call':
                    r = roles.get(t[1][2])
                    if r == 'peek_used':
                        return 1
                    if r == 'pop_used':
                        return 0
                    if t[1][2].endswith('::get_mut') or t[1][2].endswith('::get'):
                        rg = _range_of(t[1][3][1]) if len(t[1][3]) > 1 else None
                        if rg is None:
                            return 1
                        # a checked sub-slice of the slot: Some iff the range lies within the buffer
                        lo, hi = (0 if x is None else fo.ev(x) for x in rg)
                        return 1 if lo <= hi <= B else 0
                if t[0] == 'field' and t[1][0] == 'downcast' and t[1][1][0] == 'call' and roles.get(t[1][1][2]) == 'pop_used':
                    return L
                if t[0] == 'field' and t[1][0] == 'downcast' and t[1][1][0] == 'call' and roles.get(t[1][1][2]) == 'peek_used':
                    return 3
                raise Unfoldable(fmt(t)[:80])
            fo = Folder(leaf, generic={'BUFFER_SIZE': B})
            try:
                hit = [p for p in paths if path_holds(fo, p)]
            except Unfoldable as e:
                bad = 'unfoldable: %s' % e
                break
            rows += 1
            if len(hit) != 1:
                bad = 'used length %d: %d feasible paths' % (L, len(hit))
                break
            p = hit[0]
            ev = err_variant(p.ret)
            if L <= B:
                rng = [r for r in (_range_of(x) for x in subterms(p.ret)) if r] if p.ret else []
                try:
                    got = (0 if rng[0][0] is None else fo.ev(rng[0][0]), fo.ev(rng[0][1])) if rng else None
                except Unfoldable as e:
                    bad = 'unfoldable: %s' % e
                    break
                if p.panicked or ev != 'Ok' or got != (0, L):
                    bad = 'the device wrote %d bytes into a %d-byte buffer: %s, expected the slice [0, %d)' % (
                        L, B, 'panics' if p.panicked else ('returns %s' % ev if ev != 'Ok' else 'delivers bytes %s' % (got,)), L)
                    break
            else:
                if p.panicked or ev in ('Ok', None):
                    bad = 'the device claims %d bytes for a %d-byte buffer: %s, expected an error' % (L, B, 'panics' if p.panicked else 'delivered')
                    break
        R.tables += rows
        if bad and bad.startswith('unfoldable'):
            R.abstain('Q4', b['id'] + ':table', bad, where)
            continue
        R.check(bad is None, 'Q4', '%s:exposure-table' % b['id'], where, 'slice [0, L) iff L <= buffer size, else error (%d rows)' % rows, 'delivered bytes: %s' % bad)
    R.count('exposure_tables', n)
