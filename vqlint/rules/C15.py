"""C15 - console bytes are delivered exactly once and in order in both directions.

Decided (structural necessary conditions; the cursor arithmetic over histories is NOT decided):
 S1 one outstanding receive, re-posted only when drained: the function that posts the receive buffer is folded over
    (token outstanding?, read cursor, received length): the add happens iff no token is outstanding AND cursor ==
    received length; the token field is written only from that add's result and cleared only on the success path of
    the matching pop_used, which also resets the cursor to 0 and sets the received length from the used length.
 S2 posted buffer = buffer read from: the writable operand of the add, of the pop_used and every byte returned to
    the caller come from the same owned buffer field.
 S3 send shape: each send passes exactly the caller's bytes (slice parameter, or a one-byte array built from the
    parameter) as the only device-readable element, nothing writable, on the other queue.
 S5 trait-level writers (embedded_io::Write::write, fmt::Write::write_str): on every success path the slice handed to
    the sender is the caller's whole slice, and a returned byte count is the length of exactly the slice that was
    sent (a writer that sends a prefix but reports the full length drops the rest of the caller's bytes).
 S6 no read of the receive buffer while it is posted: in every console function, after the receive buffer has been
    handed to `add` no statement reachable without an intervening pop_used reads or writes it (C19.Q6) - a byte must be
    copied out before the buffer is re-posted, or the device may already have overwritten it.
 S7 reader arithmetic (one call): every function that hands received bytes to the caller (recv, embedded_io read /
    fill_buf / consume) is path-enumerated with the queue helpers opaque and folded over (cursor c, received length p,
    caller buffer length L, pop flag): it exposes exactly bytes [c, c+n) of the receive buffer with
    n = min(L, p-c) (recv: byte c iff c < p; fill_buf: [c, p)), in order, and advances the cursor by exactly the number
    of bytes handed out (consume: by the amount, never past p).
 S4 notification protocol on both queues is C05.N3.
 S9 wrap-safe counters and completion test (= C03.E5 / E9).  S10 chunk length and id come from the used-ring slot of the
     trusted index; a refused poll consumes nothing (= C03.E1 / E2).
Not decided: equality of delivered and produced byte streams (cursor arithmetic across interleavings of recv / read /
fill_buf / consume) - value reasoning over histories.
"""
from .common import *
from ..paths import *
from . import C05

EXPLANATION = ("The console's posting, finishing and sending helpers are loop-free with the queue API as events; their enumerated paths "
               "are folded over the small state (token present, cursor, pending length) and checked for guards, field writers and "
               "operand provenance.")
CONFIGS = ['def', 'alloc', 'def-rel']    # these drivers need the `alloc` feature
FLOORS = {'consumer_fns': {'*': 2, 'alloc': 1}, 'reader_fns': {'*': 4, 'alloc': 1}, 'trait_writers': {'*': 2, 'alloc': 1}, 'poster_fns': 1, 'finisher_fns': 1, 'send_fns': 1}
DRV = 'device::console::VirtIOConsole'


def run(F, R):
    M = model(F)
    M.require_rings()
    roles = C05.classify_api(C05.queue_api(F, M))
    if DRV not in F.adts:
        raise Undecided('console driver type not found')
    fields = {f['name']: f['ty'] for f in F.adts[DRV]['variants'][0]['fields']}
    tokf = [n for n, t in fields.items() if t.startswith('core::option::Option<u16>')]
    usz = [n for n, t in fields.items() if t == 'usize']
    if len(tokf) != 1 or len(usz) != 2:
        raise Undecided('cannot identify token / cursor / pending-length fields of the console: %s' % fields)
    tokf = tokf[0]
    posters, finishers, senders = [], [], []
    for b in F.bodies.values():
        if b.get('impl_adt') != DRV or 'impl_trait' in b or not F.handwritten(b) or b['kind'] != 'AssocFn':
            continue
        sg0 = supergraph(F, b['id'], tag='flat', max_depth=0)
        fns = [roles.get(n.d.get('fn')) for n in sg0.calls()]
        if 'add' in fns:
            posters.append(b)
        if 'pop_used' in fns:
            finishers.append(b)
        if 'add_notify_wait_pop' in fns:
            senders.append(b)
    # a finisher that receives the token as a parameter is a helper: the function that supplies the token is analysed
    # instead, with the helper inlined
    direct_finishers = list(finishers)
    for _ in range(2):
        nxt = []
        for b in finishers:
            sg0 = supergraph(F, b['id'], tag='flat', max_depth=0)
            by_param = False
            for n in sg0.calls(lambda d: roles.get(d.get('fn')) == 'pop_used'):
                tk = strip_conv(sg0.sym.operand(n.id, n.d['args'][1]))
                if tk[0] == 'param' and tk[1] >= 2:
                    by_param = True
            callers = [c for c in F.bodies.values() if c.get('impl_adt') == DRV and 'impl_trait' not in c and F.handwritten(c) and c['kind'] == 'AssocFn'
                       and any(bl['term']['k'] == 'call' and bl['term'].get('fn') == b['id'] for bl in c['blocks'])]
            if by_param and callers and not b.get('pub'):
                nxt.extend(c for c in callers if c not in nxt)
            elif b not in nxt:
                nxt.append(b)
        finishers = nxt
    R.count('poster_fns', len(posters))
    R.count('finisher_fns', len(finishers))
    R.count('send_fns', len(senders))
    bufs = set()
    rxq = None
    for b in posters:
        rxq, bf = s1_poster(F, R, M, b, roles, tokf, usz)
        bufs |= bf
    for b in finishers:
        bufs |= s1_finisher(F, R, M, b, roles, tokf, usz)
    R.check(len(bufs) == 1, 'S2', 'one-receive-buffer', DRV, 'receive buffer field: %s' % sorted(bufs),
            'the buffer posted to the device and the buffer popped are different fields: %s' % sorted(bufs))
    # bytes returned to the caller come from that buffer: every load indexed by the cursor field in public readers
    if len(bufs) == 1:
        bf = list(bufs)[0]
        for b in F.bodies.values():
            if not F.handwritten(b) or not (b.get('impl_adt') == DRV or DRV in (b.get('impl_self') or '')):
                continue
            sg0 = supergraph(F, b['id'], tag='flat', max_depth=0)
            S = sg0.sym
            for n in sg0.nodes:
                if n.kind == 'assign' and n.d['rv']['rv'] == 'use':
                    op = n.d['rv']['op']
                    pl = op.get('copy') or op.get('move')
                    if pl and pl['p'] and n.d['pty'] == 'u8':
                        loc = S.place_loc(n.id, pl)
                        idx = [pp for pp in loc[2] if pp[0] == 'idx']
                        if idx and derives_from(idx[0][1], lambda x: x[0] == 'load' and x[1][2] and x[1][2][-1][0] == 'f' and x[1][2][-1][1] in usz):
                            ok = derives_from(('x', loc), lambda x: x[0] == 'loc' and any(pp[0] == 'f' and pp[1] == bf for pp in x[2])) or \
                                derives_from(loc[1], lambda x: x[0] == 'loc' and any(pp[0] == 'f' and pp[1] == bf for pp in x[2]))
                            R.check(ok, 'S2', '%s:byte-source' % b['id'], site(sg0, n), 'byte read at the cursor comes from `%s`' % bf,
                                    'a byte indexed by the read cursor is taken from something other than the receive buffer: %s' % fmt(loc)[:120])
    for b in senders:
        s3_send(F, R, M, b, roles, rxq)
        s3b_send_always_submits(F, R, M, b, roles)
    s5_trait_writers(F, R, set(x['id'] for x in senders))
    s11_no_silent_consumption(F, R, usz)
    s12_rewind_only_with_new_chunk(F, R, M, roles, usz)
    s7_reader_arithmetic(F, R, usz, list(bufs)[0] if len(bufs) == 1 else None, set(x['id'] for x in posters + finishers + direct_finishers))
    from .C19 import q6_no_access_after_post
    q6_no_access_after_post(F, R, M, roles, rule='S6', only=lambda bb: bb.get('impl_adt') == DRV or DRV in (bb.get('impl_self') or ''))
    # S8: both console queues run in the negotiated modes (C08.H3)
    from .C08 import queue_modes_rule
    queue_modes_rule(F, R, M, 'S8', [DRV])
    # S9: chunks keep being delivered after the 16-bit ring indices of a console queue wrap (65536 receives or sends):
    # wrap-safe counters and the folded completion test (C03.E5 / E9)
    from .C03 import wrap_rule
    wrap_rule(F, R, 'S9')
    # S10: the length of a received chunk is the one the device recorded for that completion: id and length are read from the used
    # ring slot of the trusted index, and a refused poll consumes nothing (C03.E1 / E2)
    from .C03 import pop_rule
    pop_rule(F, R, 'S10')


def norm_slice(t):
    """Strip conversions, byte views and reborrows: `&*(as_bytes(&*s))` -> s."""
    while True:
        t = strip_conv(t)
        if t[0] == 'idcall':
            t = t[2]
        elif t[0] == 'call' and (t[2].endswith('::as_bytes') or t[2].endswith('::as_ref')) and len(t[3]) == 1:
            t = t[3][0]
        elif t[0] == 'ref' and t[1][1][0] == 'deref' and not t[1][2]:
            t = t[1][1][1]
        elif t[0] == 'refto':
            t = t[1]
        else:
            return t


def s5_trait_writers(F, R, sender_ids):
    n = 0
    for b in F.bodies.values():
        if not F.handwritten(b) or DRV not in (b.get('impl_self') or '') or 'Write' not in (b.get('impl_trait') or ''):
            continue
        sg = supergraph(F, b['id'], opaque=lambda t, bb: bb['id'] in sender_ids, tag='c15w')
        if not any(True for _ in sg.calls(lambda d: d.get('fn') in sender_ids)):
            continue
        n += 1
        where = fn_site(F, b['id'])
        try:
            paths = [p for p in PathEnum(sg).run() if not p.panicked]
        except PathLimit as e:
            R.abstain('S5', b['id'], str(e), where)
            continue
        bad = None
        nsend = 0
        for p in paths:
            if err_variant(p.ret) not in ('Ok', None):
                continue
            sends = [e for e in p.effects if e[0] == 'call' and e[2] in sender_ids]
            okv = p.ret[2][0] if (p.ret and p.ret[0] == 'agg' and p.ret[1].endswith('::Ok') and p.ret[2]) else None
            counted = okv is not None and okv[0] != 'agg'
            for e in sends:
                nsend += 1
                a = e[3][1]
                na = norm_slice(a)
                prefix = na[0] == 'ref' and na[1][1][0] == 'deref' and norm_slice(na[1][1][1]) == ('param', 2) and len(na[1][2]) == 1 \
                    and na[1][2][0][0] == 'idx' and 'RangeTo' in fmt(na[1][2][0][1]) and 'RangeToInclusive' not in fmt(na[1][2][0][1])
                if na != ('param', 2) and not (counted and prefix):
                    bad = 'the sender receives %s, not the caller\'s whole slice%s' % (fmt(a)[:100], ' or a counted prefix of it' if counted else '')
            if okv is not None and okv[0] != 'agg' and sends:
                # Ok(n): n must be len(<the slice sent>)
                v = strip_conv(okv)
                a = norm_slice(sends[-1][3][1])
                good = v[0] == 'call' and v[2].endswith('::len') and norm_slice(v[3][0]) == a
                if not good:
                    bad = 'reports %s bytes written but sent %s' % (fmt(okv)[:60], fmt(sends[-1][3][1])[:80])
            if okv is not None and okv[0] != 'agg' and not sends:
                v = strip_conv(okv)
                if not (v[0] == 'const' and v[1] == 0):
                    bad = 'reports %s bytes written on a path that sends nothing' % fmt(okv)[:60]
        R.check(bad is None and nsend > 0, 'S5', '%s:written-count' % b['id'], where, 'whole caller slice sent; reported count = length sent',
                'trait writer: %s' % (bad or 'no sending path'))
    R.count('trait_writers', n)


def field_of(t):
    """Last struct field name a location/pointer term goes through."""
    for x in subterms(t):
        if x[0] == 'loc':
            fs = [pp[1] for pp in x[2] if pp[0] == 'f' and len(pp) > 2 and pp[2] == DRV]
            if fs:
                return fs[0]
    return None


def s1_poster(F, R, M, b, roles, tokf, usz):
    sg = supergraph(F, b['id'], opaque=lambda t, bb: bb['id'] in roles, tag='c15')
    where = fn_site(F, b['id'])
    paths = PathEnum(sg).run()
    bad = None
    rows = 0
    rxq = None
    bufs = set()
    for has_tok in (0, 1):
        for cur in (0, 1, 5):
            for pend in (0, 1, 5):
                def leaf(t):
                    if t[0] == 'call' and t[2].endswith('::is_none'):
                        return 1 - has_tok
                    if t[0] == 'call' and t[2].endswith('::is_some'):
                        return has_tok
                    if t[0] == 'discr' and t[1][0] == 'load0' and t[1][1][2] and t[1][1][2][-1][1] == tokf:
                        return has_tok
                    if t[0] == 'load0' and t[1][2] and t[1][2][-1][0] == 'f' and t[1][2][-1][1] in usz:
                        return cur if t[1][2][-1][1] == cursor_field(F, usz) else pend
                    raise Unfoldable(fmt(t)[:60])
                fo = Folder(leaf)
                posted = None
                for p in paths:
                    feasible = True
                    for disc, (kind, vals), _ in p.conds:
                        try:
                            v = fo.ev(disc)
                        except Unfoldable:
                            continue
                        if (kind == 'in' and v not in vals) or (kind != 'in' and v in vals):
                            feasible = False
                            break
                    if feasible and not p.panicked:
                        adds = [e for e in p.effects if e[0] == 'call' and roles.get(e[2]) == 'add']
                        posted = bool(adds) or bool(posted)
                        for e in adds:
                            rxq = field_of(e[3][0])
                            w = e[5][2] if len(e) > 5 and e[5][2] is not None else e[3][2]
                            f = None
                            for x in subterms(w):
                                f = f or field_of(x) if x[0] in ('ref', 'loc', 'load0', 'load') else f
                            if f is None:
                                for k, v in list(p.env.items()) + list(p.mem.items()):
                                    if isinstance(v, tuple) and v[0] == 'agg' and v[1] == 'array':
                                        ff = field_of(v)
                                        if ff and ff != rxq:
                                            f = ff
                            if f:
                                bufs.add(f)
                rows += 1
                want = (not has_tok) and cur == pend
                if posted != want:
                    bad = 'token outstanding=%d cursor=%d received=%d: %s, must %s' % (has_tok, cur, pend, 'posts the buffer' if posted else 'does not post', 'post' if want else 'not post')
    R.tables += rows
    R.check(bad is None, 'S1', '%s:post-guard' % b['id'], where, 'receive buffer posted iff no token outstanding and all received bytes consumed (%d rows)' % rows,
            'receive buffer posting guard: %s (posting while unread bytes remain lets the device overwrite them)' % bad)
    # token set from the add result
    S = sg.sym
    for p in paths:
        for e in p.effects:
            if e[0] == 'store' and e[2][2] and e[2][2][-1][0] == 'f' and e[2][2][-1][1] == tokf:
                adds = [x[1] for x in p.effects if x[0] == 'call' and roles.get(x[2]) == 'add']
                ok = derives_from(e[3], lambda x: x[0] == 'call' and x[1] in adds)
                R.check(ok, 'S1', '%s:token-from-add' % b['id'], where, 'outstanding token is the result of the add', 'token field set to %s' % fmt(e[3])[:80])
    return rxq, bufs


def cursor_field(F, usz):
    """The cursor is the usize field that is incremented somewhere (cursor += n); the other is the received length."""
    inc = {}
    for b in F.bodies.values():
        if not F.handwritten(b) or not (b.get('impl_adt') == DRV or DRV in (b.get('impl_self') or '')):
            continue
        for bl in b['blocks']:
            for st in bl['stmts']:
                if st['k'] == 'assign' and st['place']['p'] and isinstance(st['place']['p'][-1], dict) and st['place']['p'][-1].get('n') in usz:
                    rv = st['rv']
                    if rv['rv'] == 'use' and 'move' in rv['op'] and rv['op']['move']['p']:
                        inc[st['place']['p'][-1]['n']] = inc.get(st['place']['p'][-1]['n'], 0) + 1
    if inc:
        return max(inc, key=inc.get)
    return usz[0]


def s1_finisher(F, R, M, b, roles, tokf, usz):
    sg = supergraph(F, b['id'], opaque=lambda t, bb: bb['id'] in roles, tag='c15')
    where = fn_site(F, b['id'])
    paths = [p for p in PathEnum(sg).run() if not p.panicked]
    cur = cursor_field(F, usz)
    pend = [u for u in usz if u != cur][0]
    bufs = set()
    for i, p in enumerate(paths):
        pops = [e for e in p.effects if e[0] == 'call' and roles.get(e[2]) == 'pop_used']
        tok_stores = [e for e in p.effects if (e[0] == 'store' and e[2][2] and e[2][2][-1][0] == 'f' and e[2][2][-1][1] == tokf)
                      or (e[0] == 'call' and e[2].endswith('::take') and field_of(e[3][0]) == tokf)]
        ok_pop = False
        for e in pops:
            ok_pop = any(c[0][0] == 'discr' and derives_from(c[0], lambda x: x[0] == 'call' and x[1] == e[1]) and c[1] == ('in', (0,)) for c in p.conds)
            w = e[5][3] if len(e) > 5 and len(e[5]) > 3 and e[5][3] is not None else e[3][3]
            for k, v in list(p.mem.items()) + list(p.env.items()):
                if isinstance(v, tuple) and v[0] == 'agg' and v[1] == 'array':
                    ff = field_of(v)
                    if ff:
                        bufs.add(ff)
            # token passed is the stored token
            tk = e[3][1]
            R.check(derives_from(tk, lambda x: x[0] in ('load0', 'load') and x[1][2] and any(pp[0] == 'f' and pp[1] == tokf for pp in x[1][2])), 'S1',
                    '%s:pop-with-stored-token' % b['id'], where, 'pop_used is called with the outstanding token', 'pop_used token is %s' % fmt(tk)[:80])
        if ok_pop:
            st = {e[2][2][-1][1]: e[3] for e in p.effects if e[0] == 'store' and e[2][2] and e[2][2][-1][0] == 'f'}
            cleared = bool(tok_stores)
            cur_ok = cur in st and const_int(st[cur]) == 0
            pend_ok = pend in st and derives_from(st[pend], lambda x: x[0] == 'call' and x[1] == pops[0][1])
            R.check(cleared and cur_ok and pend_ok, 'S1', '%s:finish-success' % b['id'], where,
                    'successful pop clears the token, resets the cursor and records the received length',
                    'after a successful pop_used: token cleared=%s cursor reset to 0=%s received length from used length=%s' % (cleared, cur_ok, pend_ok))
        else:
            R.check(not tok_stores, 'S1', '%s:token-kept-without-pop:%d' % (b['id'], i), where, 'token untouched when nothing was popped',
                    'the outstanding-token field is cleared on a path where pop_used did not succeed')
    return bufs


def s3_send(F, R, M, b, roles, rxq):
    sg = supergraph(F, b['id'], opaque=lambda t, bb: bb['id'] in roles, tag='c15')
    S = sg.sym
    for n in sg.calls(lambda d: roles.get(d.get('fn')) == 'add_notify_wait_pop'):
        ins = array_elems(S, S.operand(n.id, n.d['args'][1]))
        outs = array_elems(S, S.operand(n.id, n.d['args'][2]))
        q = field_of(S.operand(n.id, n.d['args'][0]))
        ok = ins is not None and len(ins) == 1 and (outs == [] or outs is not None and len(outs) == 0)
        src_ok = False
        if ok:
            e = ins[0]
            bo, ty, base = elem_object(sg, S, e)
            if base[0] == 'param' or (base[0] == 'ref' and base[1][1][0] == 'deref' and strip_ptr(base[1][1][1])[0] == 'param' and not base[1][2]):
                src_ok = True
            else:
                v = local_value_of_ref(S, base)
                src_ok = v is not None and v[0] == 'agg' and v[1] == 'array' and len(v[2]) == 1 and strip_conv(v[2][0])[0] == 'param'
        R.check(ok and src_ok and q != rxq, 'S3', '%s:send-shape' % b['id'], site(sg, n), 'one device-readable element = the caller\'s bytes, nothing writable, on the transmit queue',
                'send must place exactly the caller\'s bytes on the transmit queue: readable=%s writable=%s queue=%s caller-bytes=%s' % (
                    len(ins) if ins is not None else None, len(outs) if outs is not None else None, q, src_ok))


def s11_no_silent_consumption(F, R, usz):
    """A byte taken out of the receive buffer is a byte handed to the caller: the functions that advance the read cursor (cursor =
    cursor + n) are called only from functions that themselves return bytes (a byte, a slice, a count of bytes copied out) - or
    with their "pop" flag constant false.  A readiness / interrupt query that pops a byte and reports only a bool loses it."""
    consumers = {}
    for b in F.bodies.values():
        if b.get('impl_adt') != DRV or not F.handwritten(b) or b['kind'] != 'AssocFn':
            continue
        sg0 = supergraph(F, b['id'], tag='flat', max_depth=0)
        for nd in sg0.nodes:
            if nd.kind != 'assign' or not nd.d['place']['p'] or not isinstance(nd.d['place']['p'][-1], dict) or nd.d['place']['p'][-1].get('n') not in usz:
                continue
            v = sg0.sym.rvalue(nd.id, nd.d['rv'])
            v = v[1] if v[0] == 'field' else v
            f_ = nd.d['place']['p'][-1]['n']
            if v[0] == 'bin' and v[1] in ('Add', 'AddWithOverflow') and any(x[0] in ('load', 'load0') and x[1][2] and x[1][2][-1][0] == 'f' and x[1][2][-1][1] == f_ for x in subterms(v)):
                consumers[b['id']] = b
    n = 0
    for b in sorted(F.bodies.values(), key=lambda x: x['id']):
        if 'device::console' not in b['id'] or not F.handwritten(b) or b['kind'] != 'AssocFn' or b['id'] in consumers:
            continue
        sg0 = supergraph(F, b['id'], tag='flat', max_depth=0)
        S0 = sg0.sym
        calls = [c for c in sg0.calls(lambda d: d.get('fn') in consumers)]
        if not calls:
            continue
        n += 1
        rty = b.get('sig', '').split('->')[-1]
        carries = 'u8' in rty or 'usize' in rty
        bad = None
        for c in calls:
            flags = [fold_const(S0.operand(c.id, a)) for a, ty in zip(c.d['args'], c.d.get('arg_tys', [])) if ty == 'bool']
            if flags and all(f_ == 0 for f_ in flags):
                continue      # peek
            if not carries:
                bad = '%s calls %s (which advances the read cursor) but returns %s: the byte it takes out of the buffer is never delivered' % (
                    b['name'], consumers[c.d['fn']]['name'], rty.strip()[:50])
        R.check(bad is None, 'S11', '%s:no-silent-consumption' % b['id'], fn_site(F, b['id']), 'cursor-advancing readers are called only where the bytes are returned',
                bad or '')
    R.count('consumer_fns', len(consumers))


def s12_rewind_only_with_new_chunk(F, R, M, roles, usz):
    """The read cursor goes back to the start of the buffer only when a new chunk has just been taken off the receive queue: every
    store of the constant 0 to a cursor / length field of the console (outside its constructor) is preceded, on every path, by a
    pop_used in the same function.  A rewind anywhere else returns bytes that were already delivered a second time."""
    n = 0
    for b in sorted(F.bodies.values(), key=lambda x: x['id']):
        if b.get('impl_adt') != DRV or not F.handwritten(b) or b['kind'] != 'AssocFn':
            continue
        sg = supergraph(F, b['id'], opaque=lambda t, bb: bb['id'] in roles or (bb.get('impl_adt') == DRV and bb['id'] != b['id']), tag='c15r')
        S = sg.sym
        pops = [c.id for c in sg.calls(lambda d: roles.get(d.get('fn')) == 'pop_used')]
        for nd in sg.nodes:
            if nd.kind != 'assign' or not nd.d['place']['p'] or not isinstance(nd.d['place']['p'][-1], dict) or nd.d['place']['p'][-1].get('n') not in usz:
                continue
            if fold_const(S.rvalue(nd.id, nd.d['rv'])) != 0:
                continue
            n += 1
            ok = bool(pops) and sg.always_before(pops, nd.id)
            R.check(ok, 'S12', '%s:%s:rewind-only-with-new-chunk' % (b['id'], nd.d['place']['p'][-1]['n']), site(sg, nd), 'the rewind follows a pop_used on every path',
                    '%s resets `%s` to 0 on a path on which no new chunk was taken off the receive queue: bytes of the current chunk that were already '
                    'returned are delivered again' % (b['name'], nd.d['place']['p'][-1]['n']))
    R.count('rewind_sites', n)


def s3b_send_always_submits(F, R, M, b, roles):
    """Every send goes through the transmit queue: a sender has no path that returns anything but an explicit error without having
    submitted (e.g. a short cut through the emergency-write register when that feature happens to be negotiated)."""
    sg = supergraph(F, b['id'], opaque=lambda t, bb: bb['id'] in roles or (bb.get('impl_adt') == DRV and bb.get('pub') and bb['id'] != b['id']), tag='c15s')
    where = fn_site(F, b['id'])
    try:
        paths = [p for p in PathEnum(sg).run() if not p.panicked]
    except PathLimit as e:
        R.abstain('S3', '%s:always-submits' % b['id'], str(e), where)
        return
    bad = None
    for p in paths:
        sub = any(e[0] == 'call' and roles.get(e[2]) in ('add_notify_wait_pop', 'add') for e in p.effects)
        if not sub and err_variant(p.ret) in (None, 'Ok'):
            empty_ok = False
            # an empty send that returns Ok(()) without touching the device is "exactly the caller's bytes" too
            if err_variant(p.ret) == 'Ok' and any(c[0][0] == 'call' and c[0][2].endswith('::is_empty') or (c[0][0] == 'bin' and any(x[0] == 'call' and x[2].endswith('::len') for x in subterms(c[0]))) for c in p.conds):
                empty_ok = True
            if not empty_ok:
                bad = 'a path returns %s without placing the bytes on the transmit queue' % (fmt(p.ret)[:60] if p.ret is not None else 'normally')
    R.check(bad is None and bool(paths), 'S3', '%s:always-submits' % b['id'], where, 'every non-error return follows a submission to the transmit queue',
            '%s: %s' % (b['name'], bad))


def s7_reader_arithmetic(F, R, usz, bf, helper_ids):
    if bf is None:
        raise Undecided('receive buffer field of the console not identified')

    def on_buf(t):
        return any(x[0] == 'loc' and any(pp[0] == 'f' and pp[1] == bf for pp in x[2]) for x in subterms(t))
    cf = cursor_field(F, usz)
    if cf is None:
        raise Undecided('cursor field of the console not identified')
    pf = [u for u in usz if u != cf][0]
    # queue-facing helpers (they post / finish the receive buffer, or wait in a loop) are opaque events here
    def is_helper(bb):
        return bb['id'] in helper_ids or has_loop(bb)
    nread = 0
    for b in F.bodies.values():
        if not F.handwritten(b) or not (b.get('impl_adt') == DRV or DRV in (b.get('impl_self') or '')) or b['kind'] != 'AssocFn':
            continue
        if is_helper(b):
            continue
        sg = supergraph(F, b['id'], opaque=lambda t, bb: is_helper(bb), tag='s7')
        where = fn_site(F, b['id'])
        try:
            paths = PathEnum(sg).run()
        except PathLimit:
            continue
        # readers: functions whose paths index the receive buffer with the cursor or store the cursor
        touches = False
        for p in paths:
            for e in p.effects:
                if e[0] == 'store' and e[2][2] and e[2][2][-1][0] == 'f' and e[2][2][-1][1] == cf:
                    touches = True
            if p.ret is not None and cf in fmt(p.ret) and on_buf(p.ret):
                touches = True
        if not touches or b['name'] in ('new',):
            continue
        nread += 1
        fn = sg.entry_fn
        ptys = [l['ty'] for l in fn['locals'][1:fn['arg_count'] + 1]]
        bad = None
        rows = 0
        for c in (0, 1, 3):
            for pl in (c, c + 1, c + 2, c + 5):
                for L in (0, 1, 2, 4, 9):
                    for flag in (0, 1):
                        def leaf(t, c=c, pl=pl, L=L, flag=flag):
                            if t[0] in ('load0', 'load') and t[1][2] and t[1][2][-1][0] == 'f':
                                if t[1][2][-1][1] == cf:
                                    return c
                                if t[1][2][-1][1] == pf:
                                    return pl
                            if t[0] == 'call' and t[2].endswith('::len'):
                                return L
                            if t[0] == 'call' and t[2].endswith('::is_empty'):
                                return int(L == 0)
                            if t[0] == 'discr' and t[1][0] == 'call' and t[1][2] in F.bodies and is_helper(F.bodies[t[1][2]]):
                                return 0
                            if t[0] == 'param':
                                ty = ptys[t[1] - 1] if t[1] - 1 < len(ptys) else ''
                                return flag if ty == 'bool' else L
                            raise Unfoldable(fmt(t)[:80])
                        fo = Folder(leaf)
                        try:
                            hit = [p for p in paths if path_holds(fo, p)]
                        except Unfoldable as e:
                            bad = 'unfoldable: %s' % e
                            break
                        rows += 1
                        if len(hit) != 1:
                            bad = 'c=%d p=%d L=%d: %d feasible paths' % (c, pl, L, len(hit))
                            break
                        p = hit[0]
                        desc = 'cursor=%d received=%d caller-length/amount=%d flag=%d' % (c, pl, L, flag)
                        cur_st = [e for e in p.effects if e[0] == 'store' and e[2][2] and e[2][2][-1][0] == 'f' and e[2][2][-1][1] == cf]
                        try:
                            newc = fo.ev(cur_st[-1][3]) if cur_st else c
                            # ranges of the receive buffer exposed on this path
                            exposed = []
                            for e in p.effects:
                                if e[0] == 'call' and (e[2].endswith('Index::index') or e[2].endswith('IndexMut::index_mut')) and on_buf(e[3][0]):
                                    r = e[3][1]
                                    if r[0] == 'agg' and 'Range' in r[1]:
                                        vals = [fo.ev(x) for x in r[2]]
                                        if r[1].endswith('::Range'):
                                            exposed.append((vals[0], vals[1]))
                                        elif r[1].endswith('::RangeTo'):
                                            exposed.append((0, vals[0]))
                                        elif r[1].endswith('::RangeFrom'):
                                            exposed.append((vals[0], None))
                            byte_at = None
                            if p.ret is not None:
                                for x in subterms(p.ret):
                                    if x[0] in ('load0', 'load') and on_buf(x) and x[1][2] and x[1][2][-1][0] == 'idx':
                                        byte_at = fo.ev(x[1][2][-1][1])
                        except Unfoldable as e:
                            bad = 'unfoldable: %s' % e
                            break
                        if p.panicked:
                            # only arithmetic panics on reachable states (c <= p) are defects; consume may assert amt <= p - c
                            if b['name'] == 'consume' and c + L > pl:
                                continue
                            bad = '%s: panics (%s)' % (desc, p.end[2] if p.end and len(p.end) > 2 else p.end)
                            break
                        if exposed:
                            n = min(L, pl - c) if b['name'] != 'fill_buf' else pl - c
                            want = (c, c + n)
                            if any(x != want for x in exposed):
                                bad = '%s: hands out receive-buffer bytes %s, expected [%d, %d)' % (desc, exposed, want[0], want[1])
                                break
                            if b['name'] != 'fill_buf' and newc != c + n:
                                bad = '%s: %d bytes handed out but the cursor moves from %d to %d' % (desc, n, c, newc)
                                break
                            if b['name'] == 'fill_buf' and newc != c:
                                bad = '%s: fill_buf moves the cursor' % desc
                                break
                        elif byte_at is not None:
                            if byte_at != c or not (c < pl):
                                bad = '%s: returns the byte at %s, expected the byte at the cursor (only when cursor < received)' % (desc, byte_at)
                                break
                            if newc != c + (1 if (flag and cur_st) else 0) or (flag and not cur_st):
                                bad = '%s: one byte returned (pop=%d) but the cursor moves from %d to %d' % (desc, flag, c, newc)
                                break
                        elif cur_st and err_variant(p.ret) in ('Ok', None):
                            # cursor advanced without exposing bytes: consume(amt)
                            if newc != c + L or newc > pl:
                                bad = '%s: cursor moves from %d to %d' % (desc, c, newc)
                                break
                    if bad:
                        break
                if bad:
                    break
            if bad:
                break
        R.tables += rows
        if bad and bad.startswith('unfoldable'):
            R.abstain('S7', b['id'], bad, where)
            continue
        R.check(bad is None, 'S7', '%s:reader-arithmetic' % b['id'], where, 'exposes exactly the unread bytes it reports and advances the cursor by that amount (%d rows)' % rows,
                'console reader arithmetic: %s' % bad)
    R.count('reader_fns', nread)
