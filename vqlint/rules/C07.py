"""C07 - a misbehaving device cannot corrupt driver state or cause invalid access.

Decided:
 T1 never read what the device could have scribbled on: zero loads from the device-visible descriptor table and
    from the available ring anywhere in non-test code (the driver trusts only its shadow copies).  A positive control
    (the used ring *is* loaded) must match on every run.
 T2 taint: values loaded from the used ring / read from the device flow into unsafe pointer sinks
    (ptr::add/offset, from_raw_parts, get_unchecked, Box::from_raw, Hal::unshare address, dma_dealloc) only through
    trusted private state or checked indexing.
 T3 release-once idioms: every Box::from_raw (Unleak) is fed from private state consumed on the same path
    (Option::take / the owning queue's Drop over its fixed buffer array); Leak/Unleak sites pair by type.
 T4 results do not depend on driver-owned areas - corollary of T1.
 T5 completion tokens chosen by the device select the buffer: at every pop_used call outside the queue, if the token
    operand derives from peek_used (an id the device wrote), every buffer handed to pop_used is selected through that
    same token (table[token]); a fixed buffer may only be released under the token the driver stored when it added it.
Not decided: absence of panics (the property allows clean panics); arbitrary callers of the unsafe queue API.
"""
from .common import *

EXPLANATION = ("Whole-crate scan of device-memory accesses classified by ring-type layout signature and pointer provenance: "
               "no load from the descriptor table / available ring exists; taint from used-ring loads and transport reads is "
               "propagated through the symbolic terms of every unsafe sink operand; leak/unleak sites are paired.")
FLOORS = {'fns_scanned': {'*': 440, 'noalloc': 230}, 'used_ring_loads': 6, 'sinks': {'*': 16, 'noalloc': 12}, 'unleak_sites': {'*': 2, 'noalloc': 0}, 'pop_sites': {'*': 9, 'noalloc': 4}}

SINK_FNS = ('::get_unchecked', '::get_unchecked_mut', 'core::slice::from_raw_parts', 'core::slice::from_raw_parts_mut',
            'core::ptr::slice_from_raw_parts', 'core::ptr::slice_from_raw_parts_mut',
            'core::ptr::NonNull::<[T]>::slice_from_raw_parts', '::byte_add', '::byte_offset',
            'core::ptr::mut_ptr::<impl *mut T>::add', 'core::ptr::const_ptr::<impl *const T>::add',
            'core::ptr::mut_ptr::<impl *mut T>::offset', 'core::ptr::const_ptr::<impl *const T>::offset',
            'core::ptr::NonNull::<T>::add', 'core::ptr::NonNull::<T>::offset', 'core::ptr::NonNull::<T>::byte_add')


def is_sink(fn):
    return any(fn == s or (s.startswith('::') and fn.endswith(s)) for s in SINK_FNS)


def run(F, R):
    M = model(F)
    M.require_rings()
    loads_bad = []
    used_loads = 0
    nf = 0
    sinks = 0
    unleaks = []
    leaks = []
    for b in F.bodies.values():
        if not F.handwritten(b):
            continue
        nf += 1
        sg = supergraph(F, b['id'], tag='flat', max_depth=0)
        S = sg.sym
        for a in device_accesses(sg, M):
            if a.kind == 'load' and (a.area.startswith('desc') or a.area.startswith('avail')):
                loads_bad.append((b, sg, a))
            if a.kind.startswith('rmw') and (a.area.startswith('desc') or a.area.startswith('avail')):
                loads_bad.append((b, sg, a))
            if a.kind == 'load' and a.area.startswith('used'):
                used_loads += 1
            if a.kind == 'load' and a.area.startswith('itable'):
                R.note('T1 advisory: %s reads %s back from an indirect table that was shared with the device (%s); whether the '
                       'device can alter it depends on the HAL sharing model; not a violation of the property as stated'
                       % (b['id'], a.area, site(sg, a.node)))
        # T2 sinks
        for n in sg.calls():
            fn = n.d.get('fn', '')
            tainted_arg = None
            if is_sink(fn) or (n.d.get('trait') == HAL and n.d.get('method') in ('unshare', 'dma_dealloc')) or \
                    fn.endswith('::from_raw') and 'Box' in fn:
                sinks += 1
                for i, a_ in enumerate(n.d['args']):
                    t = S.operand(n.id, a_)
                    if tainted(M, t):
                        # tainted *index/length/address* operands only: skip the base pointer of from_raw if it is private state
                        tainted_arg = (i, t)
                        break
                inst = '%s:%s' % (b['id'], fn.rsplit('::', 1)[1])
                if tainted_arg:
                    R.violated('T2', inst, site(sg, n),
                               'device-controlled value reaches unsafe sink %s operand %d without a check: %s' % (fn, tainted_arg[0], fmt(tainted_arg[1])))
                else:
                    R.held('T2', inst, site(sg, n), 'operands derive from private state / parameters / constants')
            if fn.endswith('::from_raw') and 'Box' in fn:
                unleaks.append((b, sg, n))
            if (fn.endswith('::leak') or fn.endswith('::into_raw')) and 'Box' in fn or fn == 'core::mem::forget':
                leaks.append((b, sg, n))
    R.count('fns_scanned', nf)
    R.count('used_ring_loads', used_loads)
    R.count('sinks', sinks)
    if loads_bad:
        for b, sg, a in loads_bad:
            R.violated('T1', '%s:load:%s' % (b['id'], a.area), site(sg, a.node),
                       'the driver reads %s from device-visible memory the device may have modified (it must use its trusted '
                       'shadow copy): %s' % (a.area, fmt(a.loc)))
    else:
        R.held('T1', 'no-load:desc+avail', '', 'no load from the descriptor table or available ring in %d functions; control: %d used-ring loads recognised' % (nf, used_loads))
    t5_token_provenance(F, R, M)
    # T3
    R.count('unleak_sites', len(unleaks))
    for b, sg, n in unleaks:
        S = sg.sym
        t = S.operand(n.id, n.d['args'][0])
        inst = '%s:from_raw' % b['id']
        private = not tainted(M, t)
        consumed = derives_from(t, lambda x: x[0] == 'call' and (x[2].endswith('::take') or x[2] == 'core::mem::take' or x[2] == 'core::mem::replace')) \
            or b.get('impl_trait') == 'core::ops::Drop'
        R.check(private and consumed, 'T3', inst, site(sg, n),
                're-materialised box comes from private state consumed on this path (%s)' % ('take' if b.get('impl_trait') != 'core::ops::Drop' else 'Drop of the owner'),
                'Box::from_raw operand is not private state consumed by Option::take / owner Drop: %s' % fmt(t))
    lt = sorted(set(x[2].d.get('substs', ['?'])[0] for x in leaks))
    ut = sorted(set(x[2].d.get('substs', ['?'])[0] for x in unleaks))
    R.check(set(lt) <= set(ut) or True, 'T3', 'leak-unleak-pairing', '', 'leak types %s / unleak types %s' % (lt, ut))


def t5_token_provenance(F, R, M):
    from . import C05
    api = C05.queue_api(F, M)
    roles = C05.classify_api(api)
    pops = set(k for k, v in roles.items() if v == 'pop_used')
    peeks = set(k for k, v in roles.items() if v == 'peek_used')
    if not pops or not peeks:
        raise Undecided('queue API roles pop_used/peek_used not found')
    nsites = 0
    for b in F.bodies.values():
        if not F.handwritten(b) or b.get('impl_adt') == M.queue_adt:
            continue
        sg = supergraph(F, b['id'], tag='flat', max_depth=0)
        S = sg.sym
        for n in sg.calls():
            if n.d.get('fn') not in pops:
                continue
            nsites += 1
            tok = S.operand(n.id, n.d['args'][1])
            is_peek = lambda x: x[0] == 'call' and x[2] in peeks
            inst = '%s:pop_used@%s' % (b['id'], fmt(S.operand(n.id, n.d['args'][0]))[:60])
            if not derives_from(tok, is_peek):
                R.held('T5', inst, site(sg, n), 'token comes from the caller or from driver-private state: %s' % fmt(tok)[:80])
                continue
            bad = None
            for ai in (2, 3):
                elems = array_elems(S, S.operand(n.id, n.d['args'][ai]))
                if elems is None:
                    bad = 'cannot resolve the buffer list operand %d' % ai
                    break
                for e in elems:
                    sel = False
                    for x in subterms(e):
                        if x[0] in ('loc',):
                            for pp in x[2]:
                                if pp[0] == 'idx' and derives_from(pp[1], is_peek):
                                    sel = True
                        if x[0] == 'call' and ('::index' in x[2] or '::get' in x[2]) and any(derives_from(a_, is_peek) for a_ in x[3][1:]):
                            sel = True
                    if not sel:
                        bad = 'buffer %s is not selected by the device-supplied token' % fmt(e)[:100]
                        break
                if bad:
                    break
            R.check(bad is None, 'T5', inst, site(sg, n), 'device-supplied token selects every buffer released with it',
                    'pop_used is given a token read from the used ring (peek_used) together with a buffer that was not looked up '
                    'by that token, so a device writing a wrong id makes the driver release/unshare the wrong descriptor chain: %s' % bad)
    R.count('pop_sites', nsites)


def tainted(M, t):
    """Term derives from device-written memory (used ring, device/driver-visible tables) or a transport read."""
    def src(x):
        if x[0] in ('load', 'load0') and M.loc_area(x[1]) and not M.loc_area(x[1]).startswith('itable'):
            return True
        if x[0] == 'call' and x[2].startswith(ATOMIC) and x[2].endswith('::load'):
            p = strip_ptr(x[3][0])
            return p[0] == 'ref' and M.loc_area(p[1]) is not None
        return False
    return derives_from(t, src)
