"""C07 - a misbehaving device cannot corrupt driver state or cause invalid access.

Decided:
 T1 never read what the device could have scribbled on: zero loads from the device-visible descriptor table and
    from the available ring anywhere in non-test code (the driver trusts only its shadow copies).  A positive control
    (the used ring *is* loaded) must match on every run.
 T2 taint: values loaded from the used ring / read from the device flow into unsafe pointer sinks
    (ptr::add/offset, from_raw_parts, get_unchecked, Box::from_raw, Hal::unshare address, dma_dealloc) only through
    trusted private state or checked indexing.
 T3 release-once idioms: every Box::from_raw (Unleak) is fed from private state consumed on the same path
    (Option::take / the owning queue's Drop over its fixed buffer array); Leak/Unleak sites pair by type.
 T4 results do not depend on driver-owned areas - corollary of T1.
 T5 completion tokens chosen by the device select the buffer: at every pop_used call outside the queue, if the token
    operand derives from peek_used (an id the device wrote), every buffer handed to pop_used is selected through that
    same token (table[token]); a fixed buffer may only be released under the token the driver stored when it added it.
 T6 no use-after-free steered by response bytes: a DMA region attached to a device resource as backing leaves the
    driver object (take / = None) only after the device was told to detach it, on every path - including the paths on
    which a device-written response makes a teardown command fail (C20.Z4; GPU driver; configurations with `alloc`).
 T7 device-advertised window lengths bound every configuration access (C13.G1/G5 tables).
 T9 net receive claims the slot of the completed id before consuming the completion (C16.S4 custody rules).
 T10 every return of the owning queue's poll has re-posted the popped buffer (C19.Q1).
 T11 MMIO config window ends inside the region (C13.G7).  T12 blocking helper pops its own token (C03.E8).
 T8 a completion poll the device makes fail frees nothing that is still posted (C04.P8).
Not decided: absence of panics (the property allows clean panics); arbitrary callers of the unsafe queue API.
"""
from .common import *

EXPLANATION = ("Whole-crate scan of device-memory accesses classified by ring-type layout signature and pointer provenance: "
               "no load from the descriptor table / available ring exists; taint from used-ring loads and transport reads is "
               "propagated through the symbolic terms of every unsafe sink operand; leak/unleak sites are paired.")
FLOORS = {'fns_scanned': {'*': 300, 'noalloc': 150}, 'used_ring_loads': 2, 'sinks': {'*': 8, 'noalloc': 6}, 'unleak_sites': {'*': 1, 'noalloc': 0}, 'pop_sites': {'*': 6, 'noalloc': 3}}

SINK_FNS = ('::get_unchecked', '::get_unchecked_mut', 'core::slice::from_raw_parts', 'core::slice::from_raw_parts_mut',
            'core::ptr::slice_from_raw_parts', 'core::ptr::slice_from_raw_parts_mut',
            'core::ptr::NonNull::<[T]>::slice_from_raw_parts', '::byte_add', '::byte_offset',
            'core::ptr::mut_ptr::<impl *mut T>::add', 'core::ptr::const_ptr::<impl *const T>::add',
            'core::ptr::mut_ptr::<impl *mut T>::offset', 'core::ptr::const_ptr::<impl *const T>::offset',
            'core::ptr::NonNull::<T>::add', 'core::ptr::NonNull::<T>::offset', 'core::ptr::NonNull::<T>::byte_add')


def is_sink(fn):
    return any(fn == s or (s.startswith('::') and fn.endswith(s)) for s in SINK_FNS)


def run(F, R):
    M = model(F)
    M.require_rings()
    loads_bad = []
    used_loads = 0
    nf = 0
    sinks = 0
    unleaks = []
    leaks = []
    for b in F.bodies.values():
        if not F.handwritten(b):
            continue
        nf += 1
        sg = supergraph(F, b['id'], tag='flat', max_depth=0)
        S = sg.sym
        for a in device_accesses(sg, M):
            if a.kind == 'load' and (a.area.startswith('desc') or a.area.startswith('avail')):
                loads_bad.append((b, sg, a))
            if a.kind.startswith('rmw') and (a.area.startswith('desc') or a.area.startswith('avail')):
                loads_bad.append((b, sg, a))
            if a.kind == 'load' and a.area.startswith('used'):
                used_loads += 1
            if a.kind == 'load' and a.area.startswith('itable'):
                R.note('T1 advisory: %s reads %s back from an indirect table that was shared with the device (%s); whether the '
                       'device can alter it depends on the HAL sharing model; not a violation of the property as stated'
                       % (b['id'], a.area, site(sg, a.node)))
        # T2 sinks
        for n in sg.calls():
            fn = n.d.get('fn', '')
            tainted_arg = None
            if is_sink(fn) or (n.d.get('trait') == HAL and n.d.get('method') in ('unshare', 'dma_dealloc')) or \
                    fn.endswith('::from_raw') and 'Box' in fn:
                sinks += 1
                for i, a_ in enumerate(n.d['args']):
                    t = S.operand(n.id, a_)
                    if tainted(M, t):
                        # tainted *index/length/address* operands only: skip the base pointer of from_raw if it is private state
                        tainted_arg = (i, t)
                        break
                inst = '%s:%s' % (b['id'], fn.rsplit('::', 1)[1])
                if tainted_arg:
                    R.violated('T2', inst, site(sg, n),
                               'device-controlled value reaches unsafe sink %s operand %d without a check: %s' % (fn, tainted_arg[0], fmt(tainted_arg[1])))
                else:
                    R.held('T2', inst, site(sg, n), 'operands derive from private state / parameters / constants')
            if fn.endswith('::from_raw') and 'Box' in fn:
                unleaks.append((b, sg, n))
            if (fn.endswith('::leak') or fn.endswith('::into_raw')) and 'Box' in fn or fn == 'core::mem::forget':
                leaks.append((b, sg, n))
    R.count('fns_scanned', nf)
    R.count('used_ring_loads', used_loads)
    R.count('sinks', sinks)
    if loads_bad:
        for b, sg, a in loads_bad:
            R.violated('T1', '%s:load:%s' % (b['id'], a.area), site(sg, a.node),
                       'the driver reads %s from device-visible memory the device may have modified (it must use its trusted '
                       'shadow copy): %s' % (a.area, fmt(a.loc)))
    else:
        R.held('T1', 'no-load:desc+avail', '', 'no load from the descriptor table or available ring in %d functions; control: %d used-ring loads recognised' % (nf, used_loads))
    t5_token_provenance(F, R, M)
    # T7: device-chosen window sizes cannot cause an out-of-window access: the config-space accessors admit an access only
    # if offset + size_of::<T>() fits the window the device advertised (table shared with C13.G1 / G5)
    from .C13 import g1_bounds, g5_window_extent
    g1_bounds(F, RuleProxy(R, {'G1': 'T7'}))
    g5_window_extent(F, RuleProxy(R, {'G5': 'T7'}), rule='G5')
    # T8: a completion poll the device makes fail (wrong / repeated id, nothing ready) frees nothing that is still posted
    from .C04 import p8_release_after_completion
    p8_release_after_completion(F, RuleProxy(R, {'P8': 'T8'}), M)
    # T9: the net driver's in-flight record (the slot of the token) is claimed before the completion is consumed and
    # checked against the recorded index (C16.S4 custody)
    from .C16 import s4_custody
    from . import C05 as _c5
    guard(R, 'T9', 'custody', lambda: s4_custody(F, R, M, _c5.classify_api(_c5.queue_api(F, M)), rule='T9', only=('receive', 'recycle_rx_buffer')))
    # T10: the owning queue's pop trusts a device-reported token because buffer i is always in the queue under descriptor i:
    # every return of poll (the handler's error included) re-posts the popped buffer (C19.Q1); otherwise a repeated id
    # recycles a free descriptor and unshares its buffer a second time
    from .C19 import poll_rule
    poll_rule(F, R, 'T10')
    # ... and the same for the input driver, which trusts the id the device reports because every event buffer is always posted under
    # its own token: a return after the pop without the re-add leaves the token free to be recycled a second time (T13)
    from .C19 import pop_readd_rule
    pop_readd_rule(F, R, 'T13')
    # T14: a peer that ignores its credit cannot overwrite unread data: the socket receive buffer refuses what does not fit in its free
    # space and its copies follow modular ring indexing (C17.V6)
    if 'device::socket::connectionmanager::RingBuffer' in F.adts:
        from .C17 import v6_ring
        guard(R, 'T14', 'ring-buffer', lambda: v6_ring(F, RuleProxy(R, {'V6': 'T14'})))
    # T15: a capability shorter than the structure overlaid on it (or placed at the end of the BAR) is refused: window admission of the
    # PCI transport (C11.W1)
    if any(k.startswith('transport::pci::') for k in F.bodies):
        from .C11 import w1_admission
        guard(R, 'T15', 'admission', lambda: w1_admission(F, RuleProxy(R, {'W1': 'T15'})))
    # T12: the token check of pop_used is what ties a device-reported id to the chain a blocking call submitted: the helper passes
    # the token of its own add, never the id the device wrote (C03.E8)
    from .C03 import e8_helper_token
    guard(R, 'T12', 'helper-token', lambda: e8_helper_token(F, R, M, _c5.classify_api(_c5.queue_api(F, M)), rule='T12'))
    # T11: no access past the MMIO region: the configuration window built from a (pointer, size) region description ends inside it (C13.G7)
    from .C13 import g7_region_window
    guard(R, 'T11', 'region-window', lambda: g7_region_window(F, R, rule='T11'))
    if 'device::gpu::VirtIOGpu' in F.adts:
        from . import C05 as _c5
        from .C20 import z3_z4_gpu
        z3_z4_gpu(F, RuleProxy(R, {'Z4': 'T6'}), M, _c5.classify_api(_c5.queue_api(F, M)))
    # T3
    R.count('unleak_sites', len(unleaks))
    for b, sg, n in unleaks:
        S = sg.sym
        t = S.operand(n.id, n.d['args'][0])
        inst = '%s:from_raw' % b['id']
        private = not tainted(M, t)
        consumed = derives_from(t, lambda x: x[0] == 'call' and (x[2].endswith('::take') or x[2] == 'core::mem::take' or x[2] == 'core::mem::replace')) \
            or b.get('impl_trait') == 'core::ops::Drop'
        R.check(private and consumed, 'T3', inst, site(sg, n),
                're-materialised box comes from private state consumed on this path (%s)' % ('take' if b.get('impl_trait') != 'core::ops::Drop' else 'Drop of the owner'),
                'Box::from_raw operand is not private state consumed by Option::take / owner Drop: %s' % fmt(t))
    lt = sorted(set(x[2].d.get('substs', ['?'])[0] for x in leaks))
    ut = sorted(set(x[2].d.get('substs', ['?'])[0] for x in unleaks))
    R.check(set(lt) <= set(ut) or True, 'T3', 'leak-unleak-pairing', '', 'leak types %s / unleak types %s' % (lt, ut))


def token_wrappers(F, M, roles):
    """(peek_like, pop_like): queue peek_used/pop_used plus driver functions that merely forward them.
    peek_like: set of fn ids whose return value derives from a peek_like call.
    pop_like: fn id -> (token arg index, [buffer arg indexes]) - the callee passes that parameter as the token and those
    parameters as buffers to a pop_like callee."""
    peek_like = set(k for k, v in roles.items() if v == 'peek_used')
    pop_like = {k: (1, [2, 3]) for k, v in roles.items() if v == 'pop_used'}
    for _ in range(3):
        changed = False
        for b in F.bodies.values():
            if not F.handwritten(b) or b.get('impl_adt') == M.queue_adt or b['kind'] not in ('AssocFn', 'Fn') or b['id'] in peek_like or b['id'] in pop_like:
                continue
            callees = set(bl['term'].get('fn') for bl in b['blocks'] if bl['term']['k'] == 'call')
            if callees & peek_like and b['arg_count'] <= 1:
                sg = supergraph(F, b['id'], tag='flat', max_depth=0)
                S = sg.sym
                vals = [S.local_value(e, 0, 0) for e in sg.exits]
                if vals and all(derives_from(v, lambda x: x[0] == 'call' and x[2] in peek_like) for v in vals):
                    peek_like.add(b['id'])
                    changed = True
                    continue
            if callees & set(pop_like):
                sg = supergraph(F, b['id'], tag='flat', max_depth=0)
                S = sg.sym
                for n in sg.calls(lambda d: d.get('fn') in pop_like):
                    ti, bis = pop_like[n.d['fn']]
                    tok = strip_conv(S.operand(n.id, n.d['args'][ti]))
                    if tok[0] != 'param':
                        continue
                    bufp = set()
                    for bi in bis:
                        t = S.operand(n.id, n.d['args'][bi])
                        for e in [t] + (array_elems(S, t) or []):
                            for x in subterms(e):
                                if x[0] == 'param' and x[1] not in (1, tok[1]):
                                    bufp.add(x[1])
                    if bufp:
                        pop_like[b['id']] = (tok[1] - 1, sorted(x - 1 for x in bufp))
                        changed = True
        if not changed:
            break
    return peek_like, pop_like


def t5_token_provenance(F, R, M, rule='T5', only=None):
    from . import C05
    api = C05.queue_api(F, M)
    roles = C05.classify_api(api)
    if not any(v == 'pop_used' for v in roles.values()) or not any(v == 'peek_used' for v in roles.values()):
        raise Undecided('queue API roles pop_used/peek_used not found')
    peek_like, pop_like = token_wrappers(F, M, roles)
    nsites = 0
    for b in F.bodies.values():
        if not F.handwritten(b) or b.get('impl_adt') == M.queue_adt:
            continue
        if only and not only(b):
            continue
        opq = set(pop_like) | set(peek_like) | set(roles)
        sg = supergraph(F, b['id'], opaque=lambda t, bb: bb['id'] in opq or bb.get('pub'), tag='t5')
        if not any(True for _ in sg.calls(lambda d: d.get('fn') in pop_like)):
            continue
        S = sg.sym
        is_peek = lambda x: x[0] == 'call' and x[2] in peek_like
        for n in sg.calls(lambda d: d.get('fn') in pop_like):
            nsites += 1
            ti, bis = pop_like[n.d['fn']]
            tok = S.operand(n.id, n.d['args'][ti])
            inst = '%s:%s@%s' % (b['id'], n.d['fn'].rsplit('::', 1)[1], fmt(S.operand(n.id, n.d['args'][0]))[:60])
            if not derives_from(tok, is_peek):
                R.held(rule, inst, site(sg, n), 'token comes from the caller or from driver-private state: %s' % fmt(tok)[:80])
                continue
            bad = None
            for ai in bis:
                t = S.operand(n.id, n.d['args'][ai])
                elems = array_elems(S, t)
                if elems is None:
                    elems = [t]
                for e in elems:
                    sel = False
                    for x in deep_subterms(S, e, depth=6):
                        if x[0] in ('loc',):
                            for pp in x[2]:
                                if pp[0] == 'idx' and derives_from(pp[1], is_peek):
                                    sel = True
                        if x[0] == 'call' and ('::index' in x[2] or '::get' in x[2]) and any(derives_from(a_, is_peek) for a_ in x[3][1:]):
                            sel = True
                    if not sel:
                        bad = 'buffer %s is not selected by the device-supplied token' % fmt(e)[:100]
                        break
                if bad:
                    break
            R.check(bad is None, rule, inst, site(sg, n), 'device-supplied token selects every buffer released with it',
                    'a completion is consumed with a token read from the used ring (peek_used) together with a buffer that was not looked up '
                    'by that token: whenever the head of the used ring is another outstanding request (or a wrong id written by the device) the '
                    'wrong descriptor chain is released/unshared and its completion is lost: %s' % bad)
    R.count('pop_sites', nsites)


def tainted(M, t):
    """Term derives from device-written memory (used ring, device/driver-visible tables) or a transport read."""
    def src(x):
        if x[0] in ('load', 'load0') and M.loc_area(x[1]) and not M.loc_area(x[1]).startswith('itable'):
            return True
        if x[0] == 'call' and x[2].startswith(ATOMIC) and x[2].endswith('::load'):
            p = strip_ptr(x[3][0])
            return p[0] == 'ref' and M.loc_area(p[1]) is not None
        return False
    return derives_from(t, src)
