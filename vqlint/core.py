"""vqlint core: fact loading, inlined super-graph, symbolic value recovery, CFG queries.

Pure stdlib.  Everything here works on the JSON facts written by vqfacts; nothing from /repo is
executed.  Terms are nested tuples (hashable) - see `Sym` below.
"""
import json
import sys
from collections import defaultdict, deque

sys.setrecursionlimit(20000)


VARIANT_DISCR = {}     # 'path::Adt::Variant' -> discriminant, filled when facts are loaded
TYPE_LAYOUTS = {'u8': (1, 1), 'i8': (1, 1), 'u16': (2, 2), 'i16': (2, 2), 'u32': (4, 4), 'i32': (4, 4), 'u64': (8, 8), 'i64': (8, 8),
                'usize': (8, 8), 'isize': (8, 8), 'u128': (16, 16), 'bool': (1, 1)}


def type_layout(ty):
    import re as _re
    if ty in TYPE_LAYOUTS:
        return TYPE_LAYOUTS[ty]
    m = _re.match(r'^\[(.+); (\d+)\]$', ty)
    if m:
        e = type_layout(m.group(1))
        if e:
            return (e[0] * int(m.group(2)), e[1])
    return None


class Undecided(Exception):
    """An anchor is lost / a count is below its floor / facts are missing: fail closed."""


# --------------------------------------------------------------------------- facts

PROMOTED = {}     # 'path::promoted[k]' -> term of the value the promoted constant points at


def _eval_promoted(blocks):
    """Value `_0` of a promoted body points at: the usual shape is `_1 = <const / aggregate>; _0 = &_1`."""
    env = {}

    def opv(o):
        if 'const' in o:
            c = o['const']
            if 'bits' in c:
                return ('const', int(c['bits']), c['ty'])
            return ('const', c.get('repr', '?'), c['ty'])
        pl = o.get('copy') or o.get('move')
        if pl is not None and not pl['p']:
            return env.get(pl['l'], ('unknown', 'promoted-local'))
        return ('unknown', 'promoted-place')
    for bl in blocks:
        for st in bl.get('stmts', ()):
            if st.get('k') != 'assign' or st['place']['p']:
                continue
            rv = st['rv']
            k = rv['rv']
            if k == 'use':
                env[st['place']['l']] = opv(rv['op'])
            elif k == 'agg':
                ops = tuple(opv(o) for o in rv['ops'])
                if rv['kind'] == 'adt':
                    env[st['place']['l']] = ('agg', '%s::%s' % (rv['adt'], rv['variant']), ops, tuple(rv.get('fields', ())))
                else:
                    env[st['place']['l']] = ('agg', rv['kind'], ops, ())
            elif k in ('ref', 'rawptr') and not rv['place']['p']:
                env[st['place']['l']] = ('ptr-to', env.get(rv['place']['l'], ('unknown', 'promoted-ref')))
    v = env.get(0)
    if v is not None and v[0] == 'ptr-to':
        return v[1]
    return None


def promoted_pointee(loc):
    """Value of a load through a promoted constant reference (None if the location is something else)."""
    root = loc[1]
    if root[0] == 'deref' and isinstance(root[1], tuple) and root[1][0] == 'const' and isinstance(root[1][1], str) and root[1][1] in PROMOTED:
        v = PROMOTED[root[1][1]]
        for p in loc[2]:
            if p[0] == 'f':
                v = simplify(('field', v, p[1]))
            elif p[0] == 'dc':
                v = simplify(('downcast', v, p[1]))
            else:
                return None
        return v
    return None


class Facts:
    def __init__(self, path):
        with open(path) as f:
            d = json.load(f)
        self.raw = d
        self.bodies = d['bodies']
        self.adts = d['adts']
        self.consts = d['consts']
        self.impls = d['impls']
        self.traits = d['traits']
        for k, b in self.bodies.items():
            b['id'] = k
            for k_, pb in enumerate(b.get('promoted', ())):
                v_ = _eval_promoted(pb)
                if v_ is not None and v_[0] != 'unknown':
                    PROMOTED['%s::promoted[%d]' % (k, k_)] = v_
            if b.get('kind') == 'Closure' and not b['name'].endswith('{closure}'):
                # a closure is not the function it is written in: rules that select a method by name must not pick it up
                b['name'] = b['name'] + '::{closure}'
        # trait default methods with bodies: 'transport::Transport::begin_init'
        for name, a in self.adts.items():
            lay = a.get('layout')
            if lay:
                TYPE_LAYOUTS[name] = (lay['size'], lay['align'])
            if a.get('kind') == 'enum':
                for v in a.get('variants', []):
                    if 'discr' in v:
                        VARIANT_DISCR['%s::%s' % (name, v['name'])] = int(v['discr'])
        self.overrides = defaultdict(list)  # (trait, method) -> [impl self]
        for im in self.impls:
            if 'trait' in im:
                for it in im['items']:
                    self.overrides[(im['trait'], it['name'])].append(im['self'])

    def body(self, fid):
        return self.bodies.get(fid)

    def file_line(self, fid):
        b = self.bodies.get(fid)
        if not b:
            return '?'
        sp = b['span'].split(':')
        return sp[0] + ':' + sp[1]

    def const_val(self, path):
        c = self.consts.get(path)
        if c is None or 'bits' not in c:
            return None
        return int(c['bits'])

    def fns_where(self, pred):
        return [b for b in self.bodies.values() if pred(b)]

    def handwritten(self, b):
        return not b.get('derived') and not b.get('from_expansion')


# --------------------------------------------------------------------------- node model

def _pl(l, *p):
    return {'l': l, 'p': list(p)}


def model_body(fn, closure_id, line):
    """Synthetic MIR (in the fact format) for standard-library combinators applied to a crate-local closure, so that a
    refactoring from `match`/`if let` to `opt.map(|x| ..)` is analysed like the code it replaces.  Only the value flow
    is modelled (no unwinding): Option::map, Option::and_then, Result::map."""
    some = [{'dc': 'Some', 'v': 1}, {'f': 0, 'n': '0', 'adt': 'core::option::Option', 'ty': '?'}]
    ok = [{'dc': 'Ok', 'v': 0}, {'f': 0, 'n': '0', 'adt': 'core::result::Result', 'ty': '?'}]
    err = [{'dc': 'Err', 'v': 1}, {'f': 0, 'n': '0', 'adt': 'core::result::Result', 'ty': '?'}]

    def asg(place, rv, pty='?'):
        return {'k': 'assign', 'line': line, 'place': place, 'pty': pty, 'rv': rv}

    def agg(adt, variant, vidx, ops):
        return {'rv': 'agg', 'kind': 'adt', 'adt': adt, 'variant': variant, 'vidx': vidx, 'args': ['?'], 'fields': ['0'] if ops else [], 'ops': ops}

    def call_closure(target):
        return {'k': 'call', 'fn': 'core::ops::FnOnce::call_once', 'fn_full': 'core::ops::FnOnce::call_once', 'substs': ['?', '?'], 'local': False,
                'trait': 'core::ops::FnOnce', 'method': 'call_once', 'self_ty': '?', 'args': [{'move': _pl(2)}, {'move': _pl(5)}], 'arg_tys': ['?', '?'],
                'dest': _pl(6), 'target': target, 'unwind': None, 'fn_line': line, 'from_expansion': False, 'line': line}
    locals_ = [{'ty': '?'}, {'ty': '?'}, {'ty': '{closure}', 'closure': closure_id}, {'ty': 'isize'}, {'ty': '?'}, {'ty': '(?,)'}, {'ty': '?'}]
    if fn in ('core::option::Option::<T>::map', 'core::option::Option::<T>::and_then'):
        wrap = fn.endswith('::map')
        blocks = [
            {'cleanup': False, 'stmts': [asg(_pl(3), {'rv': 'discr', 'place': _pl(1)}, 'isize')],
             'term': {'k': 'switch', 'discr': {'move': _pl(3)}, 'dty': 'isize', 'targets': [['0', 1]], 'otherwise': 2, 'line': line}},
            {'cleanup': False, 'stmts': [asg(_pl(0), agg('core::option::Option', 'None', 0, []))], 'term': {'k': 'return', 'line': line}},
            {'cleanup': False, 'stmts': [asg(_pl(4), {'rv': 'use', 'op': {'move': _pl(1, *some)}}),
                                         asg(_pl(5), {'rv': 'agg', 'kind': 'tuple', 'ops': [{'move': _pl(4)}]})], 'term': call_closure(3)},
            {'cleanup': False, 'stmts': [asg(_pl(0), agg('core::option::Option', 'Some', 1, [{'move': _pl(6)}]) if wrap else {'rv': 'use', 'op': {'move': _pl(6)}})],
             'term': {'k': 'return', 'line': line}},
        ]
    elif fn == 'core::bool::<impl bool>::then':
        # self = _1 (bool), f = _2, no closure argument
        blocks = [
            {'cleanup': False, 'stmts': [],
             'term': {'k': 'switch', 'discr': {'copy': _pl(1)}, 'dty': 'bool', 'targets': [['0', 1]], 'otherwise': 2, 'line': line}},
            {'cleanup': False, 'stmts': [asg(_pl(0), agg('core::option::Option', 'None', 0, []))], 'term': {'k': 'return', 'line': line}},
            {'cleanup': False, 'stmts': [asg(_pl(5), {'rv': 'agg', 'kind': 'tuple', 'ops': []})], 'term': call_closure(3)},
            {'cleanup': False, 'stmts': [asg(_pl(0), agg('core::option::Option', 'Some', 1, [{'move': _pl(6)}]))], 'term': {'k': 'return', 'line': line}},
        ]
    elif fn == 'core::result::Result::<T, E>::map':
        blocks = [
            {'cleanup': False, 'stmts': [asg(_pl(3), {'rv': 'discr', 'place': _pl(1)}, 'isize')],
             'term': {'k': 'switch', 'discr': {'move': _pl(3)}, 'dty': 'isize', 'targets': [['1', 1]], 'otherwise': 2, 'line': line}},
            {'cleanup': False, 'stmts': [asg(_pl(4), {'rv': 'use', 'op': {'move': _pl(1, *err)}}),
                                         asg(_pl(0), agg('core::result::Result', 'Err', 1, [{'move': _pl(4)}]))], 'term': {'k': 'return', 'line': line}},
            {'cleanup': False, 'stmts': [asg(_pl(4), {'rv': 'use', 'op': {'move': _pl(1, *ok)}}),
                                         asg(_pl(5), {'rv': 'agg', 'kind': 'tuple', 'ops': [{'move': _pl(4)}]})], 'term': call_closure(3)},
            {'cleanup': False, 'stmts': [asg(_pl(0), agg('core::result::Result', 'Ok', 0, [{'move': _pl(6)}]))], 'term': {'k': 'return', 'line': line}},
        ]
    elif fn in ('core::option::Option::<T>::filter', 'core::option::Option::<T>::is_some_and'):
        # the predicate sees the payload (by reference for filter, by value for is_some_and)
        keep = fn.endswith('::filter')
        arg = {'rv': 'ref', 'place': _pl(1, *some), 'bk': 'shared'} if keep else {'rv': 'use', 'op': {'move': _pl(1, *some)}}

        def const_bool(v):
            return {'rv': 'use', 'op': {'const': {'ty': 'bool', 'bits': str(v)}}}
        none_rv = agg('core::option::Option', 'None', 0, []) if keep else const_bool(0)
        blocks = [
            {'cleanup': False, 'stmts': [asg(_pl(3), {'rv': 'discr', 'place': _pl(1)}, 'isize')],
             'term': {'k': 'switch', 'discr': {'move': _pl(3)}, 'dty': 'isize', 'targets': [['0', 1]], 'otherwise': 2, 'line': line}},
            {'cleanup': False, 'stmts': [asg(_pl(0), none_rv)], 'term': {'k': 'return', 'line': line}},
            {'cleanup': False, 'stmts': [asg(_pl(4), arg), asg(_pl(5), {'rv': 'agg', 'kind': 'tuple', 'ops': [{'move': _pl(4)}]})], 'term': call_closure(3)},
        ]
        if keep:
            blocks += [
                {'cleanup': False, 'stmts': [],
                 'term': {'k': 'switch', 'discr': {'move': _pl(6)}, 'dty': 'bool', 'targets': [['0', 1]], 'otherwise': 4, 'line': line}},
                {'cleanup': False, 'stmts': [asg(_pl(0), {'rv': 'use', 'op': {'move': _pl(1)}})], 'term': {'k': 'return', 'line': line}},
            ]
        else:
            blocks += [{'cleanup': False, 'stmts': [asg(_pl(0), {'rv': 'use', 'op': {'move': _pl(6)}})], 'term': {'k': 'return', 'line': line}}]
    elif fn == 'core::result::Result::<T, E>::and_then':
        blocks = [
            {'cleanup': False, 'stmts': [asg(_pl(3), {'rv': 'discr', 'place': _pl(1)}, 'isize')],
             'term': {'k': 'switch', 'discr': {'move': _pl(3)}, 'dty': 'isize', 'targets': [['1', 1]], 'otherwise': 2, 'line': line}},
            {'cleanup': False, 'stmts': [asg(_pl(4), {'rv': 'use', 'op': {'move': _pl(1, *err)}}),
                                         asg(_pl(0), agg('core::result::Result', 'Err', 1, [{'move': _pl(4)}]))], 'term': {'k': 'return', 'line': line}},
            {'cleanup': False, 'stmts': [asg(_pl(4), {'rv': 'use', 'op': {'move': _pl(1, *ok)}}),
                                         asg(_pl(5), {'rv': 'agg', 'kind': 'tuple', 'ops': [{'move': _pl(4)}]})], 'term': call_closure(3)},
            {'cleanup': False, 'stmts': [asg(_pl(0), {'rv': 'use', 'op': {'move': _pl(6)}})], 'term': {'k': 'return', 'line': line}},
        ]
    else:
        return None
    return {'id': 'model:%s:%s' % (fn, closure_id), 'kind': 'Fn', 'name': fn.rsplit('::', 1)[1], 'span': '', 'root': 'model', 'from_expansion': True, 'pub': False,
            'sig': 'model', 'generics': [], 'bounds': [], 'arg_count': 2, 'locals': locals_, 'blocks': blocks, 'model': True}


MODELLED = ('core::option::Option::<T>::map', 'core::option::Option::<T>::and_then', 'core::result::Result::<T, E>::map',
            'core::bool::<impl bool>::then', 'core::option::Option::<T>::filter', 'core::option::Option::<T>::is_some_and',
            'core::result::Result::<T, E>::and_then')


class Node:
    __slots__ = ('id', 'ctx', 'bb', 'idx', 'kind', 'd', 'succ', 'pred', 'inl', 'switch_edges')

    def __init__(self, nid, ctx, bb, idx, kind, d):
        self.id = nid
        self.ctx = ctx
        self.bb = bb
        self.idx = idx
        self.kind = kind      # 'assign','setdiscr','copy_nonoverlapping', term kinds, 'ret' (pseudo)
        self.d = d
        self.succ = []
        self.pred = []
        self.inl = None       # for inlined call: callee ctx id
        self.switch_edges = None  # for switch: list of (value|None, succ node id)

    @property
    def line(self):
        return self.d.get('line', 0) if self.d else 0


class Ctx:
    __slots__ = ('id', 'fn', 'parent', 'call', 'depth', 'entry', 'rets', 'closure_env')

    def __init__(self, cid, fn, parent, call, depth):
        self.id = cid
        self.fn = fn          # body dict
        self.parent = parent  # parent ctx id or None
        self.call = call      # call node id in parent
        self.depth = depth
        self.entry = None
        self.rets = []        # return node ids
        self.closure_env = None


IDENTITY_PTR_FNS = {
    'core::ptr::NonNull::<T>::as_ptr', 'core::ptr::NonNull::<T>::as_mut', 'core::ptr::NonNull::<T>::as_ref',
    'core::ptr::NonNull::<T>::cast', 'core::ptr::NonNull::<T>::new_unchecked',
    'core::ptr::mut_ptr::<impl *mut T>::cast', 'core::ptr::const_ptr::<impl *const T>::cast',
    'core::ptr::mut_ptr::<impl *mut T>::cast_const', 'core::ptr::const_ptr::<impl *const T>::cast_mut',
    'core::ptr::NonNull::<[T]>::as_mut_ptr', 'core::ptr::NonNull::<[T]>::as_non_null_ptr',
    'core::ptr::NonNull::<T>::from_ref', 'core::ptr::NonNull::<T>::from_mut',
    'core::ptr::mut_ptr::<impl *mut T>::as_mut', 'core::ptr::mut_ptr::<impl *mut T>::as_ref',
    'core::ptr::mut_ptr::<impl *mut T>::as_mut_unchecked', 'core::ptr::mut_ptr::<impl *mut T>::as_ref_unchecked',
    'core::ptr::const_ptr::<impl *const T>::as_ref', 'core::ptr::const_ptr::<impl *const T>::as_ref_unchecked',
    'core::slice::<impl [T]>::as_mut_ptr', 'core::slice::<impl [T]>::as_ptr',
    'core::array::<impl [T; N]>::as_mut_slice', 'core::array::<impl [T; N]>::as_slice',
    'core::ptr::from_ref', 'core::ptr::from_mut',
    'alloc::boxed::Box::<T>::leak', 'alloc::boxed::Box::<T, A>::leak',
    'alloc::boxed::Box::<T>::into_raw', 'alloc::boxed::Box::<T, A>::into_raw',
    'alloc::boxed::Box::<T>::from_raw', 'alloc::boxed::Box::<T, A>::from_raw',
    'core::mem::ManuallyDrop::<T>::new',
}

# (trait, method) pairs that behave as identity on the pointed-to object / value
IDENTITY_TRAIT_METHODS = {
    ('core::ops::Deref', 'deref'), ('core::ops::DerefMut', 'deref_mut'),
    ('core::convert::AsMut', 'as_mut'), ('core::convert::AsRef', 'as_ref'),
    ('core::borrow::Borrow', 'borrow'), ('core::borrow::BorrowMut', 'borrow_mut'),
    ('zerocopy::IntoBytes', 'as_bytes'), ('zerocopy::IntoBytes', 'as_mut_bytes'),
    ('core::clone::Clone', 'clone'),
}

CONV_TRAIT_METHODS = {
    ('core::convert::From', 'from'), ('core::convert::Into', 'into'),
}


class Super:
    """Inlined super-graph rooted at one entry function.

    `opaque(call_term, callee_body)` -> True keeps a crate-local call as an opaque call node.
    """

    def __init__(self, facts, entry_id, max_depth=8, opaque=None, inline_closures=True):
        self.facts = facts
        self.nodes = []
        self.ctxs = []
        self.opaque = opaque or (lambda t, b: False)
        self.max_depth = max_depth
        self.inline_closures = inline_closures
        self.cut = []          # calls not inlined because of depth/recursion
        self.block_first = {}  # (ctx, bb) -> node id
        entry = facts.body(entry_id)
        if entry is None:
            raise Undecided('entry point %s not found' % entry_id)
        self.entry_fn = entry
        self._pending = deque()
        c0 = self._new_ctx(entry, None, None, 0)
        self.root = c0
        while self._pending:
            self._expand(self._pending.popleft())
        for n in self.nodes:
            for s in n.succ:
                self.nodes[s].pred.append(n.id)
        self.entry = self.ctxs[0].entry
        self.exits = list(self.ctxs[0].rets)
        self._sym = None

    # -- construction
    def _new_node(self, ctx, bb, idx, kind, d):
        n = Node(len(self.nodes), ctx, bb, idx, kind, d)
        self.nodes.append(n)
        return n

    def _new_ctx(self, fn, parent, call, depth):
        c = Ctx(len(self.ctxs), fn, parent, call, depth)
        self.ctxs.append(c)
        # create nodes for all non-cleanup blocks
        blocks = fn['blocks']
        for bi, bl in enumerate(blocks):
            if bl['cleanup']:
                continue
            first = None
            prev = None
            for si, st in enumerate(bl['stmts']):
                n = self._new_node(c.id, bi, si, st['k'], st)
                if first is None:
                    first = n
                if prev is not None:
                    prev.succ.append(n.id)
                prev = n
            t = bl['term']
            n = self._new_node(c.id, bi, len(bl['stmts']), t['k'], t)
            if first is None:
                first = n
            if prev is not None:
                prev.succ.append(n.id)
            self.block_first[(c.id, bi)] = first.id
        c.entry = self.block_first[(c.id, 0)]
        self._pending.append(c.id)
        return c

    def _callee_body(self, t):
        """Return (body, via) for a crate-local callee that can be inlined, else (None, None)."""
        f = self.facts
        rid = t.get('resolved')
        if rid and rid in f.bodies:
            return f.bodies[rid], 'resolved'
        fid = t.get('fn')
        # blanket Into / TryInto forwarding to a crate-local From / TryFrom impl
        tr = (t.get('trait'), t.get('method'))
        subs = t.get('substs', [])
        if tr == ('core::convert::TryInto', 'try_into') and len(subs) >= 2:
            cand = '<%s as core::convert::TryFrom<%s>>::try_from' % (subs[1], subs[0])
            if cand in f.bodies:
                return f.bodies[cand], 'direct'
        if tr == ('core::convert::Into', 'into') and len(subs) >= 2:
            cand = '<%s as core::convert::From<%s>>::from' % (subs[1], subs[0])
            if cand in f.bodies:
                return f.bodies[cand], 'direct'
        if fid in f.bodies:
            b = f.bodies[fid]
            if 'in_trait' in b:
                # default (provided) trait method called on a generic Self: inline if no impl overrides
                if f.overrides.get((b['in_trait'], b['name'])):
                    return None, None
                return b, 'default'
            return b, 'direct'
        return None, None

    def _in_stack(self, cid, fid):
        while cid is not None:
            c = self.ctxs[cid]
            if c.fn['id'] == fid:
                return True
            cid = c.parent
        return False

    def _expand(self, cid):
        c = self.ctxs[cid]
        blocks = c.fn['blocks']
        for bi, bl in enumerate(blocks):
            if bl['cleanup']:
                continue
            tn = self.nodes[self.block_first[(cid, bi)] + len(bl['stmts'])]
            t = bl['term']
            k = t['k']

            def first(bb):
                return self.block_first.get((cid, bb))
            if k == 'goto':
                tn.succ.append(first(t['target']))
            elif k == 'switch':
                edges = []
                for v, b in t['targets']:
                    edges.append((int(v), first(b)))
                edges.append((None, first(t['otherwise'])))
                tn.switch_edges = edges
                seen = set()
                for _, s in edges:
                    if s not in seen:
                        seen.add(s)
                        tn.succ.append(s)
            elif k == 'return':
                c.rets.append(tn.id)
                if c.parent is not None:
                    call = self.nodes[c.call]
                    # ret pseudo node created at call expansion time
                    tn.succ.append(call.d['_retnode'])
            elif k in ('drop', 'assert'):
                tn.succ.append(first(t['target']))
            elif k == 'call':
                tgt = t.get('target')
                body, via = self._callee_body(t)
                closure_env = None
                if body is None and self.inline_closures and t.get('fn') in MODELLED and len(t['args']) == 2:
                    a1 = t['args'][1]
                    pl1 = a1.get('move') or a1.get('copy')
                    clo1 = c.fn['locals'][pl1['l']].get('closure') if (pl1 is not None and not pl1['p']) else None
                    if clo1 and clo1 in self.facts.bodies:
                        body, via = model_body(t['fn'], clo1, t.get('line', 0)), 'model'
                if body is None and self.inline_closures and t.get('trait') in (
                        'core::ops::FnOnce', 'core::ops::FnMut', 'core::ops::Fn'):
                    # closure call: find closure type of arg0 local
                    a0 = t['args'][0]
                    pl = a0.get('move') or a0.get('copy')
                    if pl is not None:
                        lt = c.fn['locals'][pl['l']]
                        clo = lt.get('closure')
                        if clo is None:
                            # &mut closure / & closure
                            ty = lt['ty']
                            for cand in self.facts.bodies:
                                pass
                        if clo and clo in self.facts.bodies:
                            body = self.facts.bodies[clo]
                            via = 'closure'
                if body is not None and tgt is not None:
                    if self.opaque(t, body):
                        body = None
                    elif c.depth + 1 > self.max_depth or self._in_stack(cid, body['id']):
                        self.cut.append((tn.id, body['id']))
                        body = None
                if body is not None and tgt is not None:
                    # the call's own dict is shared between contexts: copy it per node
                    d = dict(t)
                    tn.d = d
                    rn = self._new_node(cid, bi, len(bl['stmts']), 'ret', {'call': tn.id, 'line': t.get('line', 0)})
                    d['_retnode'] = rn.id
                    d['_via'] = via
                    rn.succ.append(first(tgt))
                    cc = self._new_ctx(body, cid, tn.id, c.depth + 1)
                    tn.inl = cc.id
                    tn.succ.append(cc.entry)
                else:
                    if tgt is not None:
                        tn.succ.append(first(tgt))
            elif k in ('unreachable', 'resume', 'terminate', 'other'):
                pass
            tn.succ = [s for s in tn.succ if s is not None]

    # -- helpers
    def fn_of(self, n):
        return self.ctxs[n.ctx].fn

    def where(self, n):
        n = self.nodes[n] if isinstance(n, int) else n
        fn = self.fn_of(n)
        file = fn['span'].split(':')[0]
        return '%s:%s (%s)' % (file, n.line, fn['id'])

    def ctx_chain(self, n):
        n = self.nodes[n] if isinstance(n, int) else n
        out = []
        cid = n.ctx
        while cid is not None:
            c = self.ctxs[cid]
            out.append(c.fn['id'])
            cid = c.parent
        return list(reversed(out))

    def calls(self, pred=None):
        for n in self.nodes:
            if n.kind == 'call' and n.inl is None and (pred is None or pred(n.d)):
                yield n

    def all_calls(self, pred=None):
        for n in self.nodes:
            if n.kind == 'call' and (pred is None or pred(n.d)):
                yield n

    # -- reachability
    def reach_fwd(self, starts, avoid=(), avoid_edges=()):
        avoid = set(avoid)
        avoid_edges = set(avoid_edges)
        seen = set()
        st = [s for s in starts if s not in avoid]
        while st:
            x = st.pop()
            if x in seen:
                continue
            seen.add(x)
            for s in self.nodes[x].succ:
                if s not in seen and s not in avoid and (x, s) not in avoid_edges:
                    st.append(s)
        return seen

    def reach_bwd(self, starts, avoid=()):
        avoid = set(avoid)
        seen = set()
        st = [s for s in starts if s not in avoid]
        while st:
            x = st.pop()
            if x in seen:
                continue
            seen.add(x)
            for s in self.nodes[x].pred:
                if s not in seen and s not in avoid:
                    st.append(s)
        return seen

    def live_nodes(self):
        """Nodes on some entry->normal-return path (excludes panic-only paths)."""
        if getattr(self, '_live', None) is None:
            f = self.reach_fwd([self.entry])
            b = self.reach_bwd(self.exits)
            self._live = f & b
        return self._live

    def always_before(self, a_set, b, avoid_edges=()):
        """Every entry->b path passes through some node of a_set (b excluded)."""
        r = self.reach_fwd([self.entry], avoid=set(a_set) - {b}, avoid_edges=avoid_edges)
        return b not in r

    def always_after(self, a, b_set, exits=None):
        """Every path from a to a normal exit passes through some node of b_set."""
        exits = self.exits if exits is None else exits
        r = self.reach_fwd(self.nodes[a].succ, avoid=set(b_set))
        return not any(e in r for e in exits)

    def between_always(self, a, b, c_set):
        """Every path from a to b passes a node of c_set."""
        r = self.reach_fwd(self.nodes[a].succ, avoid=set(c_set) - {b})
        return b not in r

    def guards_of(self, n):
        """Switch edges (switch node id, value) such that every entry->n path uses that edge... returns
        list of (switch_node, value_or_None, taken_succ)."""
        out = []
        if getattr(self, '_switches', None) is None:
            self._switches = [x for x in self.nodes if x.kind == 'switch']
        anc = self.reach_bwd([n])
        for sw in self._switches:
            if sw.id not in anc or sw.id == n:
                continue
            # group edges by successor
            succs = set(s for _, s in sw.switch_edges)
            if len(succs) < 2:
                continue
            for s in succs:
                # removing all other out-edges of sw: still reachable; removing this edge: unreachable?
                r = self.reach_fwd([self.entry], avoid_edges=[(sw.id, s)])
                if n not in r:
                    vals = [v for v, t in sw.switch_edges if t == s]
                    out.append((sw.id, vals, s))
        return out

    @property
    def sym(self):
        if self._sym is None:
            self._sym = Sym(self)
        return self._sym


# --------------------------------------------------------------------------- symbolic recovery

def is_const(t):
    return isinstance(t, tuple) and t and t[0] == 'const'


def subterms(t):
    """Iterate all sub-terms (including t)."""
    st = [t]
    seen = set()
    while st:
        x = st.pop()
        if not isinstance(x, tuple):
            continue
        if id(x) in seen or not x:
            continue
        seen.add(id(x))
        if isinstance(x[0], str):
            yield x
            rest = x[1:]
        else:
            rest = x
        for y in rest:
            if isinstance(y, tuple):
                st.append(y)
            elif isinstance(y, list):
                st.extend(y)


def derives_from(t, pred):
    for x in subterms(t):
        if pred(x):
            return True
    return False


def fmt(t, depth=0):
    if not isinstance(t, tuple) or not t:
        return str(t)
    if depth > 12:
        return '…'
    k = t[0]
    f = lambda x: fmt(x, depth + 1)
    if k == 'const':
        return '%s' % (t[1],)
    if k == 'param':
        return 'arg%d' % t[1]
    if k == 'load':
        return 'load(%s)' % f(t[1])
    if k == 'loc':
        return '%s%s' % (f(t[1]), ''.join(fmt_proj(p, depth) for p in t[2]))
    if k == 'deref':
        return '*(%s)' % f(t[1])
    if k == 'idcall' or k == 'conv':
        return f(t[2])
    if k == 'local':
        return '_%d@%d' % (t[2], t[1])
    if k == 'ref':
        return '&%s' % f(t[1])
    if k == 'call':
        return '%s#%d(%s)' % (t[2].split('::')[-1] if '::' in t[2] else t[2], t[1], ', '.join(f(a) for a in t[3]))
    if k == 'bin':
        return '(%s %s %s)' % (f(t[2]), t[1], f(t[3]))
    if k == 'un':
        return '%s(%s)' % (t[1], f(t[2]))
    if k == 'cast':
        return '(%s as %s)' % (f(t[3]), t[2])
    if k == 'agg':
        return '%s{%s}' % (t[1], ', '.join(f(a) for a in t[2]))
    if k == 'field':
        return '%s.%s' % (f(t[1]), t[2])
    if k == 'discr':
        return 'discr(%s)' % f(t[1])
    if k == 'phi':
        return 'phi(%s)' % ' | '.join(f(a) for a in t[1])
    return '%s(%s)' % (k, ', '.join(f(a) if isinstance(a, tuple) else str(a) for a in t[1:]))


def fmt_proj(p, depth=0):
    if p[0] == 'f':
        return '.' + p[1]
    if p[0] == 'idx':
        return '[%s]' % fmt(p[1], depth + 1)
    if p[0] == 'cidx':
        return '[#%s]' % p[1]
    if p[0] == 'dc':
        return ' as %s' % p[1]
    return '.?' + str(p)


class Sym:
    """Backward symbolic value recovery over a Super graph."""

    def __init__(self, sg):
        self.sg = sg
        self.facts = sg.facts
        self._addr_taken = {}
        self._def_cache = {}
        self._op_cache = {}
        self._in_progress = set()
        self._defs_index = None
        self._build_defs()

    # -- indices
    def _build_defs(self):
        """Per ctx: local -> list of nodes that (whole- or partially-) define it; address-taken set."""
        self.defs = defaultdict(list)       # (ctx, local) -> [(node id, partial?)]
        self.addr_taken = set()             # (ctx, local)
        for n in self.sg.nodes:
            d = n.d
            if n.kind == 'assign':
                pl = d['place']
                part = bool(pl['p'])
                if part and pl['p'][0] == 'deref':
                    pass
                else:
                    self.defs[(n.ctx, pl['l'])].append((n.id, part))
                rv = d['rv']
                if rv['rv'] in ('ref', 'rawptr'):
                    p = rv['place']
                    if not p['p'] or p['p'][0] != 'deref':
                        # address of (part of) a local taken; shared refs of never-reassigned temps are harmless
                        if rv['rv'] == 'rawptr' or rv.get('mut') or True:
                            self.addr_taken.add((n.ctx, p['l']))
            elif n.kind == 'setdiscr':
                pl = d['place']
                if not (pl['p'] and pl['p'][0] == 'deref'):
                    self.defs[(n.ctx, pl['l'])].append((n.id, True))
            elif n.kind == 'call' and n.inl is None:
                pl = d['dest']
                if not (pl['p'] and pl['p'][0] == 'deref'):
                    self.defs[(n.ctx, pl['l'])].append((n.id, bool(pl['p'])))
            elif n.kind == 'ret':
                call = self.sg.nodes[d['call']]
                pl = call.d['dest']
                if not (pl['p'] and pl['p'][0] == 'deref'):
                    self.defs[(n.ctx, pl['l'])].append((n.id, bool(pl['p'])))
        self.defnodes = {}
        for k, v in self.defs.items():
            self.defnodes[k] = {nid: part for nid, part in v}

    def is_mem_local(self, ctx, l):
        """Local whose value must be modelled as memory: mutably borrowed / partially assigned."""
        key = (ctx, l)
        r = self._addr_taken.get(key)
        if r is not None:
            return r
        part = any(p for _, p in self.defs.get(key, ()))
        mutref = False
        if key in self.addr_taken:
            # only mutable borrows / raw pointers make it memory
            for n in self.sg.nodes:
                if n.ctx != ctx or n.kind != 'assign':
                    continue
                rv = n.d['rv']
                if rv['rv'] in ('ref', 'rawptr'):
                    p = rv['place']
                    if p['l'] == l and (not p['p'] or p['p'][0] != 'deref'):
                        if rv['rv'] == 'rawptr' or rv.get('mut'):
                            mutref = True
                            break
        r = part or mutref
        self._addr_taken[key] = r
        return r

    # -- reaching definitions of a plain local, searched backwards from node n (exclusive)
    def reaching_defs(self, n, ctx, l):
        key = (ctx, l)
        dn = self.defnodes.get(key, {})
        sg = self.sg
        out = []
        seen = set()
        st = list(sg.nodes[n].pred)
        hit_entry = False
        centry = sg.ctxs[ctx].entry
        if n == centry:
            hit_entry = True
        while st:
            x = st.pop()
            if x in seen:
                continue
            seen.add(x)
            if x in dn:
                out.append(x)
                if not dn[x]:
                    continue   # whole def kills
            nx = sg.nodes[x]
            if nx.kind == 'ret' and nx.ctx == ctx and x not in dn:
                # skip over inlined callee body: jump to the call node
                st.append(nx.d['call'])
                continue
            if x == centry:
                hit_entry = True
                # do not walk above the context entry for this context's locals
                continue
            st.extend(nx.pred)
        return out, hit_entry

    # -- operands / places
    def operand(self, n, op):
        """Term for operand `op` evaluated just before node n executes."""
        if 'const' in op:
            c = op['const']
            if 'bits' in c:
                return ('const', int(c['bits']), c['ty'])
            if 'fn' in c:
                return ('fnitem', c['fn'], tuple(c.get('args', ())))
            return ('const', c.get('repr', '?'), c['ty'])
        pl = op.get('copy') or op.get('move')
        if pl is None:
            return ('unknown', 'operand')
        return self.place_value(n, pl)

    def local_value(self, n, ctx, l):
        """Value of a non-memory local just before node n."""
        sg = self.sg
        defs, hit_entry = self.reaching_defs(n, ctx, l)
        c = sg.ctxs[ctx]
        terms = []
        for dnode in defs:
            terms.append(self.def_value(dnode, ctx, l))
        if hit_entry:
            if 1 <= l <= c.fn['arg_count']:
                terms.append(self.param_value(ctx, l))
            elif not defs:
                terms.append(('undef', ctx, l))
        terms = _dedup(terms)
        if len(terms) == 1:
            return terms[0]
        if not terms:
            return ('undef', ctx, l)
        return ('phi', tuple(terms))

    def param_value(self, ctx, l):
        sg = self.sg
        c = sg.ctxs[ctx]
        if c.parent is None:
            return ('param', l)
        call = sg.nodes[c.call]
        via = call.d.get('_via')
        args = call.d['args']
        if via == 'closure':
            # callee _1 = closure env (arg0), _2.. = fields of the tuple arg1
            if l == 1:
                return self.operand(call.id, args[0])
            tup = self.operand(call.id, args[1]) if len(args) > 1 else ('unknown', 'noargs')
            return simplify(('field', tup, str(l - 2)))
        if l - 1 < len(args):
            return self.operand(call.id, args[l - 1])
        return ('unknown', 'param')

    def def_value(self, dnode, ctx, l):
        key = (dnode, ctx, l)
        if key in self._def_cache:
            return self._def_cache[key]
        if key in self._in_progress:
            return ('rec', dnode)
        self._in_progress.add(key)
        try:
            v = self._def_value(dnode, ctx, l)
        finally:
            self._in_progress.discard(key)
        self._def_cache[key] = v
        return v

    def _def_value(self, dnode, ctx, l):
        sg = self.sg
        n = sg.nodes[dnode]
        if n.kind == 'assign':
            if n.d['place']['p']:
                return ('partial', dnode)
            return self.rvalue(dnode, n.d['rv'])
        if n.kind == 'call':
            return self.call_value(dnode)
        if n.kind == 'ret':
            call = sg.nodes[n.d['call']]
            cc = sg.ctxs[call.inl]
            terms = []
            for r in cc.rets:
                terms.append(self.local_value(r, cc.id, 0))
            terms = _dedup(terms)
            if len(terms) == 1:
                return terms[0]
            if not terms:
                return ('never',)
            return ('phi', tuple(terms))
        if n.kind == 'setdiscr':
            return ('partial', dnode)
        return ('unknown', n.kind)

    def call_value(self, cnode):
        n = self.sg.nodes[cnode]
        d = n.d
        args = tuple(self.operand(cnode, a) for a in d['args'])
        fn = d.get('fn', '?')
        return simplify(('call', cnode, fn, args), d)

    def rvalue(self, n, rv):
        k = rv['rv']
        if k == 'use':
            return self.operand(n, rv['op'])
        if k in ('ref', 'rawptr'):
            return simplify(('ref', self.place_loc(n, rv['place'])))
        if k == 'bin':
            return simplify(('bin', rv['op'], self.operand(n, rv['a']), self.operand(n, rv['b']), rv.get('aty', '?')))
        if k == 'un':
            return simplify(('un', rv['op'], self.operand(n, rv['a']), rv.get('aty', '?')))
        if k == 'cast':
            return simplify(('cast', rv['kind'], rv['ty'], self.operand(n, rv['op']), rv.get('from', '?')))
        if k == 'discr':
            return simplify(('discr', self.place_value(n, rv['place'])))
        if k == 'agg':
            ops = tuple(self.operand(n, o) for o in rv['ops'])
            kind = rv['kind']
            if kind == 'adt':
                return ('agg', '%s::%s' % (rv['adt'], rv['variant']), ops, tuple(rv.get('fields', ())))
            if kind == 'closure':
                return ('agg', 'closure:' + rv['closure'], ops, ())
            return ('agg', kind, ops, ())
        if k == 'repeat':
            return ('repeat', self.operand(n, rv['op']), rv['count'])
        return ('unknown', k)

    def place_loc(self, n, pl):
        """Canonical location term ('loc', root, path) for a MIR place evaluated before node n."""
        sg = self.sg
        ctx = sg.nodes[n].ctx
        root = ('local', ctx, pl['l'])
        path = ()
        projs = pl['p']
        for i, p in enumerate(projs):
            if p == 'deref':
                if not path and root[0] == 'local':
                    ptr = self._local_as_value(n, root[1], root[2])
                    pty = sg.ctxs[root[1]].fn['locals'][root[2]]['ty']
                else:
                    ptr = ('load', ('loc', root, path))
                    prev = projs[i - 1] if i > 0 else None
                    pty = prev.get('ty', '?') if isinstance(prev, dict) else '?'
                ptr = strip_ptr(ptr)
                if ptr[0] == 'ref':
                    loc = ptr[1]
                    root, path = loc[1], loc[2]
                else:
                    root, path = ('deref', ptr, pty), ()
            elif isinstance(p, dict):
                if 'n' in p:
                    path = path + (('f', p['n'], p.get('adt')),)
                elif 'idx' in p:
                    path = path + (('idx', self.local_value_any(n, ctx, p['idx'])),)
                elif 'cidx' in p:
                    path = path + (('cidx', p['cidx']),)
                elif 'dc' in p:
                    path = path + (('dc', p['dc']),)
                elif 'sub_from' in p:
                    path = path + (('sub', p['sub_from'], p['sub_to']),)
                else:
                    path = path + (('?', str(p)),)
            else:
                path = path + (('?', str(p)),)
        return ('loc', root, path)

    def _local_as_value(self, n, ctx, l):
        if self.is_mem_local(ctx, l):
            return ('load', ('loc', ('local', ctx, l), ()))
        return self.local_value(n, ctx, l)

    def local_value_any(self, n, ctx, l):
        return self._local_as_value(n, ctx, l)

    def place_value(self, n, pl):
        sg = self.sg
        ctx = sg.nodes[n].ctx
        projs = pl['p']
        if not projs:
            return self._local_as_value(n, ctx, pl['l'])
        has_deref = any(p == 'deref' for p in projs)
        if not has_deref and not self.is_mem_local(ctx, pl['l']):
            v = self.local_value(n, ctx, pl['l'])
            for p in projs:
                if isinstance(p, dict) and 'n' in p:
                    v = simplify(('field', v, p['n']))
                elif isinstance(p, dict) and 'dc' in p:
                    v = simplify(('downcast', v, p['dc']))
                elif isinstance(p, dict) and 'idx' in p:
                    v = ('index', v, self.local_value_any(n, ctx, p['idx']))
                elif isinstance(p, dict) and 'cidx' in p:
                    v = ('index', v, ('const', p['cidx'], 'usize'))
                else:
                    v = ('proj', v, str(p))
            return v
        loc = self.place_loc(n, pl)
        return ('load', loc)

    # -- memory: reaching stores to a location
    def stores_to(self, pred_loc):
        """All store-like nodes whose destination location satisfies pred_loc(loc): returns [(node, loc, valueterm)]."""
        out = []
        for n in self.sg.nodes:
            if n.kind == 'assign':
                pl = n.d['place']
                if pl['p']:
                    loc = self.place_loc(n.id, pl)
                    if pred_loc(loc):
                        out.append((n.id, loc, self.rvalue(n.id, n.d['rv'])))
        return out


def _dedup(ts):
    out = []
    seen = set()
    for t in ts:
        if t not in seen:
            seen.add(t)
            out.append(t)
    return out


def strip_ptr(t):
    """Strip identity pointer conversions."""
    while True:
        if t[0] == 'refto':
            t = ('ref', t[2])
            continue
        if t[0] == 'cast' and (t[1].startswith('Ptr') or t[1].startswith('PointerCoercion') or t[1] in ('Transmute',)):
            t = t[3]
            continue
        if t[0] == 'call' and t[2] in IDENTITY_PTR_FNS and t[3]:
            t = t[3][0]
            continue
        if t[0] == 'idcall':
            t = t[2]
            continue
        return t


def simplify(t, call_d=None):
    k = t[0]
    if k == 'call':
        fn = t[2]
        args = t[3]
        d = call_d or {}
        tr = (d.get('trait'), d.get('method'))
        if fn in IDENTITY_PTR_FNS and args:
            return ('idcall', fn, args[0])
        if tr in IDENTITY_TRAIT_METHODS and args:
            return ('idcall', fn, args[0])
        if tr[0] in ('core::ops::Index', 'core::ops::IndexMut') and len(args) == 2:
            base = strip_ptr(args[0])
            if base[0] == 'ref':
                loc = base[1]
                return ('ref', ('loc', loc[1], loc[2] + (('idx', args[1]),)))
            return ('ref', ('loc', ('deref', base, '?'), (('idx', args[1]),)))
        if tr == ('core::ops::Try', 'branch') and args:
            st = d.get('self_ty', '')
            kind = 'option' if st.startswith('core::option::Option') else ('result' if st.startswith('core::result::Result') else None)
            if kind:
                x = args[0]
                if x[0] == 'agg':
                    if x[1].endswith('::Some') or x[1].endswith('::Ok'):
                        return ('agg', 'core::ops::ControlFlow::Continue', (x[2][0],), ('0',))
                    if x[1].endswith('::None'):
                        return ('agg', 'core::ops::ControlFlow::Break', (('agg', 'core::option::Option::None', (), ()),), ('0',))
                    if x[1].endswith('::Err'):
                        return ('agg', 'core::ops::ControlFlow::Break', (x,), ('0',))
                return ('trybranch', kind, x)
        if tr == ('core::ops::FromResidual', 'from_residual') and args:
            r = args[0]
            if r[0] == 'residual':
                if r[1] == 'option':
                    return ('agg', 'core::option::Option::None', (), ())
                return ('agg', 'core::result::Result::Err', (('conv', '?', simplify(('field', ('downcast', r[2], 'Err'), '0'))),), ('0',))
            if r[0] == 'agg' and r[1].endswith('::None'):
                return ('agg', 'core::option::Option::None', (), ())
            if r[0] == 'agg' and r[1].endswith('::Err'):
                return ('agg', 'core::result::Result::Err', (('conv', '?', r[2][0]),), ('0',))
        if fn in ('core::option::Option::<T>::unwrap', 'core::option::Option::<T>::expect',
                  'core::option::Option::<T>::unwrap_unchecked') and args:
            return simplify(('field', simplify(('downcast', args[0], 'Some')), '0'))
        if fn in ('core::result::Result::<T, E>::unwrap', 'core::result::Result::<T, E>::expect') and args:
            return simplify(('field', simplify(('downcast', args[0], 'Ok')), '0'))
        if tr in (('core::convert::TryInto', 'try_into'), ('core::convert::TryFrom', 'try_from')) and args and len(d.get('substs', [])) >= 2:
            tgt = d['substs'][1] if tr[1] == 'try_into' else d['substs'][0]
            return ('tryconv', tgt, args[0])
        if fn in ('core::result::Result::<T, E>::map_err', 'core::option::Option::<T>::ok_or', 'core::option::Option::<T>::ok_or_else') and args:
            r = args[0]
            if fn.endswith('map_err'):
                if r[0] == 'agg' and r[1].endswith('::Ok'):
                    return r
                if r[0] == 'agg' and r[1].endswith('::Err'):
                    return ('agg', r[1], (('mapped', r[2][0], args[1] if len(args) > 1 else None),), r[3])
                return ('idcall', fn, r)
            else:
                if r[0] == 'agg' and r[1].endswith('::Some'):
                    return ('agg', 'core::result::Result::Ok', (r[2][0],), ('0',))
                if r[0] == 'agg' and r[1].endswith('::None'):
                    return ('agg', 'core::result::Result::Err', (args[1] if len(args) > 1 else ('unknown', 'err'),), ('0',))
                return ('okor', r, args[1] if len(args) > 1 else None)
        if fn in ('core::mem::size_of', 'core::mem::align_of') and d.get('substs'):
            return ('sizeof' if fn.endswith('size_of') else 'alignof', d['substs'][0])
        if tr in CONV_TRAIT_METHODS and args:
            return ('conv', d.get('substs', ['?'])[0] if tr[1] == 'from' else (d.get('substs', ['?', '?'])[1] if len(d.get('substs', [])) > 1 else '?'), args[0])
        return t
    if k == 'ref':
        return t
    if k == 'field':
        v = t[1]
        if v[0] == 'agg' and v[3] and t[2] in v[3]:
            return v[2][v[3].index(t[2])]
        if v[0] == 'agg' and (v[1] == 'tuple' or v[1].startswith('closure:')) and t[2].isdigit() and int(t[2]) < len(v[2]):
            return v[2][int(t[2])]
        if v[0] == 'bin' and v[1].endswith('WithOverflow'):
            if t[2] == '0':
                return ('bin', v[1][:-len('WithOverflow')], v[2], v[3]) + tuple(v[4:])
            return ('ovf', v)
        if v[0] == 'phi':
            return ('phi', tuple(_dedup([simplify(('field', x, t[2])) for x in v[1]])))
        if v[0] == 'downcast' and v[1][0] == 'okor' and t[2] == '0' and v[2] == 'Err' and v[1][2] is not None:
            return v[1][2]
        if v[0] == 'downcast' and v[1][0] == 'okor' and t[2] == '0' and v[2] == 'Ok':
            return simplify(('field', simplify(('downcast', v[1][1], 'Some')), '0'))
        if v[0] == 'downcast' and v[1][0] == 'trybranch' and t[2] == '0':
            tb = v[1]
            if v[2] == 'Continue':
                return simplify(('field', simplify(('downcast', tb[2], 'Some' if tb[1] == 'option' else 'Ok')), '0'))
            if v[2] == 'Break':
                return ('residual', tb[1], tb[2])
        return t
    if k == 'downcast':
        v = t[1]
        if v[0] == 'agg' and '::' in v[1]:
            return v
        return t
    if k == 'discr':
        v = t[1]
        if v[0] in ('load0', 'load') and v[1][0] == 'loc':
            pv = promoted_pointee(v[1])
            if pv is not None:
                v = pv
        if v[0] == 'agg' and '::' in v[1]:
            nm = v[1].rsplit('::', 1)[1]
            if nm in ('None', 'Ok', 'Continue'):
                return ('const', 0, 'isize')
            if nm in ('Some', 'Err', 'Break'):
                return ('const', 1, 'isize')
            if v[1] in VARIANT_DISCR:
                return ('const', VARIANT_DISCR[v[1]], 'isize')
        return t
    return t


# --------------------------------------------------------------------------- misc helpers

def callee_is(d, trait=None, method=None, fn=None):
    if fn is not None:
        return d.get('fn') == fn or d.get('resolved') == fn
    return d.get('trait') == trait and d.get('method') == method


def const_int(t):
    if is_const(t) and isinstance(t[1], int):
        return t[1]
    return None


# --------------------------------------------------------------------------- store-to-load forwarding

def mem_value(sg, loc, node, max_steps=20000):
    """Value held by memory location `loc` just before `node`, by walking back to the reaching stores of the
    syntactically identical location.  Returns a term; ('load0', loc) denotes the value at entry;
    ('clobber', n) an opaque call that received a pointer to (a prefix of) the location."""
    S = sg.sym
    terms = []
    seen = set()
    st = list(sg.nodes[node].pred)
    if node == sg.entry:
        terms.append(('load0', loc))
    root = loc[1]
    steps = 0
    while st:
        x = st.pop()
        if x in seen:
            continue
        seen.add(x)
        steps += 1
        if steps > max_steps:
            terms.append(('unknown', 'mem_value budget'))
            break
        n = sg.nodes[x]
        hit = False
        if n.kind == 'assign' and n.d['place']['p']:
            l2 = S.place_loc(x, n.d['place'])
            if l2 == loc:
                terms.append(S.rvalue(x, n.d['rv']))
                hit = True
            elif l2[1] == root and (l2[2] == loc[2][:len(l2[2])]):
                terms.append(('partial_overwrite', x))
                hit = True
        elif n.kind == 'call' and n.inl is None:
            for ai, a in enumerate(n.d['args']):
                aty = n.d.get('arg_tys', [''] * (ai + 1))[ai] if ai < len(n.d.get('arg_tys', [])) else ''
                if aty.startswith('&') and not aty.startswith('&mut'):
                    continue     # shared reference: the callee cannot write through it
                t = strip_ptr(S.operand(x, a))
                if t[0] == 'ref' and t[1][1] == root and t[1][2] == loc[2][:len(t[1][2])]:
                    # pointer to the location (or an enclosing object) escapes into an opaque call
                    f = n.d.get('fn', '')
                    if f.startswith('core::sync::atomic::Atomic::<') and f.endswith('::load'):
                        continue
                    terms.append(('clobber', x))
                    hit = True
                    break
        if hit:
            continue
        if x == sg.entry:
            terms.append(('load0', loc))
            continue
        st.extend(n.pred)
    terms = _dedup(terms)
    if len(terms) == 1:
        return terms[0]
    if not terms:
        return ('load0', loc)
    return ('phi', tuple(terms))


# --------------------------------------------------------------------------- dominators / back edges

def dominators(sg):
    """Immediate dominators over nodes reachable from entry (Cooper-Harvey-Kennedy)."""
    if getattr(sg, '_idom', None) is not None:
        return sg._idom
    order = []
    seen = set()
    st = [(sg.entry, iter(sg.nodes[sg.entry].succ))]
    seen.add(sg.entry)
    while st:
        u, it = st[-1]
        adv = False
        for v in it:
            if v not in seen:
                seen.add(v)
                st.append((v, iter(sg.nodes[v].succ)))
                adv = True
                break
        if not adv:
            order.append(u)
            st.pop()
    rpo = list(reversed(order))
    num = {n: i for i, n in enumerate(rpo)}
    idom = {sg.entry: sg.entry}
    changed = True
    while changed:
        changed = False
        for n in rpo[1:]:
            preds = [p for p in sg.nodes[n].pred if p in idom]
            if not preds:
                continue
            new = preds[0]
            for p in preds[1:]:
                a, b = p, new
                while a != b:
                    while num[a] > num[b]:
                        a = idom[a]
                    while num[b] > num[a]:
                        b = idom[b]
                new = a
            if idom.get(n) != new:
                idom[n] = new
                changed = True
    sg._idom = idom
    sg._rpo_num = num
    return idom


def dominates(sg, a, b):
    idom = dominators(sg)
    if b not in idom:
        return False
    x = b
    while True:
        if x == a:
            return True
        if x == sg.entry:
            return False
        x = idom[x]


def back_edges(sg):
    if getattr(sg, '_back', None) is None:
        idom = dominators(sg)
        be = set()
        for n in sg.nodes:
            if n.id not in idom:
                continue
            for s in n.succ:
                if s in idom and dominates(sg, s, n.id):
                    be.add((n.id, s))
        sg._back = be
    return sg._back


def deep_subterms(S, t, depth=4, _seen=None):
    """Sub-terms of t, following references to locals into the values assigned to those locals (arrays of
    buffer slices, by-reference closure captures, ...)."""
    _seen = set() if _seen is None else _seen
    for x in subterms(t):
        yield x
        if x[0] == 'field' and x[1][0] == 'load' and x[1][1][0] == 'loc' and x[1][1][1][0] == 'local' and not x[1][1][2]:
            # a field of a whole-local load: the same as a load of that field of the local
            x = ('loc', x[1][1][1], (('f', x[2], None),))
        if depth > 0 and x[0] == 'loc' and x[1][0] == 'local':
            _, cx, l = x[1]
            if (cx, l) in _seen:
                continue
            _seen.add((cx, l))
            # a parameter of an inlined callee that is only borrowed there: its value is the caller's argument
            c_ = S.sg.ctxs[cx]
            if c_.parent is not None and 1 <= l <= c_.fn['arg_count'] and not any(not part for _, part in S.defs.get((cx, l), [])):
                pv = S.param_value(cx, l)
                if pv is not None and pv[0] != 'unknown':
                    for y in deep_subterms(S, pv, depth - 1, _seen):
                        yield y
            want_f = x[2][0][1] if (x[2] and x[2][0][0] == 'f') else None
            for dn, part in S.defs.get((cx, l), []):
                v = None
                nd = S.sg.nodes[dn]
                if part and want_f is not None:
                    # field-sensitive: a store to another field of the same local is irrelevant
                    dpl = nd.d.get('place') if nd.kind == 'assign' else nd.d.get('dest')
                    p0 = dpl['p'][0] if (dpl and dpl['p']) else None
                    if isinstance(p0, dict) and 'n' in p0 and 'dc' not in p0 and p0['n'] != want_f:
                        continue
                if not part:
                    v = S.def_value(dn, cx, l)
                elif nd.kind == 'assign':
                    v = S.rvalue(dn, nd.d['rv'])
                elif nd.kind == 'call':
                    v = S.call_value(dn)      # a call whose destination is a field of the local
                if v is not None:
                    for y in deep_subterms(S, v, depth - 1, _seen):
                        yield y
