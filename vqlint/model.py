"""Repository-specific recognisers: ring types by layout signature, queue object fields by type,
device-memory access classification, HAL / transport event classification.  Nothing here matches
source text, line numbers or private function names."""
from .core import *

HAL = 'hal::Hal'
TRANSPORT = 'transport::Transport'
SIZES = [1 << i for i in range(16)]


class Model:
    def __init__(self, F):
        self.F = F
        self.desc_adt = self.avail_adt = self.used_adt = self.used_elem_adt = None
        self.layout_problems = []
        for name, a in F.adts.items():
            if a['kind'] != 'struct':
                continue
            lay = a.get('layout')
            fields = a['variants'][0]['fields']
            if lay and lay.get('offsets') == [0, 8, 12, 14] and lay['size'] == 16 and len(fields) == 4 \
                    and fields[0]['ty'] == 'u64' and fields[1]['ty'] == 'u32' and fields[3]['ty'] == 'u16':
                self.desc_adt = name
            lb = a.get('layouts_by_const')
            if lb and len(fields) == 4:
                l1 = lb.get('1')
                if not l1 or 'offsets' not in l1:
                    continue
                if all(lb[str(n)] and lb[str(n)].get('offsets') == [0, 2, 4, 4 + 2 * n] for n in SIZES):
                    self.avail_adt = name
                elif all(lb[str(n)] and lb[str(n)].get('offsets') == [0, 2, 4, 4 + 8 * n] for n in SIZES):
                    self.used_adt = name
        if self.used_adt:
            rt = F.adts[self.used_adt]['variants'][0]['fields'][2]['ty']
            for name, a in F.adts.items():
                if rt.startswith('[' + name + ';'):
                    self.used_elem_adt = name
        # field roles by position (offset order == declaration order for repr(C))
        self.roles = {}
        if self.avail_adt:
            fs = [f['name'] for f in F.adts[self.avail_adt]['variants'][0]['fields']]
            self.roles[self.avail_adt] = dict(zip(fs, ['avail.flags', 'avail.idx', 'avail.ring', 'avail.used_event']))
        if self.used_adt:
            fs = [f['name'] for f in F.adts[self.used_adt]['variants'][0]['fields']]
            self.roles[self.used_adt] = dict(zip(fs, ['used.flags', 'used.idx', 'used.ring', 'used.avail_event']))
        if self.used_elem_adt:
            fs = [f['name'] for f in F.adts[self.used_elem_adt]['variants'][0]['fields']]
            self.roles[self.used_elem_adt] = dict(zip(fs, ['used.ring.id', 'used.ring.len']))
        if self.desc_adt:
            fs = [f['name'] for f in F.adts[self.desc_adt]['variants'][0]['fields']]
            self.desc_fields = dict(zip(fs, ['addr', 'len', 'flags', 'next']))
            self.desc_field_by_role = {v: k for k, v in self.desc_fields.items()}
        # queue object: the ADT with NonNull<avail>, NonNull<used>, NonNull<[desc]> fields
        self.queue_adt = None
        self.qf = {}
        for name, a in F.adts.items():
            if a['kind'] != 'struct' or not self.avail_adt:
                continue
            fr = {}
            for f in a['variants'][0]['fields']:
                t = f['ty']
                if t.startswith('core::ptr::NonNull<%s<' % self.avail_adt):
                    fr['avail_ptr'] = f['name']
                elif t.startswith('core::ptr::NonNull<%s<' % self.used_adt):
                    fr['used_ptr'] = f['name']
                elif t == 'core::ptr::NonNull<[%s]>' % self.desc_adt:
                    fr['desc_ptr'] = f['name']
                elif t.startswith('[%s;' % self.desc_adt):
                    fr['shadow'] = f['name']
                elif t.startswith('[core::option::Option<core::ptr::NonNull<[%s]>>;' % self.desc_adt):
                    fr['indirect_lists'] = f['name']
            if 'avail_ptr' in fr and 'used_ptr' in fr and 'desc_ptr' in fr:
                self.queue_adt = name
                self.qf = fr
        # DMA owner: ADT whose Drop reaches Hal::dma_dealloc
        self.dma_adt = None
        for name, a in F.adts.items():
            d = a.get('drop_impl')
            if d and d in F.bodies:
                for bl in F.bodies[d]['blocks']:
                    t = bl['term']
                    if t['k'] == 'call' and t.get('trait') == HAL and t.get('method') == 'dma_dealloc':
                        self.dma_adt = name
        # owning queue: ADT containing the queue ADT by value plus an array of NonNull<[u8; N]>
        self.owning_adt = None
        for name, a in F.adts.items():
            if a['kind'] != 'struct' or not self.queue_adt:
                continue
            fs = a['variants'][0]['fields']
            q = [f for f in fs if f['ty'].startswith(self.queue_adt + '<')]
            b = [f for f in fs if f['ty'].startswith('[core::ptr::NonNull<[u8;')]
            if q and b:
                self.owning_adt = name
                self.owning_queue_field = q[0]['name']
                self.owning_buffers_field = b[0]['name']

    def require_rings(self):
        miss = [n for n in ('desc_adt', 'avail_adt', 'used_adt', 'used_elem_adt', 'queue_adt') if getattr(self, n) is None]
        if miss:
            raise Undecided('ring/queue types not found by layout signature: %s (see C06.L1)' % ','.join(miss))

    # -- classification of a location term
    def loc_area(self, loc):
        """Device-memory area of a ('loc', root, path) term, or None."""
        if not isinstance(loc, tuple) or loc[0] != 'loc':
            return None
        area = None
        for p in loc[2]:
            if p[0] == 'f' and len(p) > 2 and p[2] in self.roles:
                r = self.roles[p[2]].get(p[1])
                if r:
                    area = r
        if area:
            return area
        root = loc[1]
        if root[0] == 'deref':
            pty = root[2]
            if pty.startswith('*mut ') or pty.startswith('*const '):
                pointee = pty.split(' ', 1)[1]
                d = self.desc_adt
                if d and (pointee == d or pointee == '[%s]' % d or pointee.startswith('[%s;' % d)):
                    ptr = root[1]
                    dp = self.qf.get('desc_ptr')
                    from_q = derives_from(ptr, lambda x: x[0] == 'loc' and x[2] and x[2][-1][0] == 'f' and x[2][-1][1] == dp and x[2][-1][2] == self.queue_adt)
                    boxy = derives_from(ptr, lambda x: x[0] == 'loc' and any(
                        pp[0] == 'f' and len(pp) > 2 and pp[2] in ('alloc::boxed::Box', 'core::ptr::Unique') for pp in x[2]))
                    if boxy and not from_q:
                        return None
                    il = self.qf.get('indirect_lists')
                    from_il = il and derives_from(ptr, lambda x: x[0] == 'loc' and any(
                        pp[0] == 'f' and pp[1] == il and len(pp) > 2 and pp[2] == self.queue_adt for pp in x[2]))
                    if from_il and not from_q:
                        fld = None
                        for p in loc[2]:
                            if p[0] == 'f' and len(p) > 2 and p[2] == d:
                                fld = self.desc_fields.get(p[1])
                        return 'itable' + ('.' + fld if fld else '')
                    fld = None
                    for p in loc[2]:
                        if p[0] == 'f' and len(p) > 2 and p[2] == d:
                            fld = self.desc_fields.get(p[1])
                    return 'desc' + ('.' + fld if fld else '')
        return None

    def is_shadow_loc(self, loc):
        return any(p[0] == 'f' and p[1] == self.qf.get('shadow') and p[2] == self.queue_adt for p in loc[2])


ATOMIC = 'core::sync::atomic::Atomic::<'
ORDERINGS = {'Relaxed': 0, 'Release': 1, 'Acquire': 2, 'AcqRel': 3, 'SeqCst': 4}


def ordering_of(t):
    """Name of a core::sync::atomic::Ordering aggregate term."""
    if isinstance(t, tuple) and t[0] == 'agg' and t[1].startswith('core::sync::atomic::Ordering::'):
        return t[1].rsplit('::', 1)[1]
    if isinstance(t, tuple) and t[0] == 'phi':
        names = set(ordering_of(x) for x in t[1])
        if len(names) == 1:
            return names.pop()
    return None


class DevAccess:
    __slots__ = ('node', 'kind', 'area', 'ordering', 'loc', 'value', 'atomic')

    def __init__(self, node, kind, area, loc, ordering=None, value=None, atomic=False):
        self.node = node
        self.kind = kind
        self.area = area
        self.loc = loc
        self.ordering = ordering
        self.value = value
        self.atomic = atomic

    def __repr__(self):
        return '<%s %s @%d %s>' % (self.kind, self.area, self.node, self.ordering or '')


def _place_operands(rv):
    """MIR places read by an rvalue dict."""
    out = []

    def op(o):
        pl = o.get('copy') or o.get('move')
        if pl is not None:
            out.append(pl)
    k = rv['rv']
    if k in ('use', 'cast', 'repeat'):
        op(rv['op'])
    elif k in ('bin',):
        op(rv['a'])
        op(rv['b'])
    elif k == 'un':
        op(rv['a'])
    elif k == 'agg':
        for o in rv['ops']:
            op(o)
    elif k == 'discr':
        out.append(rv['place'])
    return out


def device_accesses(sg, M):
    """All loads/stores of device-visible queue memory in the super-graph (analysis B)."""
    S = sg.sym
    out = []
    for n in sg.nodes:
        d = n.d
        if n.kind == 'assign':
            pl = d['place']
            if pl['p']:
                loc = S.place_loc(n.id, pl)
                a = M.loc_area(loc)
                if a:
                    out.append(DevAccess(n.id, 'store', a, loc, value=None))
            for rp in _place_operands(d['rv']):
                if rp['p']:
                    loc = S.place_loc(n.id, rp)
                    a = M.loc_area(loc)
                    if a:
                        out.append(DevAccess(n.id, 'load', a, loc))
        elif n.kind == 'call' and n.inl is None:
            fn = d.get('fn', '')
            if fn.startswith(ATOMIC) and d['args']:
                ptr = strip_ptr(S.operand(n.id, d['args'][0]))
                if ptr[0] == 'ref':
                    a = M.loc_area(ptr[1])
                    if a:
                        meth = fn.rsplit('::', 1)[1]
                        if meth == 'store':
                            o = ordering_of(S.operand(n.id, d['args'][2]))
                            out.append(DevAccess(n.id, 'store', a, ptr[1], ordering=o, value=S.operand(n.id, d['args'][1]), atomic=True))
                        elif meth == 'load':
                            o = ordering_of(S.operand(n.id, d['args'][1]))
                            out.append(DevAccess(n.id, 'load', a, ptr[1], ordering=o, atomic=True))
                        else:
                            out.append(DevAccess(n.id, 'rmw:' + meth, a, ptr[1], atomic=True))
            elif fn.startswith('core::ptr::') or fn.startswith('core::intrinsics::'):
                meth = fn.rsplit('::', 1)[1]
                if meth in ('write', 'write_volatile', 'write_unaligned', 'read', 'read_volatile', 'read_unaligned',
                            'copy', 'copy_nonoverlapping', 'write_bytes', 'replace', 'swap'):
                    for i, a_ in enumerate(d['args']):
                        ptr = strip_ptr(S.operand(n.id, a_))
                        if ptr[0] == 'ref':
                            a = M.loc_area(ptr[1])
                            if a:
                                kind = 'store' if (meth.startswith('write') or (meth.startswith('copy') and i == 1) or meth in ('replace', 'swap')) else 'load'
                                out.append(DevAccess(n.id, kind, a, ptr[1]))
            # calls receiving a reference into device memory (e.g. &mut (*desc)[i] handed to a helper)
            for i, a_ in enumerate(d['args']):
                if fn.startswith(ATOMIC):
                    break
                t = strip_ptr(S.operand(n.id, a_))
                if t[0] == 'ref':
                    a = M.loc_area(t[1])
                    if a and not (fn.startswith('core::ptr::') or fn.startswith('core::intrinsics::')):
                        out.append(DevAccess(n.id, 'escape:' + fn, a, t[1]))
    return out


def fences(sg):
    out = []
    S = sg.sym
    for n in sg.calls(lambda d: d.get('fn') in ('core::sync::atomic::fence', 'core::sync::atomic::compiler_fence')):
        o = ordering_of(S.operand(n.id, n.d['args'][0]))
        out.append((n.id, n.d['fn'].rsplit('::', 1)[1], o))
    return out


def hal_calls(sg, method=None):
    return [n for n in sg.calls(lambda d: d.get('trait') == HAL and (method is None or d.get('method') == method))]


def transport_calls(sg, method=None):
    return [n for n in sg.all_calls(lambda d: d.get('trait') == TRANSPORT and (method is None or d.get('method') == method))
            if n.inl is None]


def is_panic_call(d):
    f = d.get('fn', '')
    return f.startswith('core::panicking::') or f.startswith('core::option::unwrap_failed') or \
        f.startswith('core::result::unwrap_failed') or f.startswith('core::option::expect_failed')
